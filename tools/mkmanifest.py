#!/venv/bin/python
"""Regenerates MANIFEST.json from the property modules under harness/props (one per claimed id)."""
import importlib
import json
import os
import sys

ROOT = os.path.dirname(os.path.dirname(os.path.abspath(__file__)))
sys.path.insert(0, os.path.join(ROOT, "harness"))
sys.path.insert(0, "/repo/src")

ALL = ["C%02d" % i for i in range(1, 21)]
PENDING_REASON = ("not claimed yet: the Lean model, theorems and correspondence check for this property "
                  "are designed (DESIGN.md section 4) but not built at this commit; the technique applies")
BASELINE = ("cd /repo && env -u WHOOSH_VERIF /venv/bin/python -m pytest -ra -q -p no:cacheprovider "
            "--timeout=900 --continue-on-collection-errors")


def main():
    checks, na = [], []
    for pid in ALL:
        path = os.path.join(ROOT, "harness", "props", pid.lower() + ".py")
        if not os.path.exists(path):
            na.append({"property_id": pid, "reason": PENDING_REASON})
            continue
        mod = importlib.import_module("props." + pid.lower())
        m = getattr(mod, "MANIFEST", {})
        if m.get("not_applicable"):
            na.append({"property_id": pid, "reason": m["not_applicable"]})
            continue
        checks.append({
            "property_id": pid,
            "quick_cmd": "./check %s --tier quick" % pid,
            "thorough_cmd": "./check %s --tier thorough" % pid,
            "evidence_file": "evidence/%s.json" % pid,
            "replay_cmd_template": "./check %s --replay {path}" % pid,
            "engine": "lean-model+correspondence",
            "level_claimed": {"category": getattr(mod, "LEVEL", "proof"), "text": m.get("level_text", ""),
                              "design_ref": m.get("design_ref", "DESIGN.md section 4, " + pid)},
            "level_note": m.get("level_note", ""),
            "technique": m.get("technique", "machine-checked proof in Lean 4 over an executable model + "
                                            "differential correspondence check against the implementation"),
        })
    man = {
        "version": 1,
        "setup_cmd": "cd lean && lake build",
        "hooks": {"guard": "WHOOSH_VERIF", "enable": "environment variable WHOOSH_VERIF=1 (set by ./check); "
                  "no source hooks are needed at this commit: the harness subclasses public whoosh classes",
                  "baseline_off_cmd": BASELINE, "source_commits": [], "add_only": True},
        "engines": [{"name": "lean-model+correspondence", "path": "lean/ harness/",
                     "serves_properties": [c["property_id"] for c in checks],
                     "kind_free_text": "Lean 4 theorems over hand-written executable models (lean/WM), compiled "
                     "driver speaking a line protocol, Python harness diffing model vs. real whoosh and "
                     "searching for failing inputs with the Lean spec as oracle"}],
        "checks": checks,
        "not_applicable": na,
        "notes": "See DESIGN.md. known_findings.json lists genuine defects of the pinned tree (finding/fixed).",
    }
    with open(os.path.join(ROOT, "MANIFEST.json"), "w") as f:
        json.dump(man, f, indent=1)
        f.write("\n")
    print("claimed:", [c["property_id"] for c in checks])


if __name__ == "__main__":
    main()
