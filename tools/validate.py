#!/usr/bin/env python3
"""tools/validate.py [--tier quick|thorough] [--seeds 0,1,2,3] [ids…]: run checks on the unchanged tree
for several seeds and print exit status / wall time / VIOLATION and KNOWN-FINDING lines."""
import json
import os
import subprocess
import sys
import time

ROOT = os.path.dirname(os.path.dirname(os.path.abspath(__file__)))
args = sys.argv[1:]
tier, seeds, ids = "quick", [0, 1, 2, 3], []
while args:
    a = args.pop(0)
    if a == "--tier":
        tier = args.pop(0)
    elif a == "--seeds":
        seeds = [int(x) for x in args.pop(0).split(",")]
    else:
        ids.append(a.upper())
if not ids:
    ids = [c["property_id"] for c in json.load(open(os.path.join(ROOT, "MANIFEST.json")))["checks"]]
bad = 0
for pid in ids:
    for seed in seeds:
        t0 = time.time()
        p = subprocess.run(["./check", pid, "--tier", tier], cwd=ROOT, env=dict(os.environ, VERIF_SEED=str(seed)),
                           stdout=subprocess.PIPE, stderr=subprocess.STDOUT, text=True)
        lines = p.stdout.splitlines()
        flag = [l for l in lines if l.startswith(("VIOLATION", "INFRA"))]
        kf = sum(1 for l in lines if l.startswith("KNOWN-FINDING"))
        print("%s seed=%d tier=%s rc=%d %.0fs known=%d %s" % (pid, seed, tier, p.returncode, time.time() - t0, kf,
                                                             flag[:3]), flush=True)
        if p.returncode != 0:
            bad += 1
            print("\n".join(lines[-15:]))
sys.exit(1 if bad else 0)
