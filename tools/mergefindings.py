#!/usr/bin/env python3
"""Merge findings/<Cxx>.json files (written by the family builders) into known_findings.json, resolving each
fixed entry's commit_subject to the commit in /repo's main branch.  Run by hand at integration time only."""
import glob
import json
import os
import subprocess

ROOT = os.path.dirname(os.path.dirname(os.path.abspath(__file__)))
known = json.load(open(os.path.join(ROOT, "known_findings.json")))
log = subprocess.run(["git", "-C", "/repo", "log", "--format=%h\t%s", "main"], stdout=subprocess.PIPE, text=True).stdout
by_subject = {}
for line in log.splitlines():
    h, s = line.split("\t", 1)
    by_subject.setdefault(s.strip(), h)
for path in sorted(glob.glob(os.path.join(ROOT, "findings", "*.json"))):
    for e in json.load(open(path)):
        if e.get("status") == "fixed":
            subj = e.get("commit_subject", "").strip()
            e["commit"] = by_subject.get(subj)
            if not e["commit"]:
                print("WARNING: no commit in /repo main for", subj)
        key = (e["property"], e["status"], e["signature"], e.get("commit_subject"))
        if not any((k["property"], k["status"], k["signature"], k.get("commit_subject")) == key for k in known):
            known.append(e)
    os.unlink(path)
known.sort(key=lambda e: (e["property"], e["status"], e["signature"]))
json.dump(known, open(os.path.join(ROOT, "known_findings.json"), "w"), indent=1)
print(len(known), "entries")
