#!/usr/bin/env python3
"""tools/takefindings.py <fam> <Cxx> [<Cyy>…]: replace the entries of the given property ids in /verif/known_findings.json
by those in /work/<fam>/verif/known_findings.json (round-2 builders edit their own ids in place)."""
import json
import sys
fam, ids = sys.argv[1], set(sys.argv[2:])
mine = json.load(open("/verif/known_findings.json"))
theirs = json.load(open("/work/%s/verif/known_findings.json" % fam))
before = sum(1 for e in mine if e["property"] in ids)
mine = [e for e in mine if e["property"] not in ids] + [e for e in theirs if e["property"] in ids]
mine.sort(key=lambda e: (e["property"], e["status"], e["signature"]))
json.dump(mine, open("/verif/known_findings.json", "w"), indent=1)
print("entries for", sorted(ids), ":", before, "->", sum(1 for e in mine if e["property"] in ids))
