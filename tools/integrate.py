#!/usr/bin/env python3
"""tools/integrate.py <fam> [--apply]: copy what builder <fam> changed (relative to tag builders-base)
from /work/<fam>/verif into /verif; report conflicts with files changed in /verif since the tag."""
import filecmp
import os
import shutil
import subprocess
import sys

fam = sys.argv[1]
apply = "--apply" in sys.argv
BASE = next((a.split("=", 1)[1] for a in sys.argv if a.startswith("--base=")), "builders-base")
SRC = "/work/%s/verif" % fam
DST = os.environ.get("VERIF_DST", "/verif")
SKIP_DIRS = {".git", ".lake", "__pycache__", "evidence", "replays"}
SKIP_FILES = {"MANIFEST.json", "lean/.build.lock", "known_findings.json"}


def base_blob(rel):
    p = subprocess.run(["git", "-C", DST, "show", BASE + ":" + rel], stdout=subprocess.PIPE,
                       stderr=subprocess.DEVNULL)
    return p.stdout if p.returncode == 0 else None


changed, conflicts = [], []
for base, dirs, files in os.walk(SRC):
    dirs[:] = [d for d in dirs if d not in SKIP_DIRS]
    for n in files:
        if n.endswith(".pyc"):
            continue
        src = os.path.join(base, n)
        rel = os.path.relpath(src, SRC)
        if rel in SKIP_FILES:
            continue
        old = base_blob(rel)
        new = open(src, "rb").read()
        if old == new:
            continue
        dst = os.path.join(DST, rel)
        if os.path.exists(dst):
            cur = open(dst, "rb").read()
            if cur == new:
                continue
            if old is None or cur != old:
                conflicts.append(rel)
                continue
        changed.append(rel)
print("to copy (%d):" % len(changed))
for r in changed:
    print("  ", r)
print("CONFLICTS (%d):" % len(conflicts))
for r in conflicts:
    print("  ", r)
if "--force" in sys.argv:   # second integration of the same family: its own files differ from the base tag
    changed += conflicts
if apply:
    for r in changed:
        os.makedirs(os.path.dirname(os.path.join(DST, r)), exist_ok=True)
        shutil.copy2(os.path.join(SRC, r), os.path.join(DST, r))
    print("copied")
