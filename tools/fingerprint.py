#!/venv/bin/python
"""Regenerates harness/fingerprints.json: a hash of the normalised AST of every module under
/repo/src/whoosh at the tree the framework was last validated against.  A changed fingerprint is
never a violation; it only makes the checks spend more budget (vcheck.Ctx.boost)."""
import ast
import hashlib
import json
import os
import sys
import warnings

warnings.simplefilter("ignore")

ROOT = os.path.dirname(os.path.dirname(os.path.abspath(__file__)))
SRC = os.path.realpath(os.environ.get("VERIF_REPO_SRC", "/repo/src"))


def fingerprint(path):
    try:
        tree = ast.parse(open(path, encoding="utf-8").read())
    except Exception as e:  # a file that no longer parses is certainly "changed"
        return "unparsable:%s" % type(e).__name__
    return hashlib.sha256(ast.dump(tree, include_attributes=False).encode()).hexdigest()[:24]


def all_fingerprints(src=SRC):
    res = {}
    base = os.path.join(src, "whoosh")
    for d, _, names in os.walk(base):
        for n in names:
            if n.endswith(".py"):
                p = os.path.join(d, n)
                res["src/" + os.path.relpath(p, src)] = fingerprint(p)
    return res


if __name__ == "__main__":
    out = os.path.join(ROOT, "harness", "fingerprints.json")
    with open(out, "w") as f:
        json.dump(all_fingerprints(), f, indent=0, sort_keys=True)
        f.write("\n")
    print("wrote", out)
