"""Writes corpus/C10/*.json and corpus/C08/*.json: minimised inputs of the defects the codec family
found on the pinned tree (replayed first on every run).  Run once: /venv/bin/python tools/mkcorpus_codec.py"""
import base64
import json
import os
import pickle

ROOT = os.path.dirname(os.path.dirname(os.path.abspath(__file__)))


def put(prop, name, stream, obj, note):
    d = os.path.join(ROOT, "corpus", prop)
    os.makedirs(d, exist_ok=True)
    rec = {"_stream": stream, "_pickle": base64.b64encode(pickle.dumps(obj, 2)).decode("ascii"), "note": note,
           "readable": repr(obj)[:600]}
    with open(os.path.join(d, name + ".json"), "w") as f:
        json.dump(rec, f, indent=1, sort_keys=True)
        f.write("\n")


def c10():
    ops = ["active", "id", "next", "copynext", "id", ("skip", 9), "id", "weight", "value", "next", "active"]
    put("C10", "inline-one-posting", "codec",
        {"kind": "doc", "bl": 4, "comp": 3, "inl": 3, "fs": None, "postings": [(5, 1.0, b"v", 2)], "ops": ops,
         "tags": ["corpus"], "malformed": False},
        "finish_postings -> set_inline AttributeError (inlinelimit 3, one posting)")
    put("C10", "copy-across-blocks", "codec",
        {"kind": "doc", "bl": 2, "comp": 0, "inl": 1, "fs": 4,
         "postings": [(i * 3, 1.0 + (i % 2), bytes([i]) * 4, 3) for i in range(7)], "ops": ops,
         "tags": ["corpus"], "malformed": False},
        "W3LeafMatcher.copy() missing; skip_to across blocks")
    toks = [(u"b", 0, 0, 1, 1.0), (u"a", 1, 2, 3, 2.0), (u"b", 5, 9, 10, 0.5)]
    put("C10", "characterboosts-field-boost", "formats", ("characterboosts", 2.0, toks),
        "CharacterBoosts.word_values weight without field_boost")
    put("C10", "block-max-weight-float32", "f32", (2, [0.1, 0.1, 0.3, 0.1]),
        "block max weight 0.1 < stored weight 0.10000000149011612")
    docs = [(1.0, [(u"a", 0, 0, 1, 1.0)]), (1.0, [(u"b", 0, 0, 1, 1.0), (u"a", 1, 2, 3, 1.0)]),
            (2.0, []), (1.0, [(u"a", 0, 0, 1, 1.0)])]
    base = {"fb": 1.0, "scorable": True, "codec": "w3", "comp": 0, "docs": docs, "ncommits": 2, "storage": "ram"}
    put("C10", "merge-inlined-id-postings", "index",
        dict(base, fmt="positions", vfmt="frequency", bl=2, inl=3, history="merged"),
        "inlinelimit 3: vectors inlined (struct.error) / merging inlined value-less postings (AssertionError vbytes='')")
    put("C10", "merge-existence-vectors", "index",
        dict(base, fmt="characterboosts", vfmt="existence", bl=4, inl=0, history="merged"),
        "merging a segment whose vector format is Existence: AssertionError vbytes=None")
    put("C10", "memory-empty-vector", "index",
        dict(base, fmt="positions", vfmt="positions", bl=4, inl=1, history="single", ncommits=1, codec="memory"),
        "MemoryCodec: empty vector stored, has_vector True")
    put("C10", "vector-as-vector-format", "index",
        dict(base, fmt="positions", vfmt="frequency", bl=4, inl=1, history="single", ncommits=1),
        "IndexReader.vector_as decoded the vector with the posting format (positions) instead of frequency")
    put("C10", "plain-all-terms", "index",
        dict(base, fmt="positions", vfmt="positions", bl=4, inl=1, history="single", ncommits=1, codec="plain"),
        "PlainTextCodec terms reader: all_terms() raised TypeError (_find_root() without argument)")


def c08():
    put("C08", "varbytes-stale-arrays", "columns",
        ({"type": "var", "allow": True, "cutoff": 0, "adds": [(0, b"a" * 200), (1, b"b" * 100)], "doccount": 4,
          "mode": "corpus"}, "ram", b""),
        "finish(): offsets array retyped by the final fill, stale array written")
    put("C08", "varbytes-stale-arrays-65536", "columns",
        ({"type": "var", "allow": True, "cutoff": 1, "adds": [(0, b"x" * 65000), (2, b"y" * 536)], "doccount": 6,
          "mode": "corpus"}, "file", b"junk"),
        "same at the 65535/65536 boundary, non-zero base position")
    put("C08", "refbytes-switch", "columns",
        ({"type": "ref", "fixedlen": 0, "default": None, "adds": [(i * 2, b"u%d" % i) for i in range(257)] + [(600, b"u3")],
          "doccount": 603, "nuniq": 257}, "compound", b""),
        "switch from byte to ushort references at the 256th distinct value")
    put("C08", "compressed-iter-gap", "wrapped",
        ({"type": "compressed", "adds": [(1, b"payload")], "doccount": 3}, "ram"),
        "CompressedBytesColumn.Reader.__iter__ decompresses empty rows")
    docs = [{"st": u"s"}, {}, {"k": u"cc", "t": u"alfa", "n32": -5, "nf": 1.5, "nd": 5},
            {"k": u"dd", "kr": u"x", "dt": __import__("datetime").datetime(2001, 2, 3)}]
    put("C08", "multireader-segment-without-column", "api",
        {"docs": docs, "ncommits": 2, "storage": "ram", "final": "none", "deletes": [], "nd_default": 5,
         "compound": True},
        "MultiReader.column_reader misaligned rows; NUMERIC(float) default; signed default")
    put("C08", "segs-merge-without-column", "segs",
        {"kind": "var", "segs": [[u"a", None, u"b"], [None, None], [u"c"]], "deletes": [1, 3], "storage": "ram"},
        "three segments, the middle one without the column file: MultiColumnReader rows, then delete + optimize "
        "(write_per_doc column copy)")
    put("C08", "segs-merge-numeric", "segs",
        {"kind": "num", "segs": [[None, 7], [-3, None, 32767]], "deletes": [0], "storage": "file"},
        "numeric column with a non-zero default through a merge")


if __name__ == "__main__":
    c10()
    c08()
    print("corpus written")
