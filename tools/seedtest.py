#!/usr/bin/env python3
"""Seeded-defect tooling.

  tools/seedtest.py verify DIR        confirm a candidate (patch.diff, demo.py, meta.json) in a scratch worktree:
                                      repo tests pass with the patch, demo fails with it and passes without
  tools/seedtest.py run DIR [tier]    apply DIR/patch.diff to /repo, run ./check <property> (quick by default),
                                      undo the patch; prints whether the check caught it
  tools/seedtest.py all [tier]        `run` for every directory under /verif/seeded
"""
import json
import os
import subprocess
import sys
import time

ROOT = os.path.dirname(os.path.dirname(os.path.abspath(__file__)))
REPO = "/repo"
WT = "/tmp/seedwt"


def sh(cmd, **kw):
    return subprocess.run(cmd, shell=True, stdout=subprocess.PIPE, stderr=subprocess.STDOUT, text=True, **kw)


def verify(d):
    d = os.path.abspath(d)
    meta = json.load(open(os.path.join(d, "meta.json")))
    if not os.path.isdir(WT):
        r = sh("git -C %s worktree add -f --detach %s main" % (REPO, WT))
        assert r.returncode == 0, r.stdout
    sh("git -C %s checkout -q --detach main && git -C %s checkout -- . && git -C %s clean -fdq" % (WT, WT, WT))
    tmpd = WT + "-tmp"
    os.makedirs(tmpd, exist_ok=True)
    env = dict(os.environ, PYTHONPATH=WT + "/src", TMPDIR=tmpd)
    res = {"property": meta["property"]}
    r = sh("/venv/bin/python %s/demo.py" % d, cwd=WT, env=env, timeout=600)
    res["demo_clean_rc"] = r.returncode
    r = sh("git -C %s apply %s/patch.diff" % (WT, d))
    if r.returncode != 0:
        res["apply"] = r.stdout[-500:]
        print(json.dumps(res, indent=1))
        return False
    r = sh("/venv/bin/python -m pytest -q -p no:cacheprovider --timeout=900 -x 2>&1 | tail -3", cwd=WT, env=env,
           timeout=1800)
    res["tests_tail"] = r.stdout.strip().splitlines()[-1:] 
    res["tests_pass"] = " passed" in r.stdout and " failed" not in r.stdout and "error" not in r.stdout.lower()
    r = sh("/venv/bin/python %s/demo.py" % d, cwd=WT, env=env, timeout=600)
    res["demo_patched_rc"] = r.returncode
    res["demo_patched_out"] = r.stdout[-400:]
    sh("git -C %s checkout -- . && git -C %s clean -fdq" % (WT, WT))
    sh("rm -rf %s" % tmpd)
    ok = res["demo_clean_rc"] == 0 and res["tests_pass"] and res["demo_patched_rc"] != 0
    res["confirmed"] = ok
    print(json.dumps(res, indent=1))
    return ok


def run(d, tier="quick"):
    d = os.path.abspath(d)
    meta = json.load(open(os.path.join(d, "meta.json")))
    pid = meta["property"]
    st = sh("git -C %s status --porcelain --untracked-files=no" % REPO).stdout.strip()
    assert not st, "/repo not clean: " + st
    r = sh("git -C %s apply %s/patch.diff" % (REPO, d))
    assert r.returncode == 0, r.stdout
    t0 = time.time()
    ev = os.path.join(ROOT, "evidence", "%s.json" % pid)
    saved = open(ev).read() if os.path.exists(ev) else None
    try:
        r = sh("./check %s --tier %s" % (pid, tier), cwd=ROOT, timeout=3600)
    finally:
        sh("git -C %s checkout -- ." % REPO)
        if saved is not None:  # evidence files describe runs on the unchanged tree only
            open(ev, "w").write(saved)
    viol = [l for l in r.stdout.splitlines() if l.startswith("VIOLATION")]
    caught = r.returncode == 1 and bool(viol)
    print("%-28s %s rc=%d %.0fs %s" % (os.path.basename(d), "CAUGHT" if caught else "MISSED", r.returncode,
                                       time.time() - t0, viol[:2]))
    if r.returncode == 2:
        print(r.stdout[-1500:])
    head = sh("git -C %s rev-parse --short HEAD" % REPO).stdout.strip()
    with open(os.path.join(d, "result.json"), "w") as f:
        json.dump({"check": "./check %s --tier %s" % (pid, tier), "caught": caught, "exit": r.returncode,
                   "violation_lines": viol[:4], "wall_s": round(time.time() - t0), "repo_head": head}, f, indent=1)
    return caught, viol


def prun_one(arg):
    """Development variant of `run`: the patch is applied to a scratch worktree and the check is pointed at it
    with VERIF_REPO_SRC, so several seeded changes can be tried in parallel and /repo stays untouched."""
    d, tier, slot = arg
    d = os.path.abspath(d)
    meta = json.load(open(os.path.join(d, "meta.json")))
    pid = meta["property"]
    wt = "/tmp/seedwt-%d" % slot
    if not os.path.isdir(wt):
        r = sh("git -C %s worktree add -f --detach %s main" % (REPO, wt))
        assert r.returncode == 0, r.stdout
    sh("git -C %s checkout -q --detach main && git -C %s checkout -- . && git -C %s clean -fdq" % (wt, wt, wt))
    r = sh("git -C %s apply %s/patch.diff" % (wt, d))
    if r.returncode != 0:
        print("%-10s PATCH DOES NOT APPLY: %s" % (os.path.basename(d), r.stdout[-200:]))
        return
    out = "/tmp/seedout-%d" % slot
    os.makedirs(out, exist_ok=True)
    env = dict(os.environ, VERIF_REPO_SRC=wt + "/src", VERIF_EVIDENCE_DIR=out, VERIF_REPLAY_DIR=out)
    t0 = time.time()
    r = sh("./check %s --tier %s" % (pid, tier), cwd=ROOT, timeout=7200, env=env)
    sh("git -C %s checkout -- ." % wt)
    viol = [l for l in r.stdout.splitlines() if l.startswith("VIOLATION")]
    caught = r.returncode == 1 and bool(viol)
    head = sh("git -C %s rev-parse --short main" % REPO).stdout.strip()
    with open(os.path.join(d, "result.json"), "w") as f:
        json.dump({"check": "./check %s --tier %s" % (pid, tier), "caught": caught, "exit": r.returncode,
                   "violation_lines": viol[:4], "wall_s": round(time.time() - t0), "repo_head": head,
                   "how": "patch applied to a scratch worktree of /repo main, check run with VERIF_REPO_SRC"}, f, indent=1)
    print("%-10s %s rc=%d %.0fs %s" % (os.path.basename(d), "CAUGHT" if caught else "MISSED", r.returncode,
                                      time.time() - t0, [v[:150] for v in viol[:2]]), flush=True)
    if r.returncode == 2:
        print(r.stdout[-800:])


def prun(tier="quick", only=None, par=4):
    import concurrent.futures as cf
    base = os.path.join(ROOT, "seeded")
    names = [n for n in sorted(os.listdir(base)) if os.path.exists(os.path.join(base, n, "patch.diff"))
             and (not only or n.split("-")[0] in only or n in only)]
    import queue
    slots = queue.Queue()
    for i in range(par):
        slots.put(i)

    def job(n):
        s = slots.get()
        try:
            prun_one((os.path.join(base, n), tier, s))
        finally:
            slots.put(s)
    with cf.ThreadPoolExecutor(par) as ex:
        list(ex.map(job, names))
    for i in range(par):
        sh("git -C %s worktree remove --force /tmp/seedwt-%d" % (REPO, i))
        sh("rm -rf /tmp/seedout-%d" % i)


if __name__ == "__main__":
    cmd = sys.argv[1]
    if cmd == "verify":
        sys.exit(0 if verify(sys.argv[2]) else 1)
    elif cmd == "run":
        run(sys.argv[2], *(sys.argv[3:4]))
    elif cmd == "prun":
        tier = "quick"
        only = [a for a in sys.argv[2:] if a not in ("quick", "thorough")]
        if "thorough" in sys.argv[2:]:
            tier = "thorough"
        prun(tier, only or None)
    elif cmd == "all":
        base = os.path.join(ROOT, "seeded")
        for n in sorted(os.listdir(base)):
            if os.path.exists(os.path.join(base, n, "patch.diff")):
                run(os.path.join(base, n), *(sys.argv[2:3]))
