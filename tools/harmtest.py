#!/usr/bin/env python3
"""Harmless-change tooling (the counterpart of seedtest.py).

harmless/<id>/ holds behaviour-preserving changes to whoosh written by independent agents that saw only the
property text: patch.diff, meta.json (which property's anchored code it touches, why it is harmless).

  tools/harmtest.py verify DIR         repo tests pass with the patch (scratch worktree)
  tools/harmtest.py prun [ids|Cxx...]  apply each patch to a scratch worktree, run ./check <property> --tier quick
                                       against it (VERIF_REPO_SRC); a check that exits non-zero or prints VIOLATION
                                       is a FALSE ALARM.  Writes harmless/<id>/result.json.
"""
import json
import os
import queue
import subprocess
import sys
import time

ROOT = os.path.dirname(os.path.dirname(os.path.abspath(__file__)))
REPO = "/repo"
BASE = os.path.join(ROOT, "harmless")


def sh(cmd, **kw):
    return subprocess.run(cmd, shell=True, stdout=subprocess.PIPE, stderr=subprocess.STDOUT, text=True, **kw)


def worktree(path):
    if not os.path.isdir(path):
        r = sh("git -C %s worktree add -f --detach %s main" % (REPO, path))
        assert r.returncode == 0, r.stdout
    sh("git -C %s checkout -q --detach main && git -C %s checkout -- . && git -C %s clean -fdq" % (path, path, path))


def verify(d):
    d = os.path.abspath(d)
    wt = "/tmp/harmwt"
    worktree(wt)
    r = sh("git -C %s apply %s/patch.diff" % (wt, d))
    if r.returncode != 0:
        print("%s: patch does not apply: %s" % (os.path.basename(d), r.stdout[-300:]))
        return False
    tmpd = wt + "-tmp"
    os.makedirs(tmpd, exist_ok=True)
    env = dict(os.environ, PYTHONPATH=wt + "/src", TMPDIR=tmpd)
    r = sh("/venv/bin/python -m pytest -q -p no:cacheprovider --timeout=900 2>&1 | tail -3", cwd=wt, env=env, timeout=1800)
    ok = " passed" in r.stdout and " failed" not in r.stdout and "error" not in r.stdout.lower()
    sh("git -C %s checkout -- . && git -C %s clean -fdq" % (wt, wt))
    sh("rm -rf %s" % tmpd)
    meta = json.load(open(os.path.join(d, "meta.json")))
    meta["confirmed_in_scratch_worktree"] = {"repo_tests_pass_with_patch": ok, "tests_tail": r.stdout.strip().splitlines()[-1:]}
    json.dump(meta, open(os.path.join(d, "meta.json"), "w"), indent=1)
    print("%-10s tests %s %s" % (os.path.basename(d), "pass" if ok else "FAIL", r.stdout.strip().splitlines()[-1:]))
    return ok


def prun_one(d, slot, tier="quick", seed="0"):
    meta = json.load(open(os.path.join(d, "meta.json")))
    pid = meta["property"]
    wt = "/tmp/harmwt-%d" % slot
    worktree(wt)
    r = sh("git -C %s apply %s/patch.diff" % (wt, d))
    if r.returncode != 0:
        print("%-10s PATCH DOES NOT APPLY: %s" % (os.path.basename(d), r.stdout[-200:]))
        return
    out = "/tmp/harmout-%d" % slot
    os.makedirs(out, exist_ok=True)
    env = dict(os.environ, VERIF_REPO_SRC=wt + "/src", VERIF_EVIDENCE_DIR=out, VERIF_REPLAY_DIR=out, VERIF_SEED=seed)
    t0 = time.time()
    r = sh("./check %s --tier %s" % (pid, tier), cwd=ROOT, timeout=7200, env=env)
    sh("git -C %s checkout -- ." % wt)
    viol = [l for l in r.stdout.splitlines() if l.startswith("VIOLATION")]
    silent = r.returncode == 0 and not viol
    detail = ""
    if viol:
        # keep the replay that explains the alarm next to the patch
        for v in viol[:2]:
            p = v.split("replay=")[1].split()[0]
            src = os.path.join(out, os.path.basename(p))
            if os.path.exists(src):
                detail += open(src).read()[:3000] + "\n"
    head = sh("git -C %s rev-parse --short main" % REPO).stdout.strip()
    with open(os.path.join(d, "result.json"), "w") as f:
        json.dump({"check": "./check %s --tier %s (VERIF_SEED=%s)" % (pid, tier, seed), "silent": silent, "exit": r.returncode,
                   "violation_lines": viol[:4], "wall_s": round(time.time() - t0), "repo_head": head,
                   "how": "patch applied to a scratch worktree of /repo main, check run with VERIF_REPO_SRC"}, f, indent=1)
    print("%-10s %s %s rc=%d %.0fs %s" % (os.path.basename(d), pid, "silent" if silent else "FALSE-ALARM", r.returncode,
                                         time.time() - t0, [v[:160] for v in viol[:2]]), flush=True)
    if not silent:
        print(detail[:2500] if detail else r.stdout[-1500:], flush=True)


def prun(only=None, par=4, seed="0"):
    import concurrent.futures as cf
    names = [n for n in sorted(os.listdir(BASE)) if os.path.exists(os.path.join(BASE, n, "patch.diff"))]
    if only:
        names = [n for n in names if n in only or json.load(open(os.path.join(BASE, n, "meta.json")))["property"] in only]
    slots = queue.Queue()
    for i in range(par):
        slots.put(i)

    def job(n):
        s = slots.get()
        try:
            prun_one(os.path.join(BASE, n), s, seed=seed)
        finally:
            slots.put(s)
    with cf.ThreadPoolExecutor(par) as ex:
        list(ex.map(job, names))
    for i in range(par):
        sh("git -C %s worktree remove --force /tmp/harmwt-%d" % (REPO, i))
        sh("rm -rf /tmp/harmout-%d" % i)


if __name__ == "__main__":
    cmd = sys.argv[1]
    if cmd == "verify":
        sys.exit(0 if verify(sys.argv[2]) else 1)
    elif cmd == "prun":
        seed = os.environ.get("VERIF_SEED", "0")
        prun([a for a in sys.argv[2:]] or None, seed=seed)
