#!/venv/bin/python
"""Prints the as-built tables of DESIGN.md section 11 (markdown) from the modules, known_findings.json and
seeded/*/result.json."""
import glob
import importlib
import json
import os
import subprocess
import sys
import warnings

warnings.simplefilter("ignore")
ROOT = os.path.dirname(os.path.dirname(os.path.abspath(__file__)))
sys.path.insert(0, os.path.join(ROOT, "harness"))
sys.path.insert(0, "/repo/src")
known = json.load(open(os.path.join(ROOT, "known_findings.json")))
print("| id | level | theorems (partial) | Lean modules | findings recorded | defects fixed |")
print("|---|---|---|---|---|---|")
for i in range(1, 21):
    pid = "C%02d" % i
    mod = importlib.import_module("props." + pid.lower())
    th = getattr(mod, "THEOREMS", [])
    part = getattr(mod, "PARTIAL", {})
    nf = sum(1 for k in known if k["property"] == pid and k["status"] == "finding")
    nx = sum(1 for k in known if k["property"] == pid and k["status"] == "fixed")
    print("| %s | %s | %d (%d) | %s | %d | %d |" % (pid, getattr(mod, "LEVEL", "proof"), len(th), len(part),
                                                   ", ".join(getattr(mod, "LEAN_IMPORTS", [])), nf, nx))
print()
print("| seeded change | property | caught by quick check | violation lines |")
print("|---|---|---|---|")
for d in sorted(glob.glob(os.path.join(ROOT, "seeded", "C*"))):
    meta = json.load(open(os.path.join(d, "meta.json")))
    rp = os.path.join(d, "result.json")
    res = json.load(open(rp)) if os.path.exists(rp) else {}
    status = "yes" if res.get("caught") else ("no" if res else "not run")
    if meta.get("status_on_repaired_tree"):
        status += " (neutralised by a fix: property holds with the change)"
    v = "; ".join(x.split("replay=")[-1] for x in res.get("violation_lines", [])[:2])
    print("| %s | %s | %s | %s |" % (os.path.basename(d), meta["property"], status, v))
print()
log = subprocess.run(["git", "-C", "/repo", "log", "--format=%h %s", "--reverse", "173ed2e..main"], stdout=subprocess.PIPE,
                     text=True).stdout
print("fix commits in /repo: %d" % len(log.splitlines()))
