"""C13 — numeric and date fields order and range-match exactly."""
import datetime
import json
import os
import re
from decimal import Decimal

from vcheck import sexp
from gen import numeric as G

ID = "C13"
LEVEL = "proof"
LEAN_IMPORTS = ["WM.Props.C13", "WM.Props.C13Date"]
THEOREMS = [
    "WM.C13.split_exact", "WM.C13.split_shape", "WM.C13.split_unguarded_wrong",
    "WM.C13.int_sortable", "WM.C13.float_sortable", "WM.C13.float_sortable_unsigned",
    "WM.C13.bytes_order",
    "WM.C13.tiered_int", "WM.C13.tiered_float",
    "WM.C13.index_terms",
    "WM.C13.range_query_int", "WM.C13.range_query_multi", "WM.C13.range_query_float",
    "WM.C13.range_query_float_unsigned",
    "WM.C13.reject", "WM.C13.reject_float",
    "WM.C13.datetime", "WM.C13.decimal",
    "WM.C13.range_query_float_numeric_partial", "WM.C13.range_query_float_numeric_full_false",
    "WM.C13.decimal_monotone", "WM.C13.decimal_bound_partial", "WM.C13.decimal_bound_full_false",
    "WM.C13.range_query_datetime",
    "WM.C13.civil_order", "WM.C13.range_query_civil", "WM.C13.partial_date_period",
    "WM.C13.range_bound_period", "WM.C13.parse_range_datetime", "WM.C13.parse_query_datetime",
    "WM.C13.column_order",
    "WM.C13.parse_query_total", "WM.C13.datetime_roundtrip",
    "WM.C13.boolean_match", "WM.C13.boolean_old_disagrees",
    "WM.C13.range_query_decimal", "WM.C13.range_query_float_equal_bounds",
    "WM.C13.range_query_float_multi",
]
PARTIAL = {
    "WM.C13.range_query_float_numeric_partial":
        "full statement `range_query_float_numeric_full` (float range query = numeric membership with Python's "
        "< / <= for every pattern) is false and refuted by `range_query_float_numeric_full_false`: the sortable "
        "encoding orders doubles by the IEEE total order, so a -0.0 document is outside [0.0 TO x] (and +0.0 "
        "outside [x TO -0.0]) and a NaN document is inside an open-ended range on its side; the partial theorem "
        "excludes NaN values/bounds and a zero value facing a zero bound of the opposite sign "
        "(`range_query_float` states the exact behaviour under the total order for all patterns); recorded as "
        "findings with deterministic probes",
    "WM.C13.decimal_bound_partial":
        "full statement `decimal_bound_full` (a Decimal range bound with any number of places is exact) is false "
        "and refuted by `decimal_bound_full_false`: prepare_number truncates towards zero, so a positive lower "
        "bound / negative upper bound with more than decimal_places digits moves outwards ([0.005 TO ..] with "
        "dc=2 admits 0.00; by contraposition an exclusive positive upper bound moves inwards: [.. TO 0.005} drops "
        "0.00); proved: exact for bounds with <= dc places, exact for `x <= bound` (hence `x > bound`) when the "
        "bound is >= 0 and for `bound <= x` (hence `x < bound`) when it is <= 0, and monotone "
        "(`decimal_monotone`); recorded as a finding with a deterministic probe",
}
RULE = ("split_ranges: exhaustive over 8 bits (every step 1..8, every start<=end) plus boundary-biased "
        "(n, step, start, end) for n in {1..64}; non-trivial = more than one range emitted. "
        "tiered/compile/codec streams: non-trivial = an exclusive or open end, a domain limit, a negative, "
        "a float special or an error outcome is involved. date layer: date strings = prefixes of "
        "YYYYMMDDhhmmssuuuuuu biased to month ends/leap days/field limits, with separators, odd lengths, "
        "out-of-range fields and stray letters; non-trivial = not a plain valid 20-digit timestamp. End-to-end: one case = one real search on a real "
        "index; non-trivial = the expected result set is neither empty nor everything (ranges) or contains a "
        "tie/negative/limit value (sort). Round 4: every interval generator has a region of bounds that are equal "
        "as Python numbers (same value; for floats the two zeros in either order), float documents hold both zeros "
        "and the denormals next to them half of the time, Decimal fields get whole numbers as ints/floats/strings "
        "(values and bounds) and bounds with more places than the field keeps (oracle = truncated bound), and the "
        "deterministic zero/NaN probes accept a deviation from the numeric reading only when the observed set is "
        "exactly the total-order set of the Lean spec. distinct = distinct canonical (stream, config, input).")
ASSUMPTIONS = [
    "a double is represented by its 64-bit pattern; struct packing of doubles/ints and IEEE comparison of "
    "non-NaN doubles agreeing with totalOrder (up to -0.0 < +0.0) are Python's and only checked by sampling",
    "the random end-to-end float stream uses the IEEE total order of the Lean spec as oracle (what the encoding "
    "implements, theorem range_query_float); where it differs from numeric membership (signed zeros, NaN) the "
    "numeric reading is checked by deterministic probes and reported as KNOWN-FINDING "
    "(theorems range_query_float_numeric_partial / _full_false)",
    "qparser/dateparse.py (the DateParserPlugin grammar) is not modelled; it is exercised end-to-end on "
    "unambiguous numeric/English date texts only (stream e2e-dateplugin). DATETIME._parse_datestring / "
    "adatetime floor/ceil / parse_range / parse_query are modelled (WM.NumericDate) on the cleaned string as a "
    "list of character codes: digits and characters int() rejects; what else int() accepts (sign, underscore, "
    "non-ASCII digits) is outside the model",
    "the proleptic Gregorian calendar is modelled for the datetime -> microseconds direction (toordinal, month "
    "lengths, leap years; theorem civil_order) and for the inverse direction (long_to_datetime through CPython's "
    "_ord2ymd; theorem datetime_roundtrip); both are compared with CPython's date.toordinal / date.fromordinal / "
    "calendar.monthrange by sampling — timedelta normalisation and datetime.__add__ themselves are Python's",
    "BOOLEAN: inputs are modelled by how the code classifies them (bool/object with a truth value, string in "
    "trues, string in falses, other string, empty string, '*'); str.lower() and set membership are Python's",
    "DATETIME.parse_query of a fully specified timestamp gives Term(field, datetime); that this term selects "
    "exactly the documents holding that instant is checked end-to-end, the theorem parse_query_datetime covers "
    "the ambiguous (partial date) case",
    "Decimal parsing/arithmetic is Python's; the model works on exact rationals",
    "the random end-to-end Decimal stream takes, for a range bound with more than decimal_places digits, the "
    "truncated bound as oracle (the exact behaviour, theorem range_query_decimal); the rational reading of such "
    "bounds is checked by the deterministic probe and reported as KNOWN-FINDING (decimal_bound_partial / _full_false)",
    "Python's ==, <, <= on doubles are the spec's pyEq / ieeeLt / ieeeLe (stream pycmp, sampled with a bias to "
    "numerically equal pairs); theorem range_query_float_equal_bounds is about pyEq",
    "composition with C01 (an Or of Term/TermRange sub-queries matches the documents owning a selected term) "
    "is modelled by `matchesDoc` and checked end-to-end, not proved about the matcher code",
]
TRUSTED = [
    "modelled, not verified: struct.Struct('>B/H/I/Q/d/q').pack/unpack, datetime/timedelta, decimal.Decimal",
]
EXPLANATION = ("Theorems (Lean 4, no bounds) state that the sortable encodings are order-preserving bijections, that "
               "split_ranges/tiered_ranges emit ranges accepting exactly the interval on indexed precision levels, and "
               "that the compiled Or of Term/TermRange sub-queries selects a document's indexed terms iff one of its "
               "values lies in the interval; the check ties the model to whoosh by differential runs (exhaustive for "
               "8-bit split_ranges) and runs real indexes/searches against the Lean interval and order specification.")
MANIFEST = {
    "level_text": "Lean theorems for every bit width, signedness, precision step and interval (no bounds) about an "
                  "executable model of util/numeric.py, NUMERIC/DATETIME term encoding and NumericRange compilation; "
                  "the model is tied to the code by an exhaustive 8-bit differential run of split_ranges, "
                  "boundary-biased runs for wider domains, and real index/search end-to-end runs against the Lean "
                  "interval/order specification.",
    "level_note": "Trusted: Lean kernel + propext/Quot.sound/Classical.choice; struct/datetime/decimal of CPython; "
                  "the hand-written model mirrors the code as far as the differential runs show. Two statements are "
                  "partial and declared: float ranges equal *numeric* membership only away from signed-zero clashes "
                  "and NaN (exact under the IEEE total order everywhere), Decimal range bounds are exact only with at "
                  "most decimal_places digits (or on the side truncation does not move); both full statements are "
                  "refuted in Lean and reported as KNOWN-FINDING by deterministic probes.",
    "technique": "machine-checked proof in Lean 4 over an executable model + differential correspondence check "
                 "against the implementation",
}

SIG_COVER = "split_ranges:shifted-ranges-cover!=[start,end]"
SIG_SHAPE = "split_ranges:range-off-indexed-level-or-outside-domain"
SIG_RANGE = "NumericRange.search:result!=interval-filter"
SIG_RANGE_EXC = "NumericRange.search:raises-on-in-domain-interval"
SIG_SORT = "search(sortedby=numeric-field):order!=value-order"
SIG_PARSE = "QueryParser-range-on-numeric-field:result!=interval-filter"
SIG_ROUNDTRIP = "NUMERIC.from_bytes(to_bytes(v))!=v"
SIG_REJECT_INDEX = "NUMERIC.index:out-of-domain-value-accepted"
SIG_REJECT_QUERY = "NumericRange:out-of-domain-bound-not-rejected"
SIG_BUILD = "NUMERIC:field-or-index-construction-raises"
SIG_FLOAT_SORTABLE = "NUMERIC(float,sortable=True).add_document:struct.error-from-NaN-column-default"
SIG_DT = "long_to_datetime(datetime_to_long(dt))!=dt"
SIG_DEC = "NUMERIC(decimal).unprepare_number(prepare_number(d))!=d"
SIG_FSORT = "float-sortable:order!=python-float-order"
SIG_DEC_INT = "NUMERIC(decimal_places).prepare_number:int-or-float-value-read-as-already-scaled-integer"
SIG_ZERO = "NumericRange(float):zero-bound-vs-zero-value-of-opposite-sign(-0.0<+0.0-in-sortable-order)"
SIG_NAN = "NumericRange(float):NaN-document-matched-by-open-ended-range"
SIG_DECTRUNC = "NumericRange(decimal):bound-with-more-than-decimal_places-digits-truncated-towards-zero"


def _b(x):
    return "1" if x else "0"


def _try(fn, *args):
    """Run real code; an exception becomes the text `err <Name>` (never a harness crash)."""
    try:
        return fn(*args)
    except Exception as ex:  # noqa
        return "err " + G.exc_name(ex)


def _o(x):
    return "none" if x is None else str(x)


def _range_text_differs(ctx, component, case, model_txt, impl_txt, impl_exact):
    """The emitted range list differs from the model's.  Which ranges are emitted, and in which order,
    is not observable (the consumer Ors them): when the implementation's list still accepts exactly
    the interval on indexed levels this is a harmless difference (counted, noted), otherwise a
    divergence."""
    if impl_exact and not impl_txt.startswith(("exc", "err")):
        ctx.stat("ranges:text-differs-from-model-but-exact")
        if not getattr(ctx, "_c13_noted", False):
            ctx._c13_noted = True
            if hasattr(ctx, "note"):
                ctx.note("range lists differ textually from the Lean model but are semantically exact "
                         "(first: %s %r)" % (component, case))
        return
    ctx.divergence(component, case, model_txt, impl_txt)


def _tiered_semantic(cfg, a, b, step, sx, ex_):
    """Does the real tiered_ranges accept exactly the interval, on indexed levels?  (fallback only)"""
    from whoosh.util import numeric as N
    try:
        n = cfg["bits"]
        numtype = float if cfg["kind"] == "float" else int
        rs = list(N.tiered_ranges(numtype, n, cfg["signed"], a, b, step, sx, ex_))
        top = (1 << n) - 1
        s = 0 if a is None else N.to_sortable(numtype, n, cfg["signed"], a) + (1 if sx else 0)
        e = top if b is None else N.to_sortable(numtype, n, cfg["signed"], b) - (1 if ex_ else 0)
        cov, shape = G.coverage_ok(n, step, s, e, rs)
        return cov and shape
    except Exception:  # noqa
        return False


def _compile_semantic(cfg, a, b, sx, ex_):
    """Does the real compiled query select, among the terms the real field indexes for probe values,
    exactly those of values inside the interval?  (fallback only, integer and float fields)"""
    from whoosh import fields, query
    try:
        fld = G.field_of(cfg)
        q = query.NumericRange("v", a, b, sx, ex_)._compile_query(G._FakeReader(fields.Schema(v=fld)))
        subs = G.ser_query(q)
        if any(t.startswith(("(rx", "(other")) for t in subs):
            return False
        sel = []
        for t in subs:
            parts = t.strip("()").split()
            sel.append((bytes.fromhex(parts[1]), bytes.fromhex(parts[-1])))
        import random
        rng = random.Random(12345)
        probes = [v for v in (a, b) if v is not None]
        if cfg["kind"] == "decimal":
            probes = [Decimal(int(v * (10 ** cfg["dc"]))).scaleb(-cfg["dc"]) for v in probes]
            probes = [v for v in probes if G.in_domain(cfg, v)]
        for v in list(probes):
            for _ in range(3):
                w = G.neighbour(rng, cfg, v)
                if G.in_domain(cfg, w):
                    probes.append(w)
        probes += G.gen_values(rng, cfg, 24)
        if cfg["kind"] == "int":
            lo, hi = G.int_domain(cfg)
            probes += [lo, hi]
        if cfg["kind"] == "decimal":
            # what the field keeps of a Decimal (bound or value): scaled and truncated towards zero
            key = lambda v: int(v * (10 ** cfg["dc"]))
            lo, hi = G.int_domain(cfg)
            probes = [v for v in probes if lo <= key(v) <= hi] + [Decimal(lo).scaleb(-cfg["dc"]), Decimal(hi).scaleb(-cfg["dc"])]
        else:
            key = lambda v: G.to_spec_key(cfg, v)
        for v in probes:
            if v != v:
                continue
            terms = [t[0] for t in fld.index(v)]
            hit = any(lo_ <= t <= hi_ for (lo_, hi_) in sel for t in terms)
            inside = ((a is None or (key(a) < key(v) if sx else key(a) <= key(v))) and
                      (b is None or (key(v) < key(b) if ex_ else key(v) <= key(b))))
            if hit != inside:
                return False
        return True
    except Exception:  # noqa
        return False


# ================================================================================================
# 1. split_ranges: exhaustive over 8 bits

def _split_exhaustive(ctx):
    items = [(step, s) for step in range(1, 9) for s in range(256)]
    res = ctx.pmap(G.w_split8, items, chunksize=32)
    lines, keys = [], []
    for (step, s), rows in zip(items, res):
        for (e, txt, cov, shape, nr) in rows:
            lines.append("c13 splitc 8 %d %d %d" % (step, s, e))
            keys.append((step, s, e, txt, cov, shape, nr))
    outs = ctx.driver.ask(lines)
    for (step, s, e, txt, cov, shape, nr), m in zip(keys, outs):
        ctx.case(("split8", step, s, e), nontrivial=nr > 1)
        ctx.stat("split8:ranges=%d" % min(nr, 6))
        if m != txt:
            _range_text_differs(ctx, "util.numeric.split_ranges", {"n": 8, "step": step, "start": s, "end": e}, m, txt,
                                cov and shape)
        if not cov:
            ctx.violation(SIG_COVER, {"stream": "split", "n": 8, "step": step, "start": s, "end": e},
                          "exactly [%d, %d]" % (s, e), txt, "8-bit exhaustive")
        elif not shape:
            ctx.violation(SIG_SHAPE, {"stream": "split", "n": 8, "step": step, "start": s, "end": e},
                          "shift %% step == 0, shift < n, 0 <= lo <= hi < 2^n", txt, "8-bit exhaustive")
    ctx.sample({"split_ranges": [8, 4, 17, 200], "ranges (lo hi shift)": ctx.driver.ask1("c13 split 8 4 17 200")})


def _split_wide(ctx):
    rng = ctx.rng("split-wide")
    items = G.gen_split_wide(rng, ctx.budget(80000, 800000))
    chunks = [items[i:i + 2000] for i in range(0, len(items), 2000)]
    res = [r for rows in ctx.pmap(G.w_split_wide, chunks) for r in rows]
    outs = ctx.driver.ask(["c13 splitc %d %d %d %d" % it for it in items])
    for (n, step, s, e), (txt, cov, shape, nr), m in zip(items, res, outs):
        ctx.case(("splitw", n, step, s, e), nontrivial=nr > 1)
        ctx.stat("splitw:n=%d" % n)
        if m != txt:
            _range_text_differs(ctx, "util.numeric.split_ranges", {"n": n, "step": step, "start": s, "end": e}, m, txt,
                                cov and shape)
        if not cov:
            ctx.violation(SIG_COVER, {"stream": "split", "n": n, "step": step, "start": s, "end": e},
                          "exactly [%d, %d]" % (s, e), txt, "boundary-biased")
        elif not shape:
            ctx.violation(SIG_SHAPE, {"stream": "split", "n": n, "step": step, "start": s, "end": e},
                          "shift %% step == 0, shift < n, 0 <= lo <= hi < 2^n", txt, "boundary-biased")


# ================================================================================================
# 2. tiered_ranges, to_sortable/from_sortable, NUMERIC codec functions, _compile_query

def _gen_bound(rng, cfg, lo, hi):
    r = rng.random()
    if r < 0.2:
        return None
    return G.gen_int_values(rng, lo, hi, 1)[0]


def _codec_int(ctx):
    """to_sortable/from_sortable/tiered_ranges/to_bytes/index/prepare_number on integer fields,
    incl. a malformed stream (out-of-domain values)."""
    from whoosh.util import numeric as N
    from whoosh import fields
    rng = ctx.rng("codec-int")
    lines, impl, keys = [], [], []

    def add(line, val, key, nontrivial):
        lines.append(line)
        impl.append(val)
        keys.append((key, nontrivial))

    count = ctx.budget(1500, 20000)
    for i in range(count):
        n = rng.choice(G.INT_BITS)
        signed = rng.random() < 0.5
        step = rng.choice([0, 1, 2, 3, 4, 4, 5, 6, 7, 8, rng.choice([9, 16, 31, 32, 33, 64, 100])])
        cfg = {"kind": "int", "bits": n, "signed": signed, "step": step, "sortable": False, "dc": 0}
        lo, hi = G.int_domain(cfg)
        fld = _try(G.field_of, cfg)
        if isinstance(fld, str):
            ctx.violation(SIG_BUILD, {"stream": "codec", "cfg": cfg}, "field constructed", fld)
            continue
        x = G.gen_int_values(rng, lo, hi, 1)[0]
        bad = rng.random() < 0.15
        if bad:
            x = rng.choice([lo - 1, hi + 1, lo - rng.randint(1, 1 << 20), hi + rng.randint(1, 1 << 70),
                            -(1 << 64), 1 << 64])
        lim = x in (lo, hi, lo + 1, hi - 1) or x < 0 or bad
        # to_sortable / from_sortable
        s = _try(N.to_sortable, int, n, signed, x)
        add("c13 tosort-int %d %s %d" % (n, _b(signed), x), str(s), ("tosort", n, signed, x), lim)
        if not isinstance(s, str):
            add("c13 fromsort-int %d %s %d" % (n, _b(signed), s), str(_try(N.from_sortable, int, n, signed, s)),
                ("fromsort", n, signed, s), lim)
        # prepare_number
        try:
            r = "ok %d" % fld.prepare_number(x)
        except Exception as ex:  # noqa
            r = "err " + G.exc_name(ex)
        ctx.stat("prepare:" + r.split()[0])
        add("c13 prepare-int %d %s %d" % (n, _b(signed), x), r, ("prepare", n, signed, x), lim)
        # to_bytes at some shift, from_bytes
        sh = rng.choice([0, 0, step, 2 * step, n - 1, rng.randint(0, n)])
        try:
            bs = fld.to_bytes(x, sh)
            r = "ok " + sexp(bs)
        except Exception as ex:  # noqa
            bs = None
            r = "err " + G.exc_name(ex)
        add("c13 tobytes-int %d %s %d %d" % (n // 8, _b(signed), x, sh), r, ("tobytes", n, signed, x, sh), lim or sh > 0)
        if bs is not None and sh == 0:
            add("c13 frombytes-int %d %s %s" % (n // 8, _b(signed), sexp(bs)), str(_try(fld.from_bytes, bs)),
                ("frombytes", n, signed, x), lim)
        # index terms
        try:
            r = "ok (" + " ".join(sexp(t[0]) for t in fld.index(x)) + ")"
        except Exception as ex:  # noqa
            r = "err " + G.exc_name(ex)
        add("c13 index-int %d %s %d %d" % (n // 8, _b(signed), step, x), r, ("index", n, signed, step, x), step != 4 or lim)
        # a multi-valued document: shared tier terms appear once
        xs = [x] + G.gen_int_values(rng, lo, hi, rng.randint(1, 3))
        if rng.random() < 0.5:
            xs.append(max(lo, min(hi, xs[0] + rng.choice([1, -1, 3, 1 << step]))))
        try:
            r = "ok (" + " ".join(sexp(t[0]) for t in fld.index(xs)) + ")"
        except Exception as ex:  # noqa
            r = "err " + G.exc_name(ex)
        add("c13 index-int-list %d %s %d (%s)" % (n // 8, _b(signed), step, " ".join(map(str, xs))), r,
            ("index-list", n, signed, step, tuple(xs)), True)
        # min/max
        add("c13 minmax-int %d %s" % (n, _b(signed)), "%d %d" % (fld.min_value, fld.max_value), ("minmax", n, signed), True)
        # tiered_ranges (in-domain bounds; the function itself does no checking)
        a, b = _gen_bound(rng, cfg, lo, hi), _gen_bound(rng, cfg, lo, hi)
        if a is not None and b is not None and a > b and rng.random() < 0.8:
            a, b = b, a
        sx, ex_ = rng.random() < 0.4, rng.random() < 0.4
        try:
            r = G.fmt_ranges(list(N.tiered_ranges(int, n, signed, a, b, step, sx, ex_)))
        except Exception as ex:  # noqa
            r = "exc " + G.exc_name(ex)
        ctx.stat("tiered-int:" + ("none" if a is None else "val") + "-" + ("none" if b is None else "val")
                 + ("-sx" if sx else "") + ("-ex" if ex_ else ""))
        add("c13 tieredc-int %d %s %s %s %d %s %s" % (n, _b(signed), _o(a), _o(b), step, _b(sx), _b(ex_)), r,
            ("tiered", n, signed, a, b, step, sx, ex_), a is None or b is None or sx or ex_ or a in (lo, hi) or b in (lo, hi))
    outs = ctx.driver.ask(lines)
    for line, m, v, (key, nt) in zip(lines, outs, impl, keys):
        ctx.case(key, nontrivial=nt)
        op = line.split()[1]
        if op.startswith("index-"):
            m, v = _canon_terms(m), _canon_terms(v)     # the order in which tier terms are yielded is not observable
        if m != v:
            if op == "tieredc-int":
                (_, n, signed, a, b, step, sx, ex_) = key
                cfg = {"kind": "int", "bits": n, "signed": signed}
                _range_text_differs(ctx, "util.numeric.tiered_ranges", line, m, v, _tiered_semantic(cfg, a, b, step, sx, ex_))
                continue
            ctx.divergence("NUMERIC/util.numeric:" + op, line, m, v)
    ctx.sample({"request": lines[7], "model": outs[7], "impl": impl[7]})


def _canon_terms(t):
    """`ok (t1 t2 ...)` with the terms as a sorted multiset."""
    if t.startswith("ok (") and t.endswith(")"):
        return "ok (" + " ".join(sorted(t[4:-1].split())) + ")"
    return t


def _tiered_exhaustive8(ctx):
    """tiered_ranges over the whole 8-bit domain: every (start,end) incl. None, all four flag
    combinations, signed and unsigned, steps 0..8 — quick samples the flag/step axes per pair."""
    rng = ctx.rng("tiered8")
    items = []
    ends = [None] + list(range(256))
    for a in ends:
        for b in ends:
            if ctx.tier == "quick" and rng.random() > 0.12:
                continue
            signed = rng.random() < 0.5
            off = 128 if signed else 0
            items.append((signed, None if a is None else a - off, None if b is None else b - off,
                          rng.randint(0, 8), rng.random() < 0.5, rng.random() < 0.5))
    chunks = [items[i:i + 1500] for i in range(0, len(items), 1500)]
    res = [r for rows in ctx.pmap(w_tiered8, chunks) for r in rows]
    outs = ctx.driver.ask(["c13 tieredc-int 8 %s %s %s %d %s %s" % (_b(sg), _o(a), _o(b), st, _b(sx), _b(ex_))
                           for (sg, a, b, st, sx, ex_) in items])
    for it, (txt, ok), m in zip(items, res, outs):
        (sg, a, b, st, sx, ex_) = it
        ctx.case(("tiered8",) + it, nontrivial=(a is None or b is None or sx or ex_))
        if m != txt:
            _range_text_differs(ctx, "util.numeric.tiered_ranges", list(it), m, txt, ok)
        if not ok:
            ctx.violation("tiered_ranges:ranges-cover!=interval", {"stream": "tiered8", "args": list(it)},
                          "the interval", txt, "8-bit tiered_ranges vs interval semantics")


def w_tiered8(items):
    from whoosh.util.numeric import tiered_ranges
    out = []
    for (sg, a, b, st, sx, ex_) in items:
        try:
            rs = list(tiered_ranges(int, 8, sg, a, b, st, sx, ex_))
            off = 128 if sg else 0
            s = 0 if a is None else a + off + (1 if sx else 0)
            e = 255 if b is None else b + off - (1 if ex_ else 0)
            ok = True
            for v in range(256):
                hit = any((lo >> sh) <= (v >> sh) <= (hi >> sh) for lo, hi, sh in rs)
                if hit != (s <= v <= e):
                    ok = False
            for lo, hi, sh in rs:
                if not (0 <= lo and hi < 256 and 0 <= sh < 8 and (st == 0 or sh % st == 0)):
                    ok = False
            out.append((G.fmt_ranges(rs), ok))
        except Exception as ex:  # noqa
            out.append(("exc " + G.exc_name(ex), False))
    return out


FLOAT_PATTERNS = [0, 1, 2, (1 << 52) - 1, 1 << 52, (1 << 52) + 1, 0x3ff0000000000000, 0x3ff0000000000001,
                  0x7fefffffffffffff, 0x7ff0000000000000, 0x7ff8000000000000,
                  0x7ff0000000000001, 0x7fffffffffffffff]


def _gen_pattern(rng, signed=True):
    r = rng.random()
    if r < 0.5:
        b = rng.choice(FLOAT_PATTERNS)
        if rng.random() < 0.3:
            b = max(0, min((1 << 63) - 1, b + rng.choice([-1, 1])))
    else:
        b = rng.getrandbits(63)
    if signed and rng.random() < 0.45:
        b |= 1 << 63
    return b


def _quiet(b):
    """Avoid signalling NaNs: the FPU may quieten them when Python moves the double around."""
    if (b & 0x7ff0000000000000) == 0x7ff0000000000000 and (b & 0x000fffffffffffff) != 0:
        b |= 0x0008000000000000
    return b


def _codec_float(ctx):
    from whoosh.util import numeric as N
    rng = ctx.rng("codec-float")
    lines, impl, keys = [], [], []

    def add(line, val, key, nontrivial=True):
        lines.append(line)
        impl.append(val)
        keys.append((key, nontrivial))

    flds = {}
    for signed in (True, False):
        try:
            flds[signed] = G.field_of({"kind": "float", "signed": signed, "step": 4, "sortable": False})
            mm = "ok %d %d" % (G.f2b(flds[signed].min_value), G.f2b(flds[signed].max_value))
        except Exception as ex:  # noqa
            flds[signed] = None
            mm = "err " + G.exc_name(ex)
        add("c13 minmax-float %s" % _b(signed), mm, ("minmax-float", signed))
    for i in range(ctx.budget(1500, 20000)):
        signed = rng.random() < 0.6
        b = _quiet(_gen_pattern(rng))
        x = G.b2f(b)
        special = (b & ((1 << 63) - 1)) in (0, 1) or (b >> 52) & 0x7ff in (0, 0x7ff) or b >> 63 == 1
        try:
            s = N.float_to_sortable_long(x, signed)
            r = "ok %d" % s
        except Exception as ex:  # noqa
            s = None
            r = "err " + G.exc_name(ex)
        ctx.stat("fsort:" + r.split()[0] + (":" + r.split()[1] if r.startswith("err") else ""))
        add("c13 fsort %s %d" % (_b(signed), b), r, ("fsort", signed, b), special)
        if s is not None:
            back = _try(N.sortable_long_to_float, s, signed)
            add("c13 funsort %s %d" % (_b(signed), s), back if isinstance(back, str) else "ok %d" % G.f2b(back),
                ("funsort", signed, s), special)
        # sortable -> float on arbitrary sortable values (incl. ones the unsigned decoder cannot take)
        s2 = rng.getrandbits(64) if rng.random() < 0.7 else rng.choice([0, 1, (1 << 63) - 1, 1 << 63, (1 << 64) - 1])
        try:
            r2 = "ok %d" % G.f2b(N.sortable_long_to_float(s2, signed))
        except Exception as ex:  # noqa
            r2 = "err " + G.exc_name(ex)
        add("c13 funsort %s %d" % (_b(signed), s2), r2, ("funsort2", signed, s2), True)
        # Python's `<` on doubles vs the model's fLt (used by prepare_number)
        b2 = _quiet(_gen_pattern(rng))
        add("c13 flt %d %d" % (b, b2), _b(x < G.b2f(b2)), ("flt", b, b2), special)
        # Python's <, <=, == vs the spec's ieeeLt / ieeeLe / pyEq (numeric reading, equal-bounds theorem);
        # a fifth of the pairs are numerically equal (same pattern or the two zeros)
        b3 = b2 if rng.random() > 0.2 else rng.choice([b, b, b ^ (1 << 63), 0, 1 << 63])
        y3 = G.b2f(b3)
        add("c13 pycmp %d %d" % (b, b3), "%s %s %s" % (_b(x < y3), _b(x <= y3), _b(x == y3)), ("pycmp", b, b3),
            special or x == y3)
        fld = flds[signed]
        if fld is not None:
            try:
                r = "ok %d" % G.f2b(fld.prepare_number(x))
            except Exception as ex:  # noqa
                r = "err " + G.exc_name(ex)
            add("c13 prepare-float %s %d" % (_b(signed), b), r, ("prepare-float", signed, b), special)
            sh = rng.choice([0, 4, 8, 60, 63, rng.randint(0, 64)])
            try:
                r = "ok " + sexp(fld.to_bytes(x, sh))
            except Exception as ex:  # noqa
                r = "err " + G.exc_name(ex)
            add("c13 tobytes-float %s %d %d" % (_b(signed), b, sh), r, ("tobytes-float", signed, b, sh), True)
            step = rng.choice([0, 3, 4, 8])
            try:
                f2 = G.field_of({"kind": "float", "signed": signed, "step": step, "sortable": False})
                r = "ok (" + " ".join(sexp(t[0]) for t in f2.index(x)) + ")"
            except Exception as ex:  # noqa
                r = "err " + G.exc_name(ex)
            add("c13 index-float %s %d %d" % (_b(signed), step, b), r, ("index-float", signed, step, b), True)
            # a multi-valued document: shared tier terms appear once (neighbouring patterns share most tiers)
            bl = [b] + [_quiet(_gen_pattern(rng)) if rng.random() < 0.5 else _quiet(max(0, min((1 << 64) - 1, b + rng.choice([1, -1, 16, 1 << 12]))))
                        for _ in range(rng.randint(1, 3))]
            if rng.random() < 0.3:
                bl.append(rng.choice(bl))
            try:
                r = "ok (" + " ".join(sexp(t[0]) for t in f2.index([G.b2f(v) for v in bl])) + ")"
            except Exception as ex:  # noqa
                r = "err " + G.exc_name(ex)
            add("c13 index-float-list %s %d (%s)" % (_b(signed), step, " ".join(map(str, bl))), r,
                ("index-float-list", signed, step, tuple(bl)), True)
        # tiered_ranges on floats
        a = None if rng.random() < 0.2 else _quiet(_gen_pattern(rng, signed))
        c = None if rng.random() < 0.2 else _quiet(_gen_pattern(rng, signed))
        sx, ex_ = rng.random() < 0.4, rng.random() < 0.4
        step = rng.choice([0, 1, 4, 7, 8])
        try:
            r = "ok " + G.fmt_ranges(list(N.tiered_ranges(float, 64, signed, None if a is None else G.b2f(a),
                                                           None if c is None else G.b2f(c), step, sx, ex_)))
        except Exception as ex:  # noqa
            r = "err " + G.exc_name(ex)
        add("c13 tieredc-float %s %s %s %d %s %s" % (_b(signed), _o(a), _o(c), step, _b(sx), _b(ex_)), r,
            ("tiered-float", signed, a, c, step, sx, ex_), True)
    outs = ctx.driver.ask(lines)

    def nan_class(t):
        # NaN payload bits may be altered (quietened) by the FPU on the way out: compare the class
        if t.startswith("ok ") and t[3:].isdigit():
            b = int(t[3:])
            if (b & 0x7ff0000000000000) == 0x7ff0000000000000 and (b & 0x000fffffffffffff) != 0:
                return "ok nan sign=%d" % (b >> 63)
        return t
    for line, m, v, (key, nt) in zip(lines, outs, impl, keys):
        ctx.case(key, nontrivial=nt)
        if line.startswith("c13 funsort"):
            m, v = nan_class(m), nan_class(v)
        if line.startswith("c13 index-"):
            m, v = _canon_terms(m), _canon_terms(v)
        if m != v:
            if line.startswith("c13 tieredc-float") and m.startswith("ok") and v.startswith("ok"):
                (_, signed, a, c, step, sx, ex_) = key
                cfg = {"kind": "float", "bits": 64, "signed": signed}
                _range_text_differs(ctx, "util.numeric.tiered_ranges(float)", line, m, v,
                                    _tiered_semantic(cfg, None if a is None else G.b2f(a), None if c is None else G.b2f(c),
                                                     step, sx, ex_))
                continue
            ctx.divergence("NUMERIC(float)/util.numeric:" + line.split()[1], line, m, v)
    # float order end-to-end on the pure functions: sortable order == Python order on non-NaN doubles
    vals = G.gen_float_values(rng, ctx.budget(3000, 40000))
    tl = ctx.driver.ask(["c13 totallt %d %d" % (G.f2b(vals[i]), G.f2b(vals[i + 1])) for i in range(0, len(vals) - 1, 2)])
    for i, t in zip(range(0, len(vals) - 1, 2), tl):
        x, y = vals[i], vals[i + 1]
        sx_, sy_ = _try(N.to_sortable, float, 64, True, x), _try(N.to_sortable, float, 64, True, y)
        if isinstance(sx_, str) or isinstance(sy_, str):
            ctx.violation(SIG_FSORT, {"stream": "forder", "x": G.f2b(x), "y": G.f2b(y)}, "sortable values", [sx_, sy_])
            continue
        ctx.case(("forder", G.f2b(x), G.f2b(y)), nontrivial=(x == 0 or y == 0 or x < 0 or y < 0))
        # spec (totalOrder) agrees with Python's < except for the sign of zero
        py = (x < y) or (x == 0 and y == 0 and G.f2b(x) > G.f2b(y))
        if (t == "1") != py:
            ctx.divergence("spec.totalLt vs python float <", [G.f2b(x), G.f2b(y)], t, _b(py))
        if (sx_ < sy_) != py:
            ctx.violation(SIG_FSORT, {"stream": "forder", "x": G.f2b(x), "y": G.f2b(y)}, _b(py), _b(sx_ < sy_),
                          "to_sortable(float) does not preserve order")


def _compile(ctx):
    """NumericRange._compile_query: the query tree (Term / TermRange / Or / NullQuery) vs the model."""
    rng = ctx.rng("compile")
    items, lines = [], []
    for i in range(ctx.budget(6000, 80000)):
        r0 = rng.random()
        if r0 < 0.12:
            # Decimal fields: bounds with up to dc (exact) or more (truncated towards zero) places, some outside
            n, dc = rng.choice(G.INT_BITS), rng.choice([1, 2, 3, 5, 9])
            cfg = {"kind": "decimal", "bits": n, "signed": rng.random() < 0.6, "sortable": False, "dc": dc,
                   "step": rng.choice([0, 1, 3, 4, 4, 8, 9, 64])}
            lo, hi = G.int_domain(cfg)

            def dbound():
                if rng.random() < 0.2:
                    return None
                m = G.gen_int_values(rng, lo, hi, 1)[0]
                if rng.random() < 0.08:
                    m = rng.choice([lo - 1, hi + 1, hi + (1 << 66), lo - (1 << 66)])
                d = Decimal(m).scaleb(-dc)
                extra = rng.choice([0, 0, 0, 1, 2])
                if extra:
                    d = d + Decimal(rng.randint(1, 10 ** extra - 1)).scaleb(-dc - extra) * rng.choice([-1, 1])
                return d
            a, b = dbound(), dbound()
            if a is not None and b is not None and a > b and rng.random() < 0.8:
                a, b = b, a
            if a is not None and rng.random() < 0.1:
                b = a
            sx, ex_ = rng.random() < 0.4, rng.random() < 0.4
            items.append((cfg, a, b, sx, ex_))
            ctx.stat("compile:decimal:" + ("exact-places" if all(v is None or v == v.quantize(Decimal(1).scaleb(-dc)) for v in (a, b))
                                           else "more-places-than-dc"))
            lines.append("c13 compile-dec %d %s %d %d %s %s %s %s" % (n // 8, _b(cfg["signed"]), cfg["step"], dc,
                                                                     "none" if a is None else _rat(a), "none" if b is None else _rat(b),
                                                                     _b(sx), _b(ex_)))
        elif r0 < 0.78:
            n = rng.choice(G.INT_BITS)
            cfg = {"kind": "int", "bits": n, "signed": rng.random() < 0.5, "sortable": False, "dc": 0,
                   "step": rng.choice([0, 1, 2, 3, 4, 4, 5, 6, 7, 8, rng.choice([9, 16, 31, 32, 33, 64, 100])])}
            lo, hi = G.int_domain(cfg)
            a, b = _gen_bound(rng, cfg, lo, hi), _gen_bound(rng, cfg, lo, hi)
            if a is not None and b is not None and a > b and rng.random() < 0.8:
                a, b = b, a
            if rng.random() < 0.08:
                a = rng.choice([lo - 1, hi + 1, hi + (1 << 66)])
            if rng.random() < 0.08:
                b = rng.choice([lo - 1, hi + 1, lo - (1 << 66)])
            sx, ex_ = rng.random() < 0.4, rng.random() < 0.4
            if a is not None and rng.random() < 0.1:
                b = a
                sx, ex_ = rng.random() < 0.25, rng.random() < 0.25
                ctx.stat("compile:int-equal-bounds")
            items.append((cfg, a, b, sx, ex_))
            lines.append("c13 compile-int %d %s %d %s %s %s %s" % (n // 8, _b(cfg["signed"]), cfg["step"], _o(a), _o(b),
                                                                  _b(sx), _b(ex_)))
        else:
            signed = rng.random() < 0.6
            cfg = {"kind": "float", "bits": 64, "signed": signed, "sortable": False, "dc": 0,
                   "step": rng.choice([0, 1, 4, 7, 8])}
            a = None if rng.random() < 0.2 else _quiet(_gen_pattern(rng))
            b = None if rng.random() < 0.2 else _quiet(_gen_pattern(rng))
            sx, ex_ = rng.random() < 0.4, rng.random() < 0.4
            if a is not None and rng.random() < 0.15:
                # bounds equal under Python's ==: the same double, or the two zeros in either order
                ta, tb = G.twin_bounds(rng, cfg, G.b2f(a))
                a, b = G.f2b(ta), G.f2b(tb)
                sx, ex_ = rng.random() < 0.25, rng.random() < 0.25
                ctx.stat("compile:float-equal-bounds:" + ("same-encoding" if a == b else "zeros-of-opposite-sign"))
            items.append((cfg, None if a is None else G.b2f(a), None if b is None else G.b2f(b), sx, ex_))
            lines.append("c13 compile-float %s %d %s %s %s %s" % (_b(signed), cfg["step"], _o(a), _o(b), _b(sx), _b(ex_)))
    chunks = [items[i:i + 500] for i in range(0, len(items), 500)]
    res = [r for rows in ctx.pmap(G.w_compile, chunks) for r in rows]
    outs = ctx.driver.ask(lines)
    canon = lambda t: re.sub(r"\(t ([0-9a-f]+)\)", r"(r \1 \1)", t)   # Term(x) selects what TermRange(x, x) selects
    for line, it, v, m in zip(lines, items, res, outs):
        v, m = canon(v), canon(m)
        ctx.case(("compile", line), nontrivial=(v.count("(") > 2 or v.startswith("err") or v == "ok ()"))
        ctx.stat("compile:" + ("err" if v.startswith("err") else "null" if v == "ok ()" else "subs=%d" % min(6, v.count("(") - 1)))
        if m != v:
            # which Term/TermRange sub-queries the Or is made of is not observable: fall back to what they select
            (cfg, a, b, sx, ex_) = it
            if m.startswith("ok") and v.startswith("ok") and _compile_semantic(cfg, a, b, sx, ex_):
                ctx.stat("compile:text-differs-from-model-but-selects-interval")
                continue
            ctx.divergence("query.ranges.NumericRange._compile_query", line, m, v)
    ctx.sample({"request": lines[3], "model": outs[3], "impl": res[3]})


# ================================================================================================
# 3. datetimes and decimals (pure functions)

def _datetime(ctx):
    from whoosh.util import times
    rng = ctx.rng("datetime")
    dts = [datetime.datetime.min, datetime.datetime.max, datetime.datetime(1970, 1, 1),
           datetime.datetime(2000, 2, 29, 23, 59, 59, 999999)] + G.gen_datetimes(rng, ctx.budget(3000, 50000))
    l1, l2 = [], []
    xs = []
    for dt in dts:
        td = dt - datetime.datetime.min
        x = _try(times.datetime_to_long, dt)
        xs.append(x)
        l1.append("c13 dt2long %d %d %d" % (td.days, td.seconds, td.microseconds))
        l2.append("c13 long2dt %s" % (x if not isinstance(x, str) else G.dt_long(dt)))
    o1 = ctx.driver.ask(l1)
    o2 = ctx.driver.ask(l2)
    for dt, x, m1, m2 in zip(dts, xs, o1, o2):
        td = dt - datetime.datetime.min
        ctx.case(("dt", dt.isoformat()), nontrivial=(td.microseconds != 0 or td.seconds == 0 or td.days in (0, 3652058)))
        if m1 != str(x):
            ctx.divergence("util.times.datetime_to_long", dt.isoformat(), m1, str(x))
        if isinstance(x, str):
            ctx.violation(SIG_DT, {"stream": "datetime", "iso": dt.isoformat()}, dt.isoformat(), x)
            continue
        back = _try(times.long_to_datetime, x)
        if isinstance(back, str):
            ctx.divergence("util.times.long_to_datetime", x, m2, back)
            ctx.violation(SIG_DT, {"stream": "datetime", "iso": dt.isoformat()}, dt.isoformat(), back)
            continue
        tb = back - datetime.datetime.min
        if m2 != "%d %d %d" % (tb.days, tb.seconds, tb.microseconds):
            ctx.divergence("util.times.long_to_datetime", x, m2, "%d %d %d" % (tb.days, tb.seconds, tb.microseconds))
        if back != dt:
            ctx.violation(SIG_DT, {"stream": "datetime", "iso": dt.isoformat()}, dt.isoformat(), back.isoformat())


def _decimal(ctx):
    rng = ctx.rng("decimal")
    lines, impl, keys = [], [], []
    for i in range(ctx.budget(1500, 20000)):
        n = rng.choice(G.INT_BITS)
        signed = rng.random() < 0.6
        dc = rng.choice([1, 2, 3, 5, 9])
        cfg = {"kind": "decimal", "bits": n, "signed": signed, "step": 4, "sortable": False, "dc": dc}
        fld = _try(G.field_of, cfg)
        if isinstance(fld, str):
            ctx.violation(SIG_BUILD, {"stream": "decimal-build", "cfg": cfg}, "field constructed", fld)
            continue
        lo, hi = G.int_domain(cfg)
        m = G.gen_int_values(rng, lo, hi, 1)[0]
        if rng.random() < 0.1:
            m = rng.choice([lo - 1, hi + 1])
        extra = rng.choice([0, 0, 0, 1, 2])   # more places than the field keeps: truncated towards zero
        d = Decimal(m).scaleb(-dc)
        if extra:
            d = d + Decimal(rng.randint(1, 10 ** extra - 1)).scaleb(-dc - extra) * rng.choice([-1, 1])
        # the same number written as a Decimal, a string, an int or a float: every form is scaled
        form = rng.choice(["decimal", "decimal", "str", "int", "float"])
        x = d
        if form == "str":
            x = str(d)
        elif form == "int":
            x = int(d)                      # the integral part: an int argument means that number
            d = Decimal(x)
        elif form == "float":
            x = float(d)
            if x != x or x in (float("inf"), float("-inf")):
                x, form = d, "decimal"
            else:
                d = Decimal(repr(x))        # a float is read through its repr
        ctx.stat("decimal:prepare:form=" + form)
        num, den = d.as_integer_ratio()
        q = "%d/%d" % (num, den)
        try:
            p = fld.prepare_number(x)
            r = "ok %d" % p
        except Exception as ex:  # noqa
            p = None
            r = "err " + G.exc_name(ex)
        lines.append("c13 prepare-dec %d %s %d %s" % (n, _b(signed), dc, q))
        impl.append(r)
        keys.append((("dec-prepare", n, signed, dc, q, form), abs(m) < 10 ** dc or m < 0 or extra > 0 or form != "decimal"))
        if form in ("int", "float") and p is not None:
            # the value comes back as the number that was given (to the field's precision)
            import decimal as _d
            want = d.quantize(Decimal(1).scaleb(-dc), rounding=_d.ROUND_DOWN)
            back = _try(lambda: fld.from_bytes(fld.to_bytes(x)))
            if back != want:
                ctx.violation(SIG_DEC_INT, {"stream": "decimal-form", "bits": n, "signed": signed, "dc": dc, "form": form,
                                            "value": repr(x)}, str(want), str(back),
                              "from_bytes(to_bytes(x)) on a field with decimal places, x an int/float")
        if p is not None:
            u = _try(fld.unprepare_number, p)
            lines.append("c13 int2dec %d %d" % (dc, p))
            if isinstance(u, str):
                impl.append(u)
            else:
                un, ud = u.as_integer_ratio()
                impl.append("%d/%d" % (un, ud) if ud != 1 else "%d" % un)
            keys.append((("dec-unprepare", dc, p), abs(p) < 10 ** dc or p < 0))
            if not extra and form in ("decimal", "str") and u != d:
                ctx.violation(SIG_DEC, {"stream": "decimal", "bits": n, "signed": signed, "dc": dc, "value": str(d)},
                              str(d), str(u))
    outs = ctx.driver.ask(lines)
    for line, m, v, (key, nt) in zip(lines, outs, impl, keys):
        ctx.case(key, nontrivial=nt)
        if m != v:
            ctx.divergence("NUMERIC(decimal):" + line.split()[1], line, m, v)


# ================================================================================================
# 3b. round 3: the date layer (calendar, _parse_datestring, adatetime floor/ceil, parse_range/parse_query)
#     and column values of sortable fields

def _codes(text):
    """The cleaned date string as character codes: digits 0..9, anything else 10+."""
    t = text.replace(" ", "").replace("-", "").replace(".", "")
    return "(" + " ".join(str(int(c)) if c in "0123456789" else str(10 + (ord(c) % 50)) for c in t) + ")"


def _gen_datestring(rng):
    """(text, kind): mostly valid prefixes of YYYYMMDDhhmmssuuuuuu, biased to month ends / leap days /
    field limits, with separators, odd lengths, out-of-range fields and stray letters."""
    y = rng.choice([1, 4, 100, 400, 1900, 1999, 2000, 2004, 2023, 2024, 2100, 9999, 0, rng.randint(1, 9999)])
    m = rng.choice([1, 2, 2, 2, 4, 6, 9, 11, 12, rng.randint(1, 12)])
    import calendar
    dim = calendar.monthrange(y if y else 2000, m)[1]
    d = rng.choice([1, dim, dim, max(1, dim - 1), rng.randint(1, dim)])
    h, mi, sec = rng.choice([0, 23, rng.randint(0, 23)]), rng.choice([0, 59, rng.randint(0, 59)]), rng.choice([0, 59, rng.randint(0, 59)])
    us = rng.choice([0, 999999, 1, rng.randint(0, 999999)])
    kind = "valid"
    r = rng.random()
    if r < 0.25:
        kind = "bad-field"
        which = rng.choice(["m0", "m13", "d0", "dim+1", "d32", "h24", "mi60", "s60", "feb29", "feb30"])
        if which == "m0": m = 0
        elif which == "m13": m = rng.choice([13, 23, 99])
        elif which == "d0": d = 0
        elif which == "dim+1": d = dim + 1
        elif which == "d32": d = rng.choice([32, 99])
        elif which == "h24": h = rng.choice([24, 99])
        elif which == "mi60": mi = rng.choice([60, 99])
        elif which == "s60": sec = rng.choice([60, 61, 99])
        elif which == "feb29": m, d = 2, 29
        elif which == "feb30": m, d = 2, 30
    full = "%04d%02d%02d%02d%02d%02d%06d" % (y, m, d, h, mi, sec, us)
    n = rng.choice([4, 6, 8, 10, 12, 14, 20, 4, 6, 8, 14, 20])
    r = rng.random()
    if r < 0.15:
        n = rng.choice([0, 1, 2, 3, 5, 7, 9, 11, 13, 15, 16, 17, 18, 19])
        kind += "+odd-length"
    text = full[:n]
    if r > 0.93:
        text = full + "".join(rng.choice("0123456789") for _ in range(rng.randint(1, 3)))
        kind += "+too-long"
    if rng.random() < 0.06 and text:
        i = rng.randrange(len(text))
        text = text[:i] + rng.choice("abxyzTZ:/") + text[i + 1:]
        kind += "+letter"
    if rng.random() < 0.2 and len(text) >= 8:
        # separators _parse_datestring strips
        text = text[:4] + rng.choice("-. ") + text[4:6] + rng.choice("-. ") + text[6:]
        kind += "+sep"
    return text, kind


def _ser_adt(at):
    import datetime as _dt
    if isinstance(at, _dt.datetime):
        t = (at.year, at.month, at.day, at.hour, at.minute, at.second, at.microsecond)
    else:
        t = at.tuple()
    return "ok (" + " ".join("none" if v is None else str(v) for v in t) + ")"


def _ser_dtquery(q, flags=(False, False)):
    from whoosh import query
    from whoosh.query import qcore
    if q is qcore.NullQuery or isinstance(q, type(qcore.NullQuery)):
        return "ok error"
    if isinstance(q, query.Every):
        return "ok every"
    if isinstance(q, query.NumericRange):
        got = (bool(q.startexcl), bool(q.endexcl))
        return "ok range %s %s%s" % (_o(q.start), _o(q.end), "" if got == tuple(flags) else " flags=%s%s" % (_b(got[0]), _b(got[1])))
    if isinstance(q, query.Term):
        t = q.text
        return "ok term %s" % (G.dt_long(t) if isinstance(t, datetime.datetime) else repr(t))
    return "ok other " + type(q).__name__


def _dateparse(ctx):
    import calendar
    from whoosh import fields
    from whoosh.util import times
    rng = ctx.rng("dateparse")
    fld = fields.DATETIME()
    lines, impl, keys = [], [], []

    def add(line, val, key, nontrivial=True):
        lines.append(line)
        impl.append(val)
        keys.append((key, nontrivial))

    # calendar: month lengths, ordinals, datetime_to_long from civil fields (incl. what datetime() rejects)
    for i in range(ctx.budget(1500, 20000)):
        y = rng.choice([1, 4, 100, 400, 1600, 1900, 2000, 2024, 2100, 9999, rng.randint(1, 9999)])
        m = rng.randint(1, 12)
        dim = calendar.monthrange(y, m)[1]
        add("c13 dim %d %d" % (y, m), str(dim), ("dim", y, m), m == 2)
        d = rng.choice([1, dim, rng.randint(1, dim)])
        add("c13 ordinal %d %d %d" % (y, m, d), str(datetime.date(y, m, d).toordinal()), ("ordinal", y, m, d),
            d in (1, dim))
        n = rng.choice([datetime.date(y, m, d).toordinal(), datetime.date(y, 12, 31).toordinal(), datetime.date(y, 1, 1).toordinal(),
                        rng.randint(1, 3652059), 1, 3652059, 146097, 146098, 36524, 36525, 1461, 1462, 365, 366])
        dd = datetime.date.fromordinal(n)
        add("c13 ord2ymd %d" % n, "%d %d %d" % (dd.year, dd.month, dd.day), ("ord2ymd", n), dd.month == 12 and dd.day == 31)
        x = rng.choice([G.dt_long(G.gen_datetimes(rng, 1)[0]), n * 86400000000 - rng.choice([1, 0, 86400000000]), -1, 315537897600000000,
                        rng.randint(-10 ** 12, 315537897599999999 + 10 ** 12)])
        try:
            dtv = times.long_to_datetime(x)
            r = "ok %d %d %d %d %d %d %d" % (dtv.year, dtv.month, dtv.day, dtv.hour, dtv.minute, dtv.second, dtv.microsecond)
        except Exception as ex:  # noqa
            r = "err " + G.exc_name(ex)
        ctx.stat("long2civil:" + r.split()[0])
        add("c13 long2civil %d" % x, r, ("long2civil", x))
        h, mi, sec, us = rng.randint(0, 23), rng.randint(0, 59), rng.randint(0, 59), rng.choice([0, 999999, rng.randint(0, 999999)])
        if rng.random() < 0.2:
            y, m, d, h, mi, sec, us = rng.choice([(0, m, d, h, mi, sec, us), (y, 13, d, h, mi, sec, us), (y, m, dim + 1, h, mi, sec, us),
                                                  (y, m, d, 24, mi, sec, us), (y, m, d, h, 60, sec, us), (y, m, d, h, mi, 60, us),
                                                  (y, m, d, h, mi, sec, 1000000), (10000, m, d, h, mi, sec, us), (y, 0, d, h, mi, sec, us),
                                                  (y, m, 0, h, mi, sec, us)])
        try:
            r = "ok %d" % times.datetime_to_long(datetime.datetime(y, m, d, h, mi, sec, us))
        except Exception as ex:  # noqa
            r = "err " + G.exc_name(ex)
        ctx.stat("civil2long:" + r.split()[0])
        add("c13 civil2long %d %d %d %d %d %d %d" % (y, m, d, h, mi, sec, us), r, ("civil2long", y, m, d, h, mi, sec, us))
    # _parse_datestring, floor/ceil, prepare_datetime(text), parse_query
    texts = []
    for i in range(ctx.budget(2500, 30000)):
        text, kind = _gen_datestring(rng)
        texts.append(text)
        cs = _codes(text)
        try:
            at = fld._parse_datestring(text)
            r = _ser_adt(at)
        except Exception as ex:  # noqa
            at = None
            r = "err " + G.exc_name(ex)
        ctx.stat("parse_datestring:%s:%s" % (kind, r.split()[0]))
        add("c13 dt-parse " + cs, r, ("dt-parse", text), kind != "valid" or len(text) < 20)
        try:
            if at is None:
                raise ValueError("unparsed")
            b = "ok %d %d" % (G.dt_long(times.floor(at)), G.dt_long(times.ceil(at)))
        except Exception as ex:  # noqa
            b = "err " + G.exc_name(ex)
        add("c13 dt-bounds " + cs, b, ("dt-bounds", text))
        try:
            pr = "ok %d" % fld.prepare_datetime(text)
        except Exception as ex:  # noqa
            pr = "err " + G.exc_name(ex)
        add("c13 dt-prepare " + cs, pr, ("dt-prepare", text))
        try:
            pq = _ser_dtquery(fld.parse_query("v", text))
        except Exception as ex:  # noqa
            pq = "err " + G.exc_name(ex)
        ctx.stat("parse_query:" + " ".join(pq.split()[:2]))
        add("c13 dt-parse-query " + cs, pq, ("dt-parse-query", text))
    # parse_range
    for i in range(ctx.budget(2500, 30000)):
        a = None if rng.random() < 0.2 else (rng.choice(texts) if rng.random() < 0.5 else _gen_datestring(rng)[0])
        b = None if rng.random() < 0.2 else (rng.choice(texts) if rng.random() < 0.5 else _gen_datestring(rng)[0])
        sx, ex_ = rng.random() < 0.5, rng.random() < 0.5
        try:
            # the exclusive flags travel unchanged into the NumericRange
            r = _ser_dtquery(fld.parse_range("v", a, b, sx, ex_), (sx, ex_))
        except Exception as ex:  # noqa
            r = "err " + G.exc_name(ex)
        ctx.stat("parse_range:" + " ".join(r.split()[:2]) + (":sx" if sx else "") + (":ex" if ex_ else ""))
        add("c13 dt-parse-range %s %s %s %s" % ("none" if a is None else _codes(a), "none" if b is None else _codes(b), _b(sx), _b(ex_)),
            r, ("dt-parse-range", a, b, sx, ex_))
    outs = ctx.driver.ask(lines)
    for line, m, v, (key, nt) in zip(lines, outs, impl, keys):
        ctx.case(key, nontrivial=nt)
        if m != v:
            ctx.divergence("DATETIME/util.times:" + line.split()[1], line, m, v)
    ctx.sample({"request": lines[-1], "model": outs[-1], "impl": impl[-1]})


def _columns(ctx):
    """to_column_value / from_column_value of NUMERIC (int, float, Decimal) and DATETIME vs the model."""
    rng = ctx.rng("columns")
    lines, impl, keys = [], [], []

    def add(line, val, key, nontrivial=True):
        lines.append(line)
        impl.append(val)
        keys.append((key, nontrivial))

    for i in range(ctx.budget(1500, 15000)):
        r = rng.random()
        if r < 0.45:
            n, signed = rng.choice(G.INT_BITS), rng.random() < 0.5
            cfg = {"kind": "int", "bits": n, "signed": signed, "step": rng.choice([0, 4, 8]), "sortable": True, "dc": 0}
            fld = G.field_of(cfg)
            lo, hi = G.int_domain(cfg)
            x = G.gen_int_values(rng, lo, hi, 1)[0]
            if rng.random() < 0.12:
                x = rng.choice([lo - 1, hi + 1, hi + (1 << 64)])
            v = x if rng.random() < 0.8 else [x, lo]       # a list/tuple: the first value goes to the column
            try:
                c = fld.to_column_value(v)
                t = "ok %d" % c
            except Exception as ex:  # noqa
                c = None
                t = "err " + G.exc_name(ex)
            add("c13 tocol-int %d %s %d" % (n, _b(signed), x), t, ("tocol-int", n, signed, x), x in (lo, hi) or x < 0 or c is None)
            s = c if c is not None else rng.randint(0, (1 << n) - 1)
            add("c13 fromcol-int %d %s %d" % (n, _b(signed), s), str(_try(fld.from_column_value, s)), ("fromcol-int", n, signed, s))
        elif r < 0.7:
            signed = rng.random() < 0.6
            fld = G.field_of({"kind": "float", "signed": signed, "step": 4, "sortable": True})
            b = _quiet(_gen_pattern(rng))
            try:
                c = fld.to_column_value(G.b2f(b))
                t = "ok %d" % c
            except Exception as ex:  # noqa
                c = None
                t = "err " + G.exc_name(ex)
            add("c13 tocol-float %s %d" % (_b(signed), b), t, ("tocol-float", signed, b))
            if c is not None and not (b & 0x7ff0000000000000 == 0x7ff0000000000000 and b & 0xfffffffffffff):
                back = _try(fld.from_column_value, c)
                add("c13 fromcol-float %s %d" % (_b(signed), c), back if isinstance(back, str) else "ok %d" % G.f2b(back),
                    ("fromcol-float", signed, c))
        elif r < 0.85:
            n, signed, dc = rng.choice(G.INT_BITS), rng.random() < 0.6, rng.choice([1, 2, 5])
            cfg = {"kind": "decimal", "bits": n, "signed": signed, "step": 4, "sortable": True, "dc": dc}
            fld = G.field_of(cfg)
            lo, hi = G.int_domain(cfg)
            m = G.gen_int_values(rng, lo, hi, 1)[0]
            d = Decimal(m).scaleb(-dc)
            if rng.random() < 0.3:
                d = d + Decimal(rng.randint(1, 9)).scaleb(-dc - 1) * rng.choice([-1, 1])
            num, den = d.as_integer_ratio()
            try:
                c = fld.to_column_value(d)
                t = "ok %d" % c
            except Exception as ex:  # noqa
                c = None
                t = "err " + G.exc_name(ex)
            add("c13 tocol-dec %d %s %d %d/%d" % (n, _b(signed), dc, num, den), t, ("tocol-dec", n, signed, dc, str(d)))
            if c is not None:
                u = _try(fld.from_column_value, c)
                add("c13 fromcol-dec %d %s %d %d" % (n, _b(signed), dc, c), u if isinstance(u, str) else _rat(u),
                    ("fromcol-dec", n, signed, dc, c))
        else:
            from whoosh import fields
            fld = fields.DATETIME(sortable=True)
            dt = G.gen_datetimes(rng, 1)[0]
            c = _try(fld.to_column_value, dt)
            add("c13 civil2long %d %d %d %d %d %d %d" % (dt.year, dt.month, dt.day, dt.hour, dt.minute, dt.second, dt.microsecond),
                c if isinstance(c, str) else "ok %d" % c, ("tocol-dt", dt.isoformat()))
            if not isinstance(c, str):
                back = _try(fld.from_column_value, c)
                if isinstance(back, str):
                    t = back
                else:
                    tb = back - datetime.datetime.min
                    t = "%d %d %d" % (tb.days, tb.seconds, tb.microseconds)
                    if back != dt:
                        ctx.violation(SIG_DT, {"stream": "datetime", "iso": dt.isoformat()}, dt.isoformat(), back.isoformat(),
                                      "DATETIME.from_column_value(to_column_value(dt)) != dt")
                add("c13 fromcol-dt %d" % c, t, ("fromcol-dt", c))
    outs = ctx.driver.ask(lines)
    for line, m, v, (key, nt) in zip(lines, outs, impl, keys):
        ctx.case(key, nontrivial=nt)
        ctx.stat("column:" + line.split()[1])
        if m != v:
            ctx.divergence("NUMERIC/DATETIME column value:" + line.split()[1], line, m, v)


# ================================================================================================
# 3c. round 3b: BOOLEAN (index time vs query time) and long_to_datetime

SIG_BOOL = "BOOLEAN:document-indexed-with-v-not-matched-exactly-by-queries-with-the-same-truth-value"
_BOOL_WORDS = {"strtrue": ["t", "true", "yes", "1", "True", "YES", "T", "tRuE"],
               "strfalse": ["f", "false", "no", "0", "False", "NO", "F", "fAlSe"],
               "strother": ["garbage", "tr", "2", "y", "n", "on", "off", "truee", "00", "none", "null", "x"],
               "strempty": [""], "star": ["*"]}


def _bool_value(rng, cls):
    if cls == "true":
        return rng.choice([True, 1, 2, 0.5, [0], (None,), {"a": 1}])
    if cls == "false":
        return rng.choice([False, 0, 0.0, [], (), {}])
    return rng.choice(_BOOL_WORDS[cls])


def w_boolean(case):
    """case = dict(docs=[value], words=[str]) -> dict(lexicon, results=[positions or 'exc'])."""
    from whoosh import fields
    from whoosh.qparser import QueryParser
    try:
        schema = fields.Schema(pos=fields.STORED, b=fields.BOOLEAN(stored=True))
        ix = G.new_ram_index(schema)
        per = max(1, len(case["docs"]) // case.get("segments", 1))
        for base in range(0, len(case["docs"]), per):
            w = ix.writer()
            for i in range(base, min(len(case["docs"]), base + per)):
                w.add_document(pos=i, b=case["docs"][i])
            w.commit(merge=False)
    except Exception as ex:  # noqa
        return "exc " + G.exc_name(ex)
    out = []
    with ix.searcher() as s:
        qp = QueryParser("b", schema)
        for word in case["words"]:
            try:
                out.append(sorted(h["pos"] for h in s.search(qp.parse("b:" + word), limit=None)))
            except Exception as ex:  # noqa
                out.append("exc " + G.exc_name(ex))
    return out


def _boolean(ctx):
    from whoosh import fields, query
    rng = ctx.rng("boolean")
    fld = fields.BOOLEAN()
    classes = ["true", "false", "strtrue", "strfalse", "strother", "strempty", "star"]
    model = dict(zip(classes, ctx.driver.ask(["c13 bool " + c for c in classes])))
    # correspondence: _obj_to_bool, to_bytes, index, parse_query
    for i in range(ctx.budget(400, 4000)):
        cls = rng.choice(classes)
        x = _bool_value(rng, cls)
        try:
            q = fld.parse_query("b", x) if isinstance(x, str) else None
            if q is None:
                qs = model[cls].split(" ", 3)[3]          # parse_query takes strings only
            elif isinstance(q, query.Every):
                qs = "every"
            elif isinstance(q, query.Term) and isinstance(q.text, bool):
                qs = "term %s" % _b(q.text)
            else:
                qs = "other " + repr(q)
            impl = "%s %s (%s) %s" % (_b(fld._obj_to_bool(x)), fld.to_bytes(x).hex(),
                                      " ".join(t[0].hex() for t in fld.index(x)), qs)
        except Exception as ex:  # noqa
            impl = "err " + G.exc_name(ex)
        ctx.case(("bool", cls, repr(x)), nontrivial=cls not in ("true", "false"))
        ctx.stat("boolean:" + cls)
        if impl != model[cls]:
            ctx.divergence("fields.BOOLEAN(_obj_to_bool/to_bytes/index/parse_query)", {"class": cls, "value": repr(x)},
                           model[cls], impl)
    # end to end: a document indexed with v is matched exactly by the query words of the same truth value
    truth = {c: model[c].split()[0] == "1" for c in classes}
    cases = []
    for _ in range(ctx.budget(12, 120)):
        dcls = [rng.choice(classes) for _ in range(rng.randint(2, 14))]
        docs = [_bool_value(rng, c) for c in dcls]
        wcls = [rng.choice(["strtrue", "strfalse", "strother", "star"]) for _ in range(8)]
        words = [rng.choice(_BOOL_WORDS[c]) for c in wcls]
        cases.append({"docs": docs, "dcls": dcls, "words": words, "wcls": wcls, "segments": rng.choice([1, 2])})
    outs = ctx.pmap(w_boolean, cases)
    for case, out in zip(cases, outs):
        if isinstance(out, str):
            ctx.violation(SIG_BUILD, {"stream": "boolean", "docs": [repr(d) for d in case["docs"]]}, "index built", out)
            continue
        for word, wc, o in zip(case["words"], case["wcls"], out):
            if wc == "star":
                e = list(range(len(case["docs"])))
            else:
                e = [i for i, c in enumerate(case["dcls"]) if truth[c] == truth[wc]]
            ctx.case(("e2e-boolean", tuple(repr(d) for d in case["docs"]), word), nontrivial=0 < len(e) < len(case["docs"]))
            ctx.stat("e2e-boolean:" + wc)
            if o != e:
                ctx.violation(SIG_BOOL, {"stream": "boolean", "docs": [repr(d) for d in case["docs"]], "classes": case["dcls"],
                                         "word": word, "wordclass": wc}, e, o,
                              "BOOLEAN field: real index + parsed query vs the Lean reading of the values")


# ================================================================================================
# 4. end-to-end: real fields, real indexes, real searches; expected values from the Lean spec

def _spec_docs(cfg, docs):
    return "(" + " ".join("(" + " ".join(str(G.to_spec(cfg, v)) for v in vs) + ")" for vs in docs) + ")"


def _parser_text(cfg, a, b, sx, ex_):
    def one(v):
        if v is None:
            return ""
        if cfg["kind"] == "float":
            return repr(v)
        return str(v)
    return "%s%sTO%s%s" % ("{" if sx else "[", one(a) + " " if a is not None else "",
                            " " + one(b) if b is not None else "", "}" if ex_ else "]")


def _gen_e2e_case(rng, tier):
    cfg = G.gen_config(rng)
    k = rng.choice([3, 8, 20, 40]) if tier == "quick" else rng.choice([3, 8, 20, 40, 120])
    vals = G.gen_values(rng, cfg, k)
    if cfg["kind"] == "float" and rng.random() < 0.5:
        # both zeros (distinct terms, equal numbers) and the denormals next to them
        vals += [0.0, -0.0 if cfg["signed"] else 5e-324] + ([5e-324, -5e-324] if cfg["signed"] and rng.random() < 0.5 else [])
        rng.shuffle(vals)
    if cfg["kind"] == "decimal" and rng.random() < 0.4:
        # whole numbers given as Python ints (the same numbers; every form is scaled by the field)
        vals = [int(v) if (v == v.to_integral_value() and rng.random() < 0.7) else v for v in vals]
        lo_, hi_ = G.int_domain(cfg)
        vals += [w for w in (rng.randint(-3, 3), hi_ // 10 ** cfg["dc"], -(-lo_ // 10 ** cfg["dc"])) if G.in_domain(cfg, w)]
    multi = cfg["kind"] != "datetime" and rng.random() < 0.25 and len(vals) < 100
    docs = []
    i = 0
    while i < len(vals):
        m = rng.randint(2, 3) if (multi and rng.random() < 0.4) else 1
        docs.append(list(vals[i:i + m]))
        i += m
    # duplicates across documents
    if docs and rng.random() < 0.5:
        for _ in range(rng.randint(1, 3)):
            docs.append(list(rng.choice(docs)))
    nq = 25 if tier == "quick" else 40
    queries = [G.gen_interval(rng, cfg, vals) for _ in range(nq)]
    single = all(len(d) == 1 for d in docs)
    case = {"cfg": cfg, "docs": docs, "queries": queries, "sort": single, "segments": rng.choice([1, 1, 2, 3]),
            "path": rng.choice([0, 0, 1, 2])}
    if cfg["kind"] in ("int", "decimal") or (cfg["kind"] == "float"):
        ptexts = []
        for (a, b, sx, ex_) in queries[:8]:
            if a is None and b is None:
                continue    # "[ TO ]" is not range syntax
            ptexts.append((a, b, sx, ex_))
        case["parser_q"] = list(ptexts)
        case["parser"] = [_parser_text(cfg, *p) for p in ptexts]
        # a bare number parses to a Term on the full-precision bytes: the interval [v, v]
        for v in [rng.choice(vals) for _ in range(3)]:
            case["parser_q"].append((v, v, False, False))
            case["parser"].append(repr(v) if cfg["kind"] == "float" else str(v))
    if cfg["kind"] == "datetime":
        case["parser_q"], case["parser"] = _dt_parser_queries(rng, vals)
    return case


_DT_MODES = {"year": 4, "month": 6, "day": 8, "hour": 10, "minute": 12, "second": 14, "full": 20}


def _dt_text(v, mode):
    return ("%04d%02d%02d%02d%02d%02d%06d" % (v.year, v.month, v.day, v.hour, v.minute, v.second, v.microsecond))[:_DT_MODES[mode]]


def _dt_period(v, mode):
    """First and last instant of the period a date written down to `mode` stands for — computed with
    datetime arithmetic only (next period start minus one microsecond), independently of whoosh."""
    us = datetime.timedelta(microseconds=1)
    if mode == "full":
        return v, v
    if mode == "year":
        d0 = datetime.datetime(v.year, 1, 1)
        nxt = datetime.datetime(v.year + 1, 1, 1) if v.year < 9999 else None
    elif mode == "month":
        d0 = datetime.datetime(v.year, v.month, 1)
        if v.month < 12:
            nxt = datetime.datetime(v.year, v.month + 1, 1)
        else:
            nxt = datetime.datetime(v.year + 1, 1, 1) if v.year < 9999 else None
    else:
        keep = {"day": 3, "hour": 4, "minute": 5, "second": 6}[mode]
        parts = [v.year, v.month, v.day, v.hour, v.minute, v.second][:keep] + [0] * (6 - keep)
        d0 = datetime.datetime(*parts)
        step = {"day": datetime.timedelta(days=1), "hour": datetime.timedelta(hours=1),
                "minute": datetime.timedelta(minutes=1), "second": datetime.timedelta(seconds=1)}[mode]
        try:
            nxt = d0 + step
        except OverflowError:
            nxt = None
    return d0, (nxt - us if nxt is not None else datetime.datetime.max)


def _dt_parser_queries(rng, vals):
    """Range and single-date strings for DATETIME.parse_range / parse_query.  A partial date stands for
    a whole period (year, month, day, hour, minute, second): inclusive bounds take the period in,
    exclusive bounds leave it out; full timestamps are exact."""
    qs, texts = [], []
    modes = list(_DT_MODES)
    for _ in range(10):
        a = rng.choice(vals) if rng.random() < 0.85 else None
        b = rng.choice(vals) if rng.random() < 0.85 else None
        if a is None and b is None:
            continue
        if a is not None and b is not None and a > b:
            a, b = b, a
        sx, ex_ = rng.random() < 0.4, rng.random() < 0.4
        ma, mb = rng.choice(modes), rng.choice(modes)

        def bound(v, mode, lower, excl):
            if v is None:
                return None
            d0, d1 = _dt_period(v, mode)
            if lower:
                return d1 if excl else d0
            return d0 if excl else d1
        qs.append((bound(a, ma, True, sx), bound(b, mb, False, ex_), sx, ex_))
        texts.append("%s%sTO%s%s" % ("{" if sx else "[", _dt_text(a, ma) + " " if a is not None else "",
                                     " " + _dt_text(b, mb) if b is not None else "", "}" if ex_ else "]"))
    for v in [rng.choice(vals) for _ in range(3)]:
        # a bare (partial) date: everything in that period
        mode = rng.choice(modes)
        d0, d1 = _dt_period(v, mode)
        qs.append((d0, d1, False, False))
        texts.append(_dt_text(v, mode))
    return qs, texts


def _check_e2e(ctx, case, out, report=True):
    """Compare one executed index case with the Lean spec.  Returns the list of (signature, case, exp, obs)."""
    cfg = case["cfg"]
    found = []
    if out["build"] is not None:
        found.append((SIG_BUILD, {"stream": "e2e", "cfg": cfg, "docs": _ser_docs(cfg, case["docs"])}, "index built", out["build"]))
        return found
    kind = "float" if cfg["kind"] == "float" else "int"
    sd = _spec_docs(cfg, case["docs"])
    lines = []
    for (a, b, sx, ex_) in case["queries"]:
        lines.append("c13 spec-filter-%s %s %s %s %s %s" % (kind, sd, _o(G.to_spec(cfg, a)), _o(G.to_spec(cfg, b)), _b(sx), _b(ex_)))
    for (a, b, sx, ex_) in case.get("parser_q", []):
        lines.append("c13 spec-filter-%s %s %s %s %s %s" % (kind, sd, _o(G.to_spec(cfg, a)), _o(G.to_spec(cfg, b)), _b(sx), _b(ex_)))
    if case.get("sort"):
        lines.append("c13 spec-sort-%s (%s)" % (kind, " ".join(str(G.to_spec(cfg, d[0])) for d in case["docs"])))
    exp = ctx.driver.ask(lines)
    ndocs = len(case["docs"])
    nq = len(case["queries"])
    for qi, (q, e, o) in enumerate(zip(case["queries"], exp[:nq], out["ranges"])):
        e = [int(x) for x in e.strip("()").split()]
        ctx.case(("e2e-range", json.dumps(cfg, sort_keys=True), sd, _ser_q(cfg, q)), nontrivial=0 < len(e) < ndocs)
        ctx.stat("e2e-range:%s:%s%s" % (cfg["kind"], "open" if (q[0] is None or q[1] is None) else "closed",
                                        "-excl" if (q[2] or q[3]) else ""))
        if cfg["kind"] == "decimal" and any(isinstance(v, int) for v in q[:2]):
            ctx.stat("e2e-range:decimal:int-bound")
        if cfg["kind"] == "decimal" and any(isinstance(v, Decimal) and v != v.quantize(Decimal(1).scaleb(-cfg["dc"])) for v in q[:2]):
            ctx.stat("e2e-range:decimal:bound-with-more-places-than-dc(oracle=truncated-bound)")
        if o != e:
            sig = SIG_RANGE_EXC if isinstance(o, str) else SIG_RANGE
            found.append((sig, {"stream": "e2e-range", "cfg": cfg, "docs": _ser_docs(cfg, case["docs"]),
                                "query": _ser_q(cfg, q), "segments": case.get("segments", 1), "path": case.get("path", 0)}, e, o))
    for pi, (q, text, e, o) in enumerate(zip(case.get("parser_q", []), case.get("parser", []), exp[nq:], out["parsed"])):
        e = [int(x) for x in e.strip("()").split()]
        ctx.case(("e2e-parse", json.dumps(cfg, sort_keys=True), sd, text), nontrivial=0 < len(e) < ndocs)
        if o != e:
            found.append((SIG_PARSE, {"stream": "e2e-parse", "cfg": cfg, "docs": _ser_docs(cfg, case["docs"]),
                                      "query": _ser_q(cfg, q), "text": text}, e, o))
    if case.get("sort"):
        e = [int(x) for x in exp[-1].strip("()").split()]
        keys = [G.to_spec_key(cfg, d[0]) for d in case["docs"]]
        ctx.case(("e2e-sort", json.dumps(cfg, sort_keys=True), sd), nontrivial=len(set(keys)) < len(keys) or min(keys) < 0 or len(keys) > 3)
        ctx.stat("e2e-sort:%s:%s" % (cfg["kind"], "column" if cfg["sortable"] else "postings"))
        o = out["sort"]
        ok = isinstance(o, list) and sorted(o) == list(range(ndocs)) and [keys[i] for i in o] == [keys[i] for i in e]
        ro = out["rsort"]
        rok = isinstance(ro, list) and sorted(ro) == list(range(ndocs)) and [keys[i] for i in ro] == [keys[i] for i in reversed(e)]
        if not ok or not rok:
            found.append((SIG_SORT, {"stream": "e2e-sort", "cfg": cfg, "docs": _ser_docs(cfg, case["docs"]),
                                     "segments": case.get("segments", 1)},
                          {"asc": e}, {"asc": o, "desc": ro}))
    for vs, rt in zip(case["docs"], out["roundtrip"]):
        ctx.case(("e2e-roundtrip", json.dumps(cfg, sort_keys=True), str(G.to_spec(cfg, vs[0]))), nontrivial=True)
        if rt is not True:
            found.append((SIG_ROUNDTRIP, {"stream": "e2e-roundtrip", "cfg": cfg, "value": _ser_v(cfg, vs[0])}, True, rt))
    return found


def _ser_v(cfg, v):
    if v is None:
        return None
    k = cfg["kind"]
    if k == "float":
        return {"bits": G.f2b(v), "repr": repr(v)}
    if k == "decimal":
        return {"int": v} if isinstance(v, int) else str(v)
    if k == "datetime":
        return v.isoformat()
    return v


def _unser_v(cfg, x):
    if x is None:
        return None
    k = cfg["kind"]
    if k == "float":
        return G.b2f(x["bits"])
    if k == "decimal":
        return x["int"] if isinstance(x, dict) else Decimal(x)
    if k == "datetime":
        return datetime.datetime.fromisoformat(x)
    return x


def _ser_docs(cfg, docs):
    return [[_ser_v(cfg, v) for v in vs] for vs in docs]


def _ser_q(cfg, q):
    return [_ser_v(cfg, q[0]), _ser_v(cfg, q[1]), bool(q[2]), bool(q[3])]


def _shrink_range(ctx, rec):
    """Keep only the documents on which expected and observed differ (plus none else) if that still fails."""
    sig, case, e, o = rec
    if case.get("stream") != "e2e-range" or not isinstance(o, list):
        return rec
    if sum(1 for v in ctx.violations if v["signature"] == sig) >= 3:
        return rec      # the framework keeps three cases per signature: do not spend time shrinking more
    diff = sorted(set(e) ^ set(o))
    if not diff or len(case["docs"]) <= len(diff):
        return rec
    small = dict(case, docs=[case["docs"][i] for i in diff], segments=1)
    got = _replay_case(ctx, small)
    if got:
        return got[0]
    return rec


def _replay_case(ctx, case):
    cfg = case["cfg"]
    st = case.get("stream")
    if st in ("e2e-range", "e2e-parse", "e2e-sort", "e2e"):
        docs = [[_unser_v(cfg, v) for v in vs] for vs in case["docs"]]
        c = {"cfg": cfg, "docs": docs, "queries": [], "sort": st == "e2e-sort", "segments": case.get("segments", 1),
             "path": case.get("path", 0)}
        if "query" in case:
            q = case["query"]
            qq = (_unser_v(cfg, q[0]), _unser_v(cfg, q[1]), q[2], q[3])
            if st == "e2e-parse":
                c["parser_q"] = [qq]
                c["parser"] = [case["text"]]
            else:
                c["queries"] = [qq]
        out = G.run_index_case(c)
        out["roundtrip"] = []
        return _check_e2e(ctx, c, out)
    return []


def _e2e(ctx):
    rng = ctx.rng("e2e")
    cases = [_gen_e2e_case(rng, ctx.tier) for _ in range(ctx.budget(400, 2500))]
    outs = ctx.pmap(G.run_index_case, cases, chunksize=4)
    for case, out in zip(cases, outs):
        ctx.stat("e2e-index:%s:bits=%s:step=%s" % (case["cfg"]["kind"], case["cfg"]["bits"], case["cfg"]["step"]))
        for rec in _check_e2e(ctx, case, out):
            rec = _shrink_range(ctx, rec)
            ctx.violation(rec[0], rec[1], rec[2], rec[3], "real index + real search vs Lean interval/order spec")
    c0 = cases[0]
    ctx.sample({"e2e": {"cfg": c0["cfg"], "ndocs": len(c0["docs"]), "query": _ser_q(c0["cfg"], c0["queries"][0]),
                        "observed": outs[0]["ranges"][0] if outs[0]["ranges"] else None}})


def _e2e_8bit_dense(ctx):
    """8-bit fields with every value indexed; many intervals per step (the exhaustive pure-function run
    covers all pairs; this drives the same ground through the real index and searcher)."""
    rng = ctx.rng("e2e8")
    cases = []
    for signed in (False, True):
        for step in range(0, 9):
            cfg = {"kind": "int", "bits": 8, "signed": signed, "step": step, "sortable": False, "dc": 0}
            lo, hi = G.int_domain(cfg)
            vals = list(range(lo, hi + 1))
            for part in range(ctx.budget(1, 5)):
                qs = []
                for _ in range(ctx.budget(60, 250)):
                    a = rng.choice([None, lo, lo, lo + 1, hi, rng.randint(lo, hi), rng.randint(lo, lo + 20)])
                    b = rng.choice([None, hi, hi, hi - 1, lo, rng.randint(lo, hi), rng.randint(hi - 20, hi)])
                    if a is not None and b is not None and a > b and rng.random() < 0.9:
                        a, b = b, a
                    qs.append((a, b, rng.random() < 0.3, rng.random() < 0.3))
                cases.append({"cfg": cfg, "docs": [[v] for v in vals], "queries": qs, "sort": part == 0, "segments": 1,
                              "path": 1})
    outs = ctx.pmap(G.run_index_case, cases)
    for case, out in zip(cases, outs):
        for rec in _check_e2e(ctx, case, out):
            rec = _shrink_range(ctx, rec)
            ctx.violation(rec[0], rec[1], rec[2], rec[3], "dense 8-bit index vs Lean interval spec")


def _reject(ctx):
    rng = ctx.rng("reject")
    cases = []
    for i in range(ctx.budget(40, 400)):
        cfg = G.gen_config(rng)
        if cfg["kind"] == "datetime":
            continue
        if cfg["kind"] == "float":
            if cfg["signed"]:
                continue
            bad = [-1.0, -0.0, -5e-324, float("-inf"), -1e300]
            good = [0.0, 1.5]
        else:
            lo, hi = G.int_domain(cfg)
            bads = [lo - 1, hi + 1, lo - rng.randint(2, 1000), hi + rng.randint(2, 1000), hi + (1 << 64), lo - (1 << 64),
                    (1 << cfg["bits"]) + 5]
            if cfg["kind"] == "decimal":
                bad = [Decimal(m).scaleb(-cfg["dc"]) for m in bads]
                good = [Decimal(lo).scaleb(-cfg["dc"]), Decimal(hi).scaleb(-cfg["dc"])]
            else:
                bad, good = bads, [lo, hi, 0]
        cases.append({"cfg": cfg, "good": good, "bad": bad})
    outs = ctx.pmap(w_reject, cases)
    for case, out in zip(cases, outs):
        cfg = case["cfg"]
        if isinstance(out, str):
            ctx.violation(SIG_BUILD, {"stream": "reject", "cfg": cfg}, "field/index built", out)
            continue
        if out["count"] != len(case["good"]):
            ctx.violation(SIG_REJECT_INDEX, {"stream": "reject", "cfg": cfg}, len(case["good"]), out["count"],
                          "document count changed by rejected documents")
        for bad, r in zip(case["bad"], out["results"]):
            ctx.case(("reject", json.dumps(cfg, sort_keys=True), str(bad)), nontrivial=True)
            ctx.stat("reject:index:" + r["index"])
            ser = {"stream": "reject", "cfg": cfg, "value": _ser_v(cfg, bad)}
            if r["index"] != "exc ValueError" or r["is_valid"]:
                ctx.violation(SIG_REJECT_INDEX, ser, "ValueError, is_valid False", [r["index"], r["is_valid"]])
            for nm in ("start", "end"):
                if r[nm] != "exc ValueError":
                    ctx.violation(SIG_REJECT_QUERY, dict(ser, bound=nm), "ValueError", r[nm])
            if r["parser"] != []:
                ctx.violation(SIG_REJECT_QUERY, dict(ser, bound="parser"), [], r["parser"],
                              "a parsed range with an out-of-domain bound must not match anything")


def w_reject(case):
    try:
        return G.run_reject_case(case)
    except Exception as ex:  # noqa
        return "exc " + G.exc_name(ex)


def w_float_sortable(_):
    from whoosh import fields
    try:
        schema = fields.Schema(v=fields.NUMERIC(float, sortable=True))
        ix = G.new_ram_index(schema)
        with ix.writer() as w:
            w.add_document(v=1.5)
        return "ok"
    except Exception as ex:  # noqa
        return "exc " + G.exc_name(ex)


def _float_sortable_probe(ctx):
    r = w_float_sortable(None)
    ctx.case(("float-sortable-probe",), nontrivial=True)
    if r != "ok":
        ctx.violation(SIG_FLOAT_SORTABLE, {"stream": "float-sortable"}, "document indexed", r,
                      "NUMERIC(float, sortable=True): the column default NaN cannot be packed as 'Q'")
        return
    # the column-backed float field works on this tree: run it through the end-to-end stream as well
    rng = ctx.rng("e2e-float-sortable")
    cases = []
    for _ in range(5000):
        if len(cases) >= ctx.budget(12, 150):
            break
        case = _gen_e2e_case(rng, ctx.tier)
        if case["cfg"]["kind"] != "float" or not case["cfg"]["signed"]:
            continue
        case["cfg"] = dict(case["cfg"], sortable=True)
        cases.append(case)
    outs = ctx.pmap(G.run_index_case, cases, chunksize=4)
    for case, out in zip(cases, outs):
        ctx.stat("e2e-index:float-sortable-column")
        for rec in _check_e2e(ctx, case, out):
            rec = _shrink_range(ctx, rec)
            ctx.violation(rec[0], rec[1], rec[2], rec[3], "column-backed float field vs Lean interval/order spec")



# ================================================================================================
# 4b. round 3: qparser/dateparse.py end to end (DateParserPlugin on unambiguous texts)

SIG_DATEPLUGIN = "DateParserPlugin:result!=period-interval-filter"
SIG_DATEPLUGIN_EXCL = "DateParserPlugin.range_to_dt:exclusive-braces-treated-as-inclusive"
_MONTHS = "jan feb mar apr may jun jul aug sep oct nov dec".split()


def _plugin_text(v, mode, style):
    mon = _MONTHS[v.month - 1]
    if mode == "year":
        return "%04d" % v.year
    if mode == "month":
        return "'%s %04d'" % (mon, v.year)
    if mode == "day":
        return ["%04d%02d%02d" % (v.year, v.month, v.day), "'%s %d %04d'" % (mon, v.day, v.year),
                "'%d %s %04d'" % (v.day, mon, v.year)][style % 3]
    if mode == "second":
        return "'%02d:%02d:%02d %s %d %04d'" % (v.hour, v.minute, v.second, mon, v.day, v.year)
    raise ValueError(mode)


def w_dateplugin(case):
    """case = dict(docs=[datetime], texts=[str], basedate=datetime) -> list of sorted positions / 'exc Name'."""
    from whoosh import fields
    from whoosh.qparser import QueryParser
    from whoosh.qparser.dateparse import DateParserPlugin
    try:
        schema = fields.Schema(pos=fields.STORED, v=fields.DATETIME(sortable=case.get("sortable", False)))
        ix = G.new_ram_index(schema)
        with ix.writer() as w:
            for i, d in enumerate(case["docs"]):
                w.add_document(pos=i, v=d)
        qp = QueryParser("v", schema)
        qp.add_plugin(DateParserPlugin(basedate=case["basedate"]))
    except Exception as ex:  # noqa
        return "exc " + G.exc_name(ex)
    out = []
    with ix.searcher() as s:
        for text in case["texts"]:
            try:
                out.append(sorted(h["pos"] for h in s.search(qp.parse("v:" + text), limit=None)))
            except Exception as ex:  # noqa
                out.append("exc " + G.exc_name(ex))
    return out


def _e2e_dateplugin(ctx):
    rng = ctx.rng("e2e-dateplugin")
    cases = []
    for _ in range(ctx.budget(16, 150)):
        base = datetime.datetime(rng.randint(1990, 2030), rng.randint(1, 12), rng.randint(1, 28), 12, 0, 0)
        anchors = [datetime.datetime(rng.choice([1000, 1900, 2000, 2004, 2023, 9998, rng.randint(1000, 9998)]), rng.choice([1, 2, 2, 12, rng.randint(1, 12)]),
                                     1, 0, 0, 0) for _ in range(4)]
        docs = []
        for a in anchors:
            import calendar
            dim = calendar.monthrange(a.year, a.month)[1]
            for _k in range(6):
                docs.append(a.replace(day=rng.choice([1, dim, rng.randint(1, dim)]), hour=rng.choice([0, 23, rng.randint(0, 23)]),
                                      minute=rng.choice([0, 59, rng.randint(0, 59)]), second=rng.choice([0, 59, rng.randint(0, 59)]),
                                      microsecond=rng.choice([0, 999999, rng.randint(0, 999999)])))
            docs.append(a - datetime.timedelta(microseconds=1))
        texts, queries, kinds = [], [], []
        for _q in range(14):
            mode = rng.choice(["year", "month", "day", "day", "second"])
            a, b = rng.choice(docs), rng.choice(docs)
            if a > b:
                a, b = b, a
            style = rng.randint(0, 2)
            r = rng.random()
            if r < 0.35:
                d0, d1 = _dt_period(a, mode)
                texts.append(_plugin_text(a, mode, style)); queries.append((d0, d1, False, False)); kinds.append("single:" + mode)
            else:
                if mode == "second":
                    mode = "day"
                lo, hi = _dt_period(a, mode)[0], _dt_period(b, mode)[1]
                if r < 0.5:
                    texts.append("[%s to]" % _plugin_text(a, mode, style)); queries.append((lo, None, False, False)); kinds.append("from:" + mode)
                elif r < 0.62:
                    texts.append("[to %s]" % _plugin_text(b, mode, style)); queries.append((None, hi, False, False)); kinds.append("upto:" + mode)
                elif r < 0.85:
                    texts.append("[%s to %s]" % (_plugin_text(a, mode, style), _plugin_text(b, mode, style)))
                    queries.append((lo, hi, False, False)); kinds.append("range:" + mode)
                else:
                    # exclusive braces leave the bound periods out (as DATETIME.parse_range does)
                    sx, ex_ = rng.random() < 0.6, rng.random() < 0.6
                    if not (sx or ex_):
                        sx = True
                    texts.append("%s%s to %s%s" % ("{" if sx else "[", _plugin_text(a, mode, style), _plugin_text(b, mode, style),
                                                   "}" if ex_ else "]"))
                    queries.append((_dt_period(a, mode)[1] if sx else lo, _dt_period(b, mode)[0] if ex_ else hi, sx, ex_))
                    kinds.append("excl:" + mode)
        cases.append({"docs": docs, "texts": texts, "queries": queries, "kinds": kinds, "basedate": base,
                      "sortable": rng.random() < 0.3})
    # the recorded defect on its documented input, on every seed
    D = datetime.datetime
    cases.append({"docs": [D(2004, 6, 1), D(2005, 6, 1), D(2006, 6, 1)], "texts": ["{2004 to 2006}", "[2004 to 2006]"],
                  "queries": [(D(2004, 12, 31, 23, 59, 59, 999999), D(2006, 1, 1), True, True),
                              (D(2004, 1, 1), D(2006, 12, 31, 23, 59, 59, 999999), False, False)],
                  "kinds": ["excl:year", "range:year"], "basedate": D(2010, 6, 15, 12), "sortable": False})
    outs = ctx.pmap(w_dateplugin, cases)
    cfg = {"kind": "datetime", "bits": 64, "signed": True, "step": 8, "sortable": False, "dc": 0}
    for case, out in zip(cases, outs):
        if isinstance(out, str):
            ctx.violation(SIG_BUILD, {"stream": "e2e-dateplugin"}, "index built", out)
            continue
        docs = [[d] for d in case["docs"]]
        sd = _spec_docs(cfg, docs)
        lines = []
        for (a, b, sx, ex_) in case["queries"]:
            lines.append("c13 spec-filter-int %s %s %s %s %s" % (sd, _o(G.to_spec(cfg, a)), _o(G.to_spec(cfg, b)), _b(sx), _b(ex_)))
            lines.append("c13 spec-filter-int %s %s %s 0 0" % (sd, _o(G.to_spec(cfg, a)), _o(G.to_spec(cfg, b))))
        exp = ctx.driver.ask(lines)
        for i, (text, q, kind, o) in enumerate(zip(case["texts"], case["queries"], case["kinds"], out)):
            e = [int(x) for x in exp[2 * i].strip("()").split()]
            ctx.case(("e2e-dateplugin", sd, text), nontrivial=0 < len(e) < len(docs))
            ctx.stat("e2e-dateplugin:" + kind)
            if o == e:
                continue
            ser = {"stream": "e2e-dateplugin", "docs": [d.isoformat() for d in case["docs"]], "text": text,
                   "basedate": case["basedate"].isoformat(), "query": _ser_q(cfg, q)}
            sig = SIG_DATEPLUGIN
            if kind.startswith("excl:") and isinstance(o, list):
                # explained only if the observed result is exactly that of the same range with both
                # bound periods taken in (the braces read as brackets)
                a, b, sx, ex_ = q
                mode = kind.split(":")[1]
                incl = ctx.driver.ask1("c13 spec-filter-int %s %s %s 0 0" % (
                    sd, _o(G.to_spec(cfg, _dt_period(a, mode)[0] if sx else a)), _o(G.to_spec(cfg, _dt_period(b, mode)[1] if ex_ else b))))
                if o == [int(x) for x in incl.strip("()").split()]:
                    sig = SIG_DATEPLUGIN_EXCL
            ctx.violation(sig, ser, e, o, "QueryParser + DateParserPlugin on a real index vs the period interval in the Lean spec")


# ================================================================================================
# 5. numeric reading of float and Decimal ranges (deterministic probes; Lean oracle = numeric membership)

def _rat(x):
    n, d = x.as_integer_ratio()
    return "%d/%d" % (n, d) if d != 1 else "%d" % n


def _probe_cases():
    """(kind, cfg, docs, bounds) of the three probes."""
    nz, pz = -0.0, 0.0
    fcfg = lambda step: {"kind": "float", "bits": 64, "signed": True, "step": step, "sortable": False, "dc": 0}
    out = []
    for step in (4, 0, 8):
        out.append(("zero", fcfg(step), [[nz], [pz], [1.0], [-1.0], [5e-324], [-5e-324], [nz, 1.0]],
                    [None, pz, nz, 1.0, -1.0, 5e-324, -5e-324]))
        out.append(("nan", fcfg(step), [[G.b2f(0x7ff8000000000000)], [G.b2f(0xfff8000000000000)], [1.0],
                                        [float("inf")], [float("-inf")], [0.0]],
                    [None, 1.0, float("inf"), float("-inf")]))
    dcfg = {"kind": "decimal", "bits": 32, "signed": True, "step": 4, "sortable": False, "dc": 2}
    D = Decimal
    out.append(("dec", dcfg, [[D("0.00")], [D("0.01")], [D("-0.01")], [D("1.00")], [D("-1.00")], [D("0.99")]],
                [None, D("0.005"), D("-0.005"), D("0.01"), D("0.999"), D("-0.999"), D("1")]))
    return out


def _probe_expected(ctx, kind, cfg, docs, queries):
    if kind == "dec":
        sd = "(" + " ".join("(" + " ".join(_rat(v) for v in vs) + ")" for vs in docs) + ")"
        lines = ["c13 spec-filter-rat %s %s %s %s %s" % (sd, "none" if a is None else _rat(a), "none" if b is None else _rat(b),
                                                        _b(sx), _b(ex_)) for (a, b, sx, ex_) in queries]
    else:
        sd = "(" + " ".join("(" + " ".join(str(G.f2b(v)) for v in vs) + ")" for vs in docs) + ")"
        lines = ["c13 spec-filter-num %s %s %s %s %s" % (sd, "none" if a is None else G.f2b(a), "none" if b is None else G.f2b(b),
                                                        _b(sx), _b(ex_)) for (a, b, sx, ex_) in queries]
    return [[int(x) for x in t.strip("()").split()] for t in ctx.driver.ask(lines)]


def _probe_classify(kind, cfg, docs, q, exp, obs):
    """Signature of one mismatching query: a known deviation only if *every* differing document is
    explained by it; anything else comes out under the generic (unlisted) signature."""
    if not isinstance(obs, list):
        return SIG_RANGE_EXC
    a, b, sx, ex_ = q
    diff = sorted(set(exp) ^ set(obs))

    def zero(x):
        return x is not None and x == 0

    def explained(i):
        vs = docs[i]
        if kind == "zero":
            # a zero value facing a zero bound of the other sign
            return any(zero(v) and any(zero(c) and G.f2b(c) != G.f2b(v) for c in (a, b)) for v in vs)
        if kind == "nan":
            return any(v != v for v in vs) and i in obs and (a is None or b is None)
        if kind == "dec":
            # the only stored value whose membership can flip is the truncation of a bound that has
            # more digits than the field keeps
            import decimal as _d
            unit = Decimal(1).scaleb(-cfg["dc"])
            trunc = [c.quantize(unit, rounding=_d.ROUND_DOWN) for c in (a, b) if c is not None and c != c.quantize(unit)]
            return any(v in trunc for v in vs)
        return False
    if diff and all(explained(i) for i in diff):
        return {"zero": SIG_ZERO, "nan": SIG_NAN, "dec": SIG_DECTRUNC}[kind]
    return SIG_RANGE


def _probe_run(ctx, kind, cfg, docs, queries):
    case = {"cfg": cfg, "docs": docs, "queries": queries, "sort": False, "segments": 1, "path": 0}
    out = G.run_index_case(case)
    found = []
    if out["build"] is not None:
        return [(SIG_BUILD, {"stream": "probe-" + kind, "cfg": cfg}, "index built", out["build"])]
    exp = _probe_expected(ctx, kind, cfg, docs, queries)
    if kind in ("zero", "nan"):
        # what the encoding implements (theorem range_query_float): membership under the IEEE total order
        sd = _spec_docs(cfg, docs)
        total = [[int(x) for x in t.strip("()").split()] for t in ctx.driver.ask(
            ["c13 spec-filter-float %s %s %s %s %s" % (sd, _o(G.to_spec(cfg, a)), _o(G.to_spec(cfg, b)), _b(sx), _b(ex_))
             for (a, b, sx, ex_) in queries])]
    else:
        total = [None] * len(queries)
    for q, e, o, t in zip(queries, exp, out["ranges"], total):
        ctx.case(("probe", kind, cfg["step"], _ser_q(cfg, q)), nontrivial=True)
        if t is not None and o != t:
            # neither the numeric reading nor the recorded total-order behaviour: never a known finding
            ctx.stat("probe-%s:differs-from-total-order" % kind)
            found.append((SIG_RANGE_EXC if isinstance(o, str) else SIG_RANGE,
                          {"stream": "probe-" + kind, "cfg": cfg, "docs": _ser_docs(cfg, docs), "query": _ser_q(cfg, q),
                           "oracle": "total-order"}, t, o))
            continue
        if o != e:
            sig = _probe_classify(kind, cfg, docs, q, e, o)
            ctx.stat("probe-%s:deviation" % kind)
            found.append((sig, {"stream": "probe-" + kind, "cfg": cfg, "docs": _ser_docs(cfg, docs), "query": _ser_q(cfg, q)},
                          e, o))
        else:
            ctx.stat("probe-%s:agrees" % kind)
    return found


def _numeric_reading_probes(ctx):
    for kind, cfg, docs, bounds in _probe_cases():
        queries = [(a, b, sx, ex_) for a in bounds for b in bounds for sx in (False, True) for ex_ in (False, True)]
        for (sig, case, e, o) in _probe_run(ctx, kind, cfg, docs, queries):
            ctx.violation(sig, case, e, o, "real index + real search vs numeric membership (Python <, <=) in the Lean spec")

# ================================================================================================

def _corpus(ctx):
    cdir = os.path.join(os.path.dirname(os.path.dirname(os.path.dirname(os.path.abspath(__file__)))), "corpus", ID)
    if not os.path.isdir(cdir):
        return
    for name in sorted(os.listdir(cdir)):
        if not name.endswith(".json"):
            continue
        rec = json.load(open(os.path.join(cdir, name)))
        ctx.stat("corpus")
        for (sig, case, e, o) in _run_record(ctx, rec):
            ctx.violation(sig, case, e, o, "corpus replay " + name)


def _run_record(ctx, rec):
    case = rec.get("case", rec)
    st = case.get("stream")
    if st == "split":
        from whoosh.util.numeric import split_ranges
        n, step, s, e = case["n"], case["step"], case["start"], case["end"]
        ctx.case(("corpus-split", n, step, s, e), nontrivial=True)
        try:
            rs = list(split_ranges(n, step, s, e))
            txt = G.fmt_ranges(rs)
            cov, shape = G.coverage_ok(n, step, s, e, rs)
        except Exception as ex:  # noqa
            txt, cov, shape = "exc " + G.exc_name(ex), False, False
        m = ctx.driver.ask1("c13 splitc %d %d %d %d" % (n, step, s, e))
        if m != txt:
            ctx.divergence("util.numeric.split_ranges", case, m, txt)
        if not cov:
            return [(SIG_COVER, case, "exactly [%d, %d]" % (s, e), txt)]
        if not shape:
            return [(SIG_SHAPE, case, "on indexed level, inside domain", txt)]
        return []
    if st in ("e2e-range", "e2e-parse", "e2e-sort", "e2e"):
        return _replay_case(ctx, case)
    if st == "boolean":
        if "word" not in case:
            return []
        import ast
        docs = [ast.literal_eval(d) for d in case["docs"]]
        out = w_boolean({"docs": docs, "words": [case["word"]]})
        if isinstance(out, str):
            return [(SIG_BUILD, case, "index built", out)]
        model = {c: ctx.driver.ask1("c13 bool " + c).split()[0] == "1" for c in set(case["classes"]) | {case["wordclass"]}}
        e = list(range(len(docs))) if case["wordclass"] == "star" else \
            [i for i, c in enumerate(case["classes"]) if model[c] == model[case["wordclass"]]]
        return [] if out[0] == e else [(SIG_BOOL, case, e, out[0])]
    if st == "e2e-dateplugin":
        cfg = {"kind": "datetime", "bits": 64, "signed": True, "step": 8, "sortable": False, "dc": 0}
        docs = [datetime.datetime.fromisoformat(d) for d in case["docs"]]
        q = case["query"]
        qq = (_unser_v(cfg, q[0]), _unser_v(cfg, q[1]), q[2], q[3])
        out = w_dateplugin({"docs": docs, "texts": [case["text"]], "basedate": datetime.datetime.fromisoformat(case["basedate"])})
        if isinstance(out, str):
            return [(SIG_BUILD, case, "index built", out)]
        sd = _spec_docs(cfg, [[d] for d in docs])
        e = ctx.driver.ask1("c13 spec-filter-int %s %s %s %s %s" % (sd, _o(G.to_spec(cfg, qq[0])), _o(G.to_spec(cfg, qq[1])), _b(qq[2]), _b(qq[3])))
        e = [int(x) for x in e.strip("()").split()]
        if out[0] == e:
            return []
        return [(SIG_DATEPLUGIN_EXCL if (qq[2] or qq[3]) else SIG_DATEPLUGIN, case, e, out[0])]
    if st == "float-sortable":
        r = w_float_sortable(None)
        return [] if r == "ok" else [(SIG_FLOAT_SORTABLE, case, "document indexed", r)]
    if st in ("probe-zero", "probe-nan", "probe-dec"):
        cfg = case["cfg"]
        docs = [[_unser_v(cfg, v) for v in vs] for vs in case["docs"]]
        q = case["query"]
        return _probe_run(ctx, st[6:], cfg, docs, [(_unser_v(cfg, q[0]), _unser_v(cfg, q[1]), q[2], q[3])])
    if st == "tiered8":
        args = tuple(case["args"])
        txt, ok = w_tiered8([args])[0]
        return [] if ok else [("tiered_ranges:ranges-cover!=interval", case, "the interval", txt)]
    if st == "e2e-roundtrip":
        cfg = case["cfg"]
        v = _unser_v(cfg, case["value"])

        def rt():
            fld = G.field_of(cfg)
            return G.to_spec(cfg, fld.from_bytes(fld.to_bytes(v))) == G.to_spec(cfg, v)
        r = _try(rt)
        return [] if r is True else [(SIG_ROUNDTRIP, case, True, r)]
    if st == "decimal":
        cfg = {"kind": "decimal", "bits": case["bits"], "signed": case["signed"], "step": 4, "sortable": False,
               "dc": case["dc"]}
        d = Decimal(case["value"])

        def rt():
            fld = G.field_of(cfg)
            return fld.unprepare_number(fld.prepare_number(d))
        r = _try(rt)
        return [] if r == d else [(SIG_DEC, case, str(d), str(r))]
    if st == "decimal-form":
        import ast
        import decimal as _d
        cfg = {"kind": "decimal", "bits": case["bits"], "signed": case["signed"], "step": 4, "sortable": False,
               "dc": case["dc"]}
        x = ast.literal_eval(case["value"])
        want = Decimal(repr(x)).quantize(Decimal(1).scaleb(-case["dc"]), rounding=_d.ROUND_DOWN)

        def rt():
            fld = G.field_of(cfg)
            return fld.from_bytes(fld.to_bytes(x))
        r = _try(rt)
        return [] if r == want else [(SIG_DEC_INT, case, str(want), str(r))]
    if st == "forder":
        from whoosh.util import numeric as N
        x, y = G.b2f(case["x"]), G.b2f(case["y"])
        py = (x < y) or (x == 0 and y == 0 and case["x"] > case["y"])
        r = _try(lambda: N.to_sortable(float, 64, True, x) < N.to_sortable(float, 64, True, y))
        return [] if r == py else [(SIG_FSORT, case, _b(py), r)]
    if st == "datetime":
        from whoosh.util import times
        dt = datetime.datetime.fromisoformat(case["iso"])
        r = _try(lambda: times.long_to_datetime(times.datetime_to_long(dt)))
        return [] if r == dt else [(SIG_DT, case, dt.isoformat(), str(r))]
    if st == "reject":
        cfg = case["cfg"]
        if "value" not in case:
            return []
        bad = _unser_v(cfg, case["value"])
        good = [0.0] if cfg["kind"] == "float" else ([Decimal(0)] if cfg["kind"] == "decimal" else [0])
        out = w_reject({"cfg": cfg, "good": good, "bad": [bad]})
        if isinstance(out, str):
            return [(SIG_BUILD, case, "field/index built", out)]
        r = out["results"][0]
        found = []
        if r["index"] != "exc ValueError" or r["is_valid"] or out["count"] != 1:
            found.append((SIG_REJECT_INDEX, case, "ValueError, is_valid False", [r["index"], r["is_valid"]]))
        if r["start"] != "exc ValueError" or r["end"] != "exc ValueError" or r["parser"] != []:
            found.append((SIG_REJECT_QUERY, case, "ValueError / no match", [r["start"], r["end"], r["parser"]]))
        return found
    if st in ("codec", "decimal-build"):
        r = _try(G.field_of, case["cfg"])
        return [(SIG_BUILD, case, "field constructed", r)] if isinstance(r, str) else []
    return []


def run(ctx):
    import time
    for fn in (_corpus, _split_exhaustive, _split_wide, _tiered_exhaustive8, _codec_int, _codec_float, _compile,
               _datetime, _decimal, _dateparse, _columns, _boolean, _e2e_8bit_dense, _e2e, _e2e_dateplugin, _reject, _float_sortable_probe, _numeric_reading_probes):
        t = time.time()
        fn(ctx)
        ctx.stat("wall_ms:" + fn.__name__.lstrip("_"), int((time.time() - t) * 1000))
    if ctx.divergences and not ctx.violations:
        # a broken correspondence: spend extra end-to-end budget looking for a failing input
        rng = ctx.rng("e2e-extra")
        cases = [_gen_e2e_case(rng, "thorough") for _ in range(ctx.budget(600, 3000))]
        outs = ctx.pmap(G.run_index_case, cases, chunksize=4)
        for case, out in zip(cases, outs):
            for rec in _check_e2e(ctx, case, out):
                rec = _shrink_range(ctx, rec)
                ctx.violation(rec[0], rec[1], rec[2], rec[3], "focused search after a divergence")


def replay(ctx, rec):
    found = _run_record(ctx, rec)
    print("expected:", rec.get("expected"))
    for (sig, case, e, o) in found:
        print("signature:", sig)
        print("case:", json.dumps(case, default=str))
        print("expected now:", e)
        print("observed now:", o)
    return bool(found)
