"""C18 — storage back-ends and writer front-ends are interchangeable."""
import random
import shutil

from vcheck import parse_sexp
from gen import indexops as io
from props import c07, c06

ID = "C18"
LEVEL = "proof"
LEAN_IMPORTS = ["WM.Props.C18"]
THEOREMS = ["WM.C18.mp", "WM.C18.mp_multisegment", "WM.C18.mp_assignment_invisible", "WM.C18.subWriter_eq",
            "WM.C18.buffered_adds_partial", "WM.C18.async"]
PARTIAL = {"WM.C18.mp": "C18_storage is not a Lean statement (files are abstracted in the model; back-ends are compared end to "
                        "end only); the BufferedWriter statement is kept as `def WM.C18.buffered_full : Prop` over an executable "
                        "model of BufferedWriter (commit/add/delete/update/close) and is checked by the end-to-end stream "
                        "(own searcher after every call, dump after close) but not proved",
           "WM.C18.buffered_adds_partial": "covers add_document / automatic flush at the limit / close(); delete and update "
                                           "calls on a BufferedWriter are in buffered_full only (stated, executable, checked "
                                           "end to end, not proved)",
           "WM.C18.async": "the replay is the definition of the model (asyncReplay = session on the TOC at lock time); thread "
                           "timing is not modelled"}
RULE = ("one world x {FileStorage mmap on/off, RamStorage, copy_to_ram} x {compound, loose} x {plain SegmentWriter, "
        "MpWriter procs 1..3 x batch sizes x merged/multisegment, SerialMpWriter, AsyncWriter with/without a decoy lock "
        "holder, BufferedWriter limit 1..5 probed through its own searcher after every call}; every configuration's "
        "canonical dump is compared with the Lean dictionary and pairwise with the plain FileStorage run; non-trivial = "
        "a non-plain front-end committed documents; distinct = distinct (world, configuration)")
ASSUMPTIONS = c07.ASSUMPTIONS + [
    "multiprocessing queues, thread scheduling, the flush timer and mmap are not modelled: a schedule is represented by "
    "its outcome (which sub-writer got which documents in which order; at which point the async writer obtained the lock)",
]
TRUSTED = c06.TRUSTED
MANIFEST = {
    "level_text": "Lean theorems over models of MpWriter._merge_subsegments / multisegment adoption (every assignment of "
                  "documents to sub-writers gives the sequential content; well-formed term index), BufferedWriter (its "
                  "reader = committed + buffered at every point, nothing buffered after close) and AsyncWriter (replay = "
                  "direct application when the lock is obtained). Tied to whoosh by running one world through the "
                  "configuration product and comparing canonical dumps with the Lean dictionary and pairwise.",
    "level_note": "partial: schedules appear only as outcome sets; storage back-ends are compared end to end (the byte-level "
                  "storage laws belong to C20's compound/structfile models).",
    "technique": c07.MANIFEST["technique"],
}
PROBES = c07.PROBES


def _configs(rng, tier):
    cfgs = []
    base = io.default_config()
    cfgs.append(dict(base))                                             # reference: plain, file, compound
    st = rng.choice([("file", True, False), ("file", False, False), ("ram", True, False), ("file", True, True)])
    c = dict(base, storage=st[0], mmap=st[1], copy_to_ram=st[2], compound=rng.random() < 0.5,
             blocklimit=rng.choice([1, 3, 128]))
    cfgs.append(c)
    fes = ["mp", "mp", "serialmp", "async"]
    rng.shuffle(fes)
    for fe in fes[:3 if tier == "quick" else 4]:
        c = dict(base, frontend=fe, storage=rng.choice(["file", "file", "ram"]) if fe != "mp" else "file",
                 compound=rng.random() < 0.6, blocklimit=rng.choice([2, 128]), mmap=rng.random() < 0.7)
        if fe == "mp":
            c.update(procs=rng.choice([1, 2, 3]), batchsize=rng.choice([1, 2, 3, 100]), multisegment=rng.random() < 0.4)
        if fe == "serialmp":
            c.update(procs=rng.choice([1, 2, 3]))
        if fe == "async":
            c.update(decoy=[rng.random() < 0.6 for _ in range(5)])
        cfgs.append(c)
    return cfgs


def _world(seed_tuple):
    pid, seed, tier, i = seed_tuple
    rng = random.Random("%s:%s:world:%d" % (pid, seed, i))
    w = io.gen_world(rng, disciplined=True, schema_changes=rng.random() < 0.4, raw_docnums=False, groups=rng.random() < 0.6,
                     nsessions=rng.choice([1, 2, 3, 4]), maxops=rng.choice([3, 5, 8]), allow_clear=False, malformed=False)
    return w, _configs(rng, tier), rng.choice([1, 2, 3, 5])


def _run_case(seed_tuple):
    io.allow_children()
    world, cfgs, limit = _world(seed_tuple)
    out = {"world": world, "runs": []}
    for cfg in cfgs:
        base = io.new_scratch("wverif-C18-")
        try:
            with io.Watchdog(60):
                real = io.run_frontend(world, cfg, base, probes=PROBES, async_decoy=cfg.get("decoy"))
            out["runs"].append({"world": world, "cfg": cfg, "real": real})
        except Exception as e:  # noqa
            import traceback
            out["runs"].append({"world": world, "cfg": cfg, "crash": "%s: %s" % (type(e).__name__, e),
                                "trace": traceback.format_exc()[-1500:]})
        finally:
            shutil.rmtree(base, ignore_errors=True)
    # buffered writer: flat semantics
    bcfg = dict(io.default_config(), frontend="buffered", limit=limit, storage="file",
                bufkind=random.Random(str(seed_tuple)).choice(["small", "nomerge", "optimize"]))
    base = io.new_scratch("wverif-C18-")
    try:
        with io.Watchdog(60):
            out["buffered"] = {"cfg": bcfg, "real": io.run_buffered(world, bcfg, base, probes=PROBES)}
    except Exception as e:  # noqa
        import traceback
        out["buffered"] = {"cfg": bcfg, "crash": "%s: %s" % (type(e).__name__, e), "trace": traceback.format_exc()[-1500:]}
    finally:
        shutil.rmtree(base, ignore_errors=True)
    return out


def _flat_sessions(steps):
    """every call its own committed session (what a BufferedWriter means)"""
    return [(st["concrete"], ["commit", "nomerge"]) for st in steps]


def check_frontend_run(ctx, run, reply, ref):
    """one (world, configuration) run against the spec and against the reference run"""
    world, real, cfg = run["world"], run["real"], run["cfg"]
    tables = run["tables"]
    fe = cfg.get("frontend", "plain")
    deterministic = fe in ("plain", "serialmp") or (fe == "async")
    for si, (rs, ms) in enumerate(zip(real["sessions"], reply)):
        where = {"world": world, "cfg": cfg, "session": si}
        d = rs.get("dump")
        if d is None or "error" in ms:
            continue
        # results of the calls (buffered async calls return nothing)
        if fe != "async":
            rres, mres = io.norm_results(rs["results"]), io.model_results(ms["results"])
            cops = [o for o in rs["concrete"] if o[0] not in ("gstart", "gend")]
            for oi, (a, b) in enumerate(zip(rres, mres)):
                if isinstance(a, tuple) and a[0] == "count" and isinstance(b, tuple) and b[0] == "count":
                    if a[1] != b[2] and not io.has_not(cops[oi][1]):
                        ctx.violation("%s:delete_by_query:count!=live-matches" % fe, dict(where, op=cops[oi]),
                                      b[2], a[1], "count differs from the number of live matches")
                elif (isinstance(a, tuple) and a[0] == "err") != (isinstance(b, tuple) and b[0] == "err"):
                    ctx.violation("%s:call-outcome" % fe, dict(where, op=cops[oi]), b, a,
                                  "a call raised under one front-end only")
        exp = io.expected_dump(tables, ms["spec"])
        c07._against_spec(ctx, dict(where, frontend=fe), tables, ms["spec"], exp, d)
        if fe == "plain" and [tuple(x) for x in d["layout"]] != [tuple(x) for x in ms["toc"]]:
            ctx.divergence("segment-layout", where, ms["toc"], d["layout"])
        gv = io.group_violation(world, d["layout"])
        if gv is not None:
            ctx.violation("%s:group-not-adjacent" % fe, where, gv[0], gv[1],
                          "documents added as one group are not adjacent/in order")
        # pairwise with the reference configuration
        if ref is not None and ref is not run:
            rd = ref["real"]["sessions"][si].get("dump")
            if rd is not None:
                c1, c2 = c06._canon(rd, True), c06._canon(d, True)
                for part in ("count", "docs", "posts", "probes"):
                    if c1[part] != c2[part]:
                        ctx.violation("config-dependent:%s:%s" % (fe, part), dict(where, ref=ref["cfg"]),
                                      str(c1[part])[:1200], str(c2[part])[:1200],
                                      "a front-end/back-end produced a different logical index")
                        break
                if not d["has_deletions"] and not rd["has_deletions"]:
                    if d["field_length"] != rd["field_length"] or d["stats"] != rd["stats"]:
                        ctx.violation("config-dependent:%s:statistics" % fe, dict(where, ref=ref["cfg"]),
                                      (rd["field_length"], ), (d["field_length"], ),
                                      "collection statistics differ between front-ends")
        ctx.stat("frontend:%s" % fe)
        if fe == "mp":
            ctx.stat("mp:procs=%d,multiseg=%s" % (cfg["procs"], cfg["multisegment"]))
        if rs.get("async_buffered"):
            ctx.stat("async:buffered-session")
        ctx.stat("storage:%s%s%s" % (cfg["storage"], "" if cfg.get("mmap", True) else "-nommap",
                                      "-copy_to_ram" if cfg.get("copy_to_ram") else ""))


def check_serialmp_model(ctx, run, reply):
    """SerialMpWriter: model (Writer.mpCommit over round-robin sub-writers) <-> implementation"""
    world, real, cfg, tables = run["world"], run["real"], run["cfg"], run["tables"]
    for si, (rs, ms) in enumerate(zip(real["sessions"], reply)):
        where = {"world": world, "cfg": cfg, "session": si}
        d = rs.get("dump")
        if "error" in ms:
            ctx.divergence("serialmp:commit-error", where, ms["error"], "no error")
            return
        if d is None:
            continue
        if [tuple(x) for x in d["layout"]] != [tuple(x) for x in ms["toc"]]:
            ctx.divergence("serialmp:segment-layout", where, ms["toc"], d["layout"])
            return
        df = io.diff_docs(io.expected_dump(tables, ms["model"])["docs"], d["docs"])
        if df is not None:
            ctx.divergence("serialmp:content", dict(where, diff=df), sorted(k for k, _ in ms["model"]),
                           sorted(d["docs"], key=repr))
            return
        if sorted(ms["model"]) != sorted(ms["spec"]):
            ctx.divergence("serialmp:model-vs-spec", where, ms["model"], ms["spec"])
        ctx.stat("serialmp:model-layout-checked")


def check_buffered_model(ctx, case, reply):
    """BufferedWriter: Lean `Buffered` model <-> implementation (reader after every call, layout after close)"""
    b = case["buffered"]
    real = b["real"]
    where = {"world": case["world"], "cfg": b["cfg"]}
    if reply == ["bad-op"]:
        ctx.divergence("buffered:bad-op", where, "bad-op", "")
        return
    rep = reply[0]
    calls = [(st, o) for st in real["steps"] for o in st["raw"]]
    # steps with exactly one raw call carry the reader state after it
    mi = 0
    for st in real["steps"]:
        n = len(st["raw"])
        if n == 0:
            continue
        last = rep[0][mi + n - 1]
        mi += n
        keys = sorted(int(k) for k in last[1])
        if keys != st["sids"]:
            ctx.divergence("buffered:reader-content", dict(where, op=st["op"]), keys, st["sids"])
            return
        res = last[0]
        rr = st["results"][-1] if st["results"] else None
        if isinstance(rr, tuple) and rr[0] == "count" and isinstance(res, list) and res and res[0] == "count":
            if int(res[1]) != rr[1]:
                if st["op"][0] == "delq" and io.has_not(st["op"][1]) and rr[1] > int(res[1]):
                    ctx.violation(c07.SIG_NOT, dict(where, op=st["op"]), int(res[1]), rr[1],
                                  "delete_by_query(Not(...)) counted documents that were already deleted")
                else:
                    ctx.divergence("buffered:delete_by_query.count", dict(where, op=st["op"]), int(res[1]), rr[1])
                    return
    if len(rep) == 2:
        ctx.divergence("buffered:close-error", where, rep[1], "no error")
        return
    layout = [(int(x[0]), [int(y) for y in x[1]], [int(y) for y in x[2]]) for x in rep[1]]
    if [tuple(x) for x in real["dump"]["layout"]] != layout:
        ctx.divergence("buffered:segment-layout", where, layout, real["dump"]["layout"])
        return
    ctx.stat("buffered:model-checked")


def check_buffered(ctx, case, reply):
    b = case["buffered"]
    real = b["real"]
    tables = case["btables"]
    where = {"world": case["world"], "cfg": b["cfg"]}
    for si, (st, ms) in enumerate(zip(real["steps"], reply)):
        if "error" in ms:
            continue
        exp = sorted(k for k, _ in ms["spec"])
        for name in ("sids", "every"):
            if st[name] != exp:
                ctx.violation("BufferedWriter.searcher:%s!=committed+buffered" % name, dict(where, step=si, op=st["op"]),
                              exp, st[name], "the buffered writer's own searcher does not see committed + buffered documents")
                return
        if st["doc_count"] != len(exp):
            ctx.violation("BufferedWriter.searcher:doc_count", dict(where, step=si, op=st["op"]), len(exp), st["doc_count"],
                          "doc_count of the buffered writer's reader")
            return
    if reply:
        ms = reply[-1]
        if "error" not in ms:
            exp = io.expected_dump(tables, ms["spec"])
            c07._against_spec(ctx, dict(where, frontend="buffered", after="close"), tables, ms["spec"], exp, real["dump"])
    ctx.stat("frontend:buffered")
    ctx.stat("buffered:limit=%d" % b["cfg"]["limit"])


def run(ctx):
    n = ctx.budget(160, 2000)
    seeds = [(ID, ctx.seed, ctx.tier, i) for i in range(n)]
    cases = ctx.pmap(_run_case, seeds, chunksize=1)
    lines, owners = [], []
    for ci, c in enumerate(cases):
        for ri, r in enumerate(c["runs"]):
            if "crash" in r:
                continue
            r["tables"] = io.WorldTables(c["world"])
            fe = r["cfg"].get("frontend", "plain")
            free = fe != "plain"
            lines.append(r["tables"].lean_request(io.concrete_sessions(r["real"], free), 0, "c07"))
            owners.append(("run", ci, ri))
            if fe == "serialmp":
                # the SerialMpWriter model (round-robin dealing, groups, _merge_subsegments) predicts the layout
                lines.append(r["tables"].lean_request(io.concrete_sessions(r["real"], False), r["cfg"]["procs"], "c18"))
                owners.append(("smp", ci, ri))
        b = c.get("buffered")
        if b and "crash" not in b:
            c["btables"] = io.WorldTables(c["world"])
            lines.append(c["btables"].lean_request(_flat_sessions(b["real"]["steps"]), 0, "c07"))
            owners.append(("buf", ci, 0))
            lines.append(c["btables"].lean_buffered_request(b["real"]["steps"], b["cfg"]["limit"], b["cfg"]["bufkind"]))
            owners.append(("bufmodel", ci, 0))
    replies = ctx.driver.ask(lines)
    rep = {}
    for o, line in zip(owners, replies):
        rep[o] = parse_sexp(line) if o[0] == "bufmodel" else io.parse_reply(line)
    for ci, c in enumerate(cases):
        ref = c["runs"][0] if c["runs"] and "real" in c["runs"][0] else None
        nt = False
        for ri, r in enumerate(c["runs"]):
            fe = r["cfg"].get("frontend", "plain")
            if "crash" in r:
                kind = r["crash"].split(":")[0]
                ctx.stat("crash:%s:%s" % (fe, kind))
                ctx.violation("%s:history raised %s" % (fe, kind), {"world": c["world"], "cfg": r["cfg"]},
                              "no exception", r["crash"] + "\n" + r.get("trace", ""), "a writer history raised")
                continue
            check_frontend_run(ctx, r, rep[("run", ci, ri)], ref)
            if ("smp", ci, ri) in rep:
                check_serialmp_model(ctx, r, rep[("smp", ci, ri)])
            if fe != "plain" and any(s["end"][0] == "commit" and any(o[0] in ("add", "upd") for o in s["concrete"])
                                     for s in r["real"]["sessions"]):
                nt = True
            ctx.case(("run", ctx.seed, ci, ri), nontrivial=fe != "plain" or r["cfg"]["storage"] != "file")
        b = c.get("buffered")
        if b:
            if "crash" in b:
                kind = b["crash"].split(":")[0]
                ctx.violation("buffered:history raised %s" % kind, {"world": c["world"], "cfg": b["cfg"]},
                              "no exception", b["crash"] + "\n" + b.get("trace", ""), "a BufferedWriter history raised")
            else:
                check_buffered(ctx, c, rep[("buf", ci, 0)])
                check_buffered_model(ctx, c, rep[("bufmodel", ci, 0)])
                ctx.case(("buf", ctx.seed, ci), nontrivial=len(b["real"]["steps"]) > 0)
        if ci < 2:
            ctx.sample({"sessions": c["world"]["sessions"][:2], "cfgs": [r["cfg"] for r in c["runs"]]})


def replay(ctx, rec):
    case = rec.get("case", {})
    world, cfg = case.get("world"), case.get("cfg")
    if world is None or cfg is None:
        print("no world/cfg in record")
        return False
    io.allow_children()
    base = io.new_scratch("wverif-C18-")
    try:
        if cfg.get("frontend") == "buffered":
            real = io.run_buffered(world, cfg, base, probes=PROBES)
            c = {"world": world, "buffered": {"cfg": cfg, "real": real}, "btables": io.WorldTables(world)}
            reply = io.parse_reply(ctx.driver.ask1(c["btables"].lean_request(_flat_sessions(real["steps"]), 0, "c07")))
            check_buffered(ctx, c, reply)
        else:
            real = io.run_frontend(world, cfg, base, probes=PROBES, async_decoy=cfg.get("decoy"))
            r = {"world": world, "cfg": cfg, "real": real, "tables": io.WorldTables(world)}
            free = cfg.get("frontend", "plain") != "plain"
            reply = io.parse_reply(ctx.driver.ask1(r["tables"].lean_request(io.concrete_sessions(real, free), 0, "c07")))
            check_frontend_run(ctx, r, reply, None)
    except Exception as e:  # noqa
        print("history raised: %r" % (e,))
        return True
    finally:
        shutil.rmtree(base, ignore_errors=True)
    for v in ctx.violations:
        print(v["signature"], "expected:", str(v["expected"])[:500], "observed:", str(v["observed"])[:500])
    return bool(ctx.violations)
