"""C18 — storage back-ends and writer front-ends are interchangeable."""
import random
import shutil

from vcheck import parse_sexp
from gen import indexops as io
from props import c07, c06

ID = "C18"
LEVEL = "proof"
LEAN_IMPORTS = ["WM.Props.C18"]
THEOREMS = ["WM.C18.mp", "WM.C18.mp_multisegment", "WM.C18.mp_assignment_invisible", "WM.C18.subWriter_eq",
            "WM.C18.buffered", "WM.C18.buffered_step_sim", "WM.C18.storage", "WM.C18.storage_instances", "WM.C18.async"]
PARTIAL = {"WM.C18.mp": "stated for the sub-writers every sub-process produces (SubsOf: each ran add_document on its share and "
                        "returned its segment); a sub-process that dies or whose result never reaches the parent is outside "
                        "the theorem — see ASSUMPTIONS (result delivery) and the mp:sub-writer-failure scenario",
           "WM.C18.mp_multisegment": "as mp: every sub-writer's result is assumed to arrive",
           "WM.C18.storage": "the storage is an abstract map of named blobs (segments, TOC) with the two map laws; that "
                             "FileStorage (mmap on/off), RamStorage, copy_to_ram and compound files satisfy them is compared "
                             "end to end here and modelled byte-wise by C20 (compound) — not derived from the Python classes",
           "WM.C18.buffered": "deletion by document number on a BufferedWriter and the period timer are outside the theorem "
                              "(the Buffered model's delete_document is tied to the code by the correspondence stream)",
           "WM.C18.async": "the replay is the definition of the model (asyncReplay = session on the TOC at lock time); thread "
                           "timing is not modelled"}
RULE = ("one world x {FileStorage mmap on/off, RamStorage, copy_to_ram} x {compound, loose} x {plain SegmentWriter, "
        "MpWriter procs 1..3 x batch sizes x merged/multisegment, SerialMpWriter, AsyncWriter with/without a decoy lock "
        "holder or behind a plain writer that holds the lock, performs the previous session and commits while the "
        "AsyncWriter's calls wait (every 8th world is built for this: the holder adds documents with the term the "
        "AsyncWriter deletes by, or deletes and merges), BufferedWriter limit 1..5 probed through its own searcher after "
        "every call, including Prefix/TermRange/Wildcard queries and expand_prefix/terms_from walks that start at a "
        "bound (bounds that are terms of buffered documents are counted)}; schemas include a pure COLUMN field and a "
        "dynamic (glob) field (per-document data without postings / without stored values); every configuration's "
        "canonical dump is compared with the Lean dictionary and pairwise with the plain FileStorage run; non-trivial = "
        "a non-plain front-end committed documents; distinct = distinct (world, configuration); plus 2 (quick) / 8 MpWriter "
        "runs in which one document kills a sub-process (must be reported, never committed around)")
ASSUMPTIONS = c07.ASSUMPTIONS + [
    "multiprocessing queues, thread scheduling, the flush timer and mmap are not modelled: a schedule is represented by "
    "its outcome (which sub-writer got which documents in which order; at which point the async writer obtained the lock)",
    "RESULT-DELIVERY: every sub-writer process of an MpWriter finishes and its (run, fieldnames, segment) result reaches the "
    "parent. MpWriter._commit reads the results with resultqueue.get(timeout=1) / `except queue.Empty: pass`: a missing "
    "result is silently dropped together with every document that sub-writer indexed. After task.join() a result that was "
    "put is in the pipe, so in practice this is the path of a sub-process that died (a document raising in it); the check "
    "exercises exactly that (mp:sub-writer-failure scenario, known finding, repaired by `fix: MpWriter raises when a "
    "sub-writer process died ...`); a result delayed by more than the timeout without the process dying is not modelled",
]
TRUSTED = c06.TRUSTED
MANIFEST = {
    "level_text": "Lean theorems over models of MpWriter._merge_subsegments / multisegment adoption (every assignment of "
                  "documents to sub-writers gives the sequential content; well-formed term index), BufferedWriter (any "
                  "sequence of add/update/delete-by-term/-query calls with flushes at the limit: its own reader = the "
                  "dictionary = committed + buffered at every point, close() leaves nothing unsaved), AsyncWriter (replay = "
                  "direct application when the lock is obtained) and an abstract storage (commit/open round trip over any "
                  "store satisfying the map laws; dictionary and directory instances). Tied to whoosh by running one world "
                  "through the configuration product and comparing canonical dumps with the Lean dictionary, pairwise, and "
                  "(SerialMpWriter layout, BufferedWriter reader after every call) with the Lean models.",
    "level_note": "partial: schedules appear only as outcome sets; that the concrete storage classes satisfy the map laws is "
                  "checked end to end, not derived (C20 models compound files byte-wise); BufferedWriter deletion by number "
                  "and the flush timer are outside the theorem.",
    "technique": c07.MANIFEST["technique"],
}
PROBES = c07.PROBES


def _configs(rng, tier):
    cfgs = []
    base = io.default_config()
    cfgs.append(dict(base))                                             # reference: plain, file, compound
    st = rng.choice([("file", True, False), ("file", False, False), ("ram", True, False), ("file", True, True)])
    c = dict(base, storage=st[0], mmap=st[1], copy_to_ram=st[2], compound=rng.random() < 0.5,
             blocklimit=rng.choice([1, 3, 128]))
    cfgs.append(c)
    fes = ["mp", "mp", "serialmp", "async"]
    rng.shuffle(fes)
    for fe in fes[:3 if tier == "quick" else 4]:
        c = dict(base, frontend=fe, storage=rng.choice(["file", "file", "ram"]) if fe != "mp" else "file",
                 compound=rng.random() < 0.6, blocklimit=rng.choice([2, 128]), mmap=rng.random() < 0.7)
        if fe == "mp":
            c.update(procs=rng.choice([1, 2, 3]), batchsize=rng.choice([1, 2, 3, 100]), multisegment=rng.random() < 0.4)
        if fe == "serialmp":
            c.update(procs=rng.choice([1, 2, 3]))
        if fe == "async":
            # per session: no other writer / one that leaves after commit() was called / one that leaves before
            # / "writer": the session before is performed by a plain writer holding the lock meanwhile
            c.update(decoy=[rng.choice([False, "late", "late", "early", "early", "writer", "writer"]) for _ in range(5)],
                     storage="file")
        c["limitmb"] = rng.choice([128, 128, 0.0004, 0.002, 0.01])
        cfgs.append(c)
    return cfgs


def _world(seed_tuple):
    if seed_tuple[0] == "corpus":
        rec = io.load_corpus(seed_tuple[1])
        return rec["world"], rec["cfgs"], rec.get("limit", 3)
    pid, seed, tier, i = seed_tuple
    rng = random.Random("%s:%s:world:%d" % (pid, seed, i))
    if i % 8 == 5:
        # a deferred AsyncWriter behind a lock holder that commits (compared with the plain run of the same sessions)
        w = io.gen_async_world(rng)
        base = io.default_config()
        c = dict(base, frontend="async", storage="file", compound=rng.random() < 0.6, blocklimit=rng.choice([2, 128]),
                 decoy=["writer"])
        return w, [dict(base), c], rng.choice([1, 2, 3, 5])
    w = io.gen_world(rng, disciplined=True, schema_changes=rng.random() < 0.4, raw_docnums=False, groups=rng.random() < 0.6,
                     nsessions=rng.choice([1, 2, 3, 4]), maxops=rng.choice([3, 5, 8]), allow_clear=True, malformed=False)
    return w, _configs(rng, tier), rng.choice([1, 2, 3, 5])


def _run_case(seed_tuple):
    io.allow_children()
    world, cfgs, limit = _world(seed_tuple)
    out = {"world": world, "runs": []}
    for cfg in cfgs:
        base = io.new_scratch("wverif-C18-")
        try:
            try:
                with io.Watchdog(60):
                    real = io.run_frontend(world, cfg, base, probes=PROBES, async_decoy=cfg.get("decoy"))
            except TimeoutError:
                # a loaded machine can starve the sub-processes: once more, with a long limit, in a fresh directory
                shutil.rmtree(base, ignore_errors=True)
                base = io.new_scratch("wverif-C18-")
                with io.Watchdog(240):
                    real = io.run_frontend(world, cfg, base, probes=PROBES, async_decoy=cfg.get("decoy"))
            out["runs"].append({"world": world, "cfg": cfg, "real": real})
        except Exception as e:  # noqa
            import traceback
            out["runs"].append({"world": world, "cfg": cfg, "crash": "%s: %s" % (type(e).__name__, e),
                                "trace": traceback.format_exc()[-1500:]})
        finally:
            shutil.rmtree(base, ignore_errors=True)
    # buffered writer: flat semantics
    bcfg = dict(io.default_config(), frontend="buffered", limit=limit, storage="file",
                bufkind=random.Random(str(seed_tuple)).choice(["small", "nomerge", "optimize"]))
    base = io.new_scratch("wverif-C18-")
    try:
        with io.Watchdog(60):
            out["buffered"] = {"cfg": bcfg, "real": io.run_buffered(world, bcfg, base, probes=PROBES)}
    except Exception as e:  # noqa
        import traceback
        out["buffered"] = {"cfg": bcfg, "crash": "%s: %s" % (type(e).__name__, e), "trace": traceback.format_exc()[-1500:]}
    finally:
        shutil.rmtree(base, ignore_errors=True)
    return out


SIG_MPFAIL = "mp:sub-writer-failure:commit succeeds without the documents of the dead sub-writer"


def _run_mpfail(params):
    io.allow_children()
    base = io.new_scratch("wverif-C18-")
    try:
        with io.Watchdog(120):
            return io.run_mp_failure(params, base)
    except Exception as e:  # noqa
        import traceback
        return {"params": params, "crash": "%s: %s" % (type(e).__name__, e), "trace": traceback.format_exc()[-1500:]}
    finally:
        shutil.rmtree(base, ignore_errors=True)


def check_mp_failure(ctx, r):
    """A document that kills a sub-writer process must not be swallowed: either the caller is told
    (add_document or commit raises) and a failed commit leaves the index as it was and writable, or
    every document whose add_document returned is in the index."""
    case = {"mpfail": r["params"]}
    if "crash" in r:
        ctx.violation("mp:sub-writer-failure:scenario raised %s" % r["crash"].split(":")[0], case, "no exception",
                      r["crash"] + "\n" + r.get("trace", ""), "the MpWriter failure scenario raised or hung")
        return
    told = bool(r["add_errors"]) or r["commit"] != "ok"
    if r["commit"] == "ok":
        want = sorted(set(r["accepted"]) & set(r["good"])) + ["old"]
        lost = sorted(set(want) - set(r["stored"]))
        if lost or not told:
            ctx.violation(SIG_MPFAIL, case, {"stored": sorted(want), "an exception at": "add_document or commit"},
                          {"stored": r["stored"], "lost": lost, "add_errors": r["add_errors"], "commit": r["commit"]},
                          "a document that raised inside a sub-process killed it; commit() ignored the missing result "
                          "and reported success without every document that sub-writer had indexed")
    else:
        if r["stored"] != ["old"] or r["relock"] != "ok":
            ctx.violation("mp:sub-writer-failure:failed commit leaves the index changed or locked", case,
                          {"stored": ["old"], "relock": "ok"}, {"stored": r["stored"], "relock": r["relock"],
                                                                "commit": r["commit"]},
                          "commit() raised but the index is not as before / still locked")
    ctx.stat("mpfail:%s:%s" % (r["params"]["kind"], "told" if told else "silent"))
    ctx.case(("mpfail", ctx.seed, sexp_key(r["params"])), nontrivial=True)


def sexp_key(d):
    return tuple(sorted((k, str(v)) for k, v in d.items()))


def _flat_sessions(steps):
    """every call its own committed session (what a BufferedWriter means)"""
    return [(st["concrete"], ["commit", "nomerge"]) for st in steps]


def check_frontend_run(ctx, run, reply, ref):
    """one (world, configuration) run against the spec and against the reference run"""
    world, real, cfg = run["world"], run["real"], run["cfg"]
    tables = run["tables"]
    fe = cfg.get("frontend", "plain")
    deterministic = fe in ("plain", "serialmp") or (fe == "async")
    for si, (rs, ms) in enumerate(zip(real["sessions"], reply)):
        where = {"world": world, "cfg": cfg, "session": si}
        d = rs.get("dump")
        if d is None or "error" in ms:
            continue
        # results of the calls (buffered async calls return nothing)
        if fe != "async":
            rres, mres = io.norm_results(rs["results"]), io.model_results(ms["results"])
            cops = [o for o in rs["concrete"] if o[0] not in ("gstart", "gend")]
            for oi, (a, b) in enumerate(zip(rres, mres)):
                if isinstance(a, tuple) and a[0] == "count" and isinstance(b, tuple) and b[0] == "count":
                    if a[1] != b[2] and not io.has_not(cops[oi][1]):
                        ctx.violation("%s:delete_by_query:count!=live-matches" % fe, dict(where, op=cops[oi]),
                                      b[2], a[1], "count differs from the number of live matches")
                elif (isinstance(a, tuple) and a[0] == "err") != (isinstance(b, tuple) and b[0] == "err"):
                    ctx.violation("%s:call-outcome" % fe, dict(where, op=cops[oi]), b, a,
                                  "a call raised under one front-end only")
        exp = io.expected_dump(tables, ms["spec"])
        c07._against_spec(ctx, dict(where, frontend=fe), tables, ms["spec"], exp, d)
        c07._reader_consistency(ctx, dict(where, frontend=fe), tables, d)
        c07.optimize_purges(ctx, dict(where, frontend=fe), rs["end"], d,
                            single=not (fe == "mp" and cfg.get("multisegment")))
        if fe in ("plain", "async") and [tuple(x) for x in d["layout"]] != [tuple(x) for x in ms["toc"]]:
            # (an AsyncWriter is a plain writer as soon as it has the lock: same layout, same merge decisions)
            ctx.divergence("segment-layout:%s" % fe, where, ms["toc"], d["layout"])
        gv = io.group_violation(world, d["layout"])
        if gv is not None:
            ctx.violation("%s:group-not-adjacent" % fe, where, gv[0], gv[1],
                          "documents added as one group are not adjacent/in order")
        # pairwise with the reference configuration
        if ref is not None and ref is not run:
            rd = ref["real"]["sessions"][si].get("dump")
            if rd is not None:
                c1, c2 = c06._canon(rd, True), c06._canon(d, True)
                for part in ("count", "docs", "posts", "probes"):
                    if c1[part] != c2[part]:
                        ctx.violation("config-dependent:%s:%s" % (fe, part), dict(where, ref=ref["cfg"]),
                                      str(c1[part])[:1200], str(c2[part])[:1200],
                                      "a front-end/back-end produced a different logical index")
                        break
                if not d["has_deletions"] and not rd["has_deletions"]:
                    if d["field_length"] != rd["field_length"] or d["stats"] != rd["stats"]:
                        ctx.violation("config-dependent:%s:statistics" % fe, dict(where, ref=ref["cfg"]),
                                      (rd["field_length"], ), (d["field_length"], ),
                                      "collection statistics differ between front-ends")
        ctx.stat("frontend:%s" % fe)
        if fe == "mp":
            ctx.stat("mp:procs=%d,multiseg=%s" % (cfg["procs"], cfg["multisegment"]))
        if rs.get("async_buffered"):
            ctx.stat("async:buffered-session")
        if rs.get("behind_writer"):
            ctx.stat("async:deferred-behind-a-committing-writer")
        ctx.stat("storage:%s%s%s" % (cfg["storage"], "" if cfg.get("mmap", True) else "-nommap",
                                      "-copy_to_ram" if cfg.get("copy_to_ram") else ""))


def check_serialmp_model(ctx, run, reply):
    """SerialMpWriter: model (Writer.mpCommit over round-robin sub-writers) <-> implementation"""
    world, real, cfg, tables = run["world"], run["real"], run["cfg"], run["tables"]
    for si, (rs, ms) in enumerate(zip(real["sessions"], reply)):
        where = {"world": world, "cfg": cfg, "session": si}
        d = rs.get("dump")
        if "error" in ms:
            ctx.divergence("serialmp:commit-error", where, ms["error"], "no error")
            return
        if d is None:
            continue
        if [tuple(x) for x in d["layout"]] != [tuple(x) for x in ms["toc"]]:
            ctx.divergence("serialmp:segment-layout", where, ms["toc"], d["layout"])
            return
        df = io.diff_docs(io.expected_dump(tables, ms["model"])["docs"], d["docs"])
        if df is not None:
            ctx.divergence("serialmp:content", dict(where, diff=df), sorted(k for k, _ in ms["model"]),
                           sorted(d["docs"], key=repr))
            return
        if sorted(ms["model"]) != sorted(ms["spec"]):
            ctx.divergence("serialmp:model-vs-spec", where, ms["model"], ms["spec"])
        ctx.stat("serialmp:model-layout-checked")


def check_buffered_model(ctx, case, reply):
    """BufferedWriter: Lean `Buffered` model <-> implementation (reader after every call, layout after close)"""
    b = case["buffered"]
    real = b["real"]
    where = {"world": case["world"], "cfg": b["cfg"]}
    if reply == ["bad-op"]:
        ctx.divergence("buffered:bad-op", where, "bad-op", "")
        return
    rep = reply[0]
    calls = [(st, o) for st in real["steps"] for o in st["raw"]]
    # steps with exactly one raw call carry the reader state after it
    mi = 0
    for st in real["steps"]:
        n = len(st["raw"])
        if n == 0:
            continue
        last = rep[0][mi + n - 1]
        mi += n
        keys = sorted(int(k) for k in last[1])
        if keys != st["sids"]:
            ctx.divergence("buffered:reader-content", dict(where, op=st["op"]), keys, st["sids"])
            return
        res = last[0]
        rr = st["results"][-1] if st["results"] else None
        if isinstance(rr, tuple) and rr[0] == "count" and isinstance(res, list) and res and res[0] == "count":
            if int(res[1]) != rr[1]:
                if st["op"][0] == "delq" and io.has_not(st["op"][1]) and rr[1] > int(res[1]):
                    ctx.violation(c07.SIG_NOT, dict(where, op=st["op"]), int(res[1]), rr[1],
                                  "delete_by_query(Not(...)) counted documents that were already deleted")
                else:
                    ctx.divergence("buffered:delete_by_query.count", dict(where, op=st["op"]), int(res[1]), rr[1])
                    return
    if len(rep) == 2:
        ctx.divergence("buffered:close-error", where, rep[1], "no error")
        return
    layout = [(int(x[0]), [int(y) for y in x[1]], [int(y) for y in x[2]]) for x in rep[1]]
    if [tuple(x) for x in real["dump"]["layout"]] != layout:
        ctx.divergence("buffered:segment-layout", where, layout, real["dump"]["layout"])
        return
    ctx.stat("buffered:model-checked")


SIG_MEMWALK = ("MemTermsReader.terms_from:TermNotFound('Unknown field') for a schema field without a term in the RAM "
               "segment (reader.expand_prefix/terms_from of BufferedWriter.reader())")


def check_buffered(ctx, case, reply):
    b = case["buffered"]
    real = b["real"]
    tables = case["btables"]
    where = {"world": case["world"], "cfg": b["cfg"]}
    for si, (st, ms) in enumerate(zip(real["steps"], reply)):
        if "error" in ms:
            continue
        exp = sorted(k for k, _ in ms["spec"])
        for name in ("sids", "every"):
            if st[name] != exp:
                ctx.violation("BufferedWriter.searcher:%s!=committed+buffered" % name, dict(where, step=si, op=st["op"]),
                              exp, st[name], "the buffered writer's own searcher does not see committed + buffered documents")
                return
        if st["doc_count"] != len(exp):
            ctx.violation("BufferedWriter.searcher:doc_count", dict(where, step=si, op=st["op"]), len(exp), st["doc_count"],
                          "doc_count of the buffered writer's reader")
            return
        # term expansions that start at a bound, through the writer's own searcher (RAM segment + disk)
        for (kind, f, bd), got in sorted(st.get("expansions", {}).items()):
            w2 = dict(where, step=si, op=st["op"], field=f, bound=bd)
            if kind == "raised":
                ctx.violation("BufferedWriter.searcher:expansion raised", w2, "no exception", got,
                              "a prefix/range expansion through the buffered writer's searcher raised")
                return
            if kind == "walk-raised":
                # classified: the field is in the schema but no buffered document has a term in it, and the
                # RAM segment's MemTermsReader.terms_from raises instead of yielding nothing (a disk segment yields nothing)
                nobuf = got.startswith("TermNotFound: Unknown field")
                ctx.violation(SIG_MEMWALK if nobuf else "BufferedWriter.reader:lexicon walk raised", w2, "no exception", got,
                              "reader.expand_prefix/terms_from through the buffered writer's reader raised")
                if nobuf:
                    continue
                return
            if kind in ("expand_prefix", "terms_from"):
                bb = bd.encode("utf8")
                need = set()
                for key, fids in ms["spec"]:
                    fr = tables.recs[key].get(f)
                    if fr is not None and io.FID[f] in fids:
                        need.update(tb for tb, _, _ in fr["toks"]
                                    if (tb.startswith(bb) if kind == "expand_prefix" else tb >= bb))
                full = kind == "expand_prefix" or len(got) < 40
                if got != sorted(set(got)) or (full and not need <= set(got)) or any(
                        not (t.startswith(bb) if kind == "expand_prefix" else t >= bb) for t in got):
                    ctx.violation("BufferedWriter.reader:%s misses a live term / unsorted / out of range" % kind, w2,
                                  sorted(need), got, "the lexicon walk from a bound through the buffered writer's reader")
                    return
                ctx.stat("buffered:expansion:%s" % kind)
                continue
            want = io.expected_expansion(tables, ms["spec"], kind, f, bd)
            if got != want:
                ctx.violation("BufferedWriter.searcher:%s-from-bound!=committed+buffered" % kind, w2, want, got,
                              "a prefix/range/wildcard query through the buffered writer's own searcher does not match "
                              "exactly the committed + buffered documents with a term in the expansion")
                return
            ctx.stat("buffered:expansion:%s:%s" % (kind, "bound-is-live-term" if any(
                bd.encode("utf8") == tb for key, fids in ms["spec"] for tb, _, _ in
                (tables.recs[key].get(f) or {"toks": []})["toks"]) else "bound-not-a-term"))
    if reply:
        ms = reply[-1]
        if "error" not in ms:
            exp = io.expected_dump(tables, ms["spec"])
            c07._against_spec(ctx, dict(where, frontend="buffered", after="close"), tables, ms["spec"], exp, real["dump"])
    ctx.stat("frontend:buffered")
    ctx.stat("buffered:limit=%d" % b["cfg"]["limit"])


def run(ctx):
    n = ctx.budget(220, 2000)
    corpus = io.corpus_items(ID)
    ctx.stat("corpus-cases", len(corpus))
    seeds = corpus + [(ID, ctx.seed, ctx.tier, i) for i in range(n)]
    cases = ctx.pmap(_run_case, seeds, chunksize=1)
    lines, owners = [], []
    for ci, c in enumerate(cases):
        for ri, r in enumerate(c["runs"]):
            if "crash" in r:
                continue
            r["tables"] = io.WorldTables(c["world"])
            fe = r["cfg"].get("frontend", "plain")
            free = fe != "plain"
            lines.append(r["tables"].lean_request(io.concrete_sessions(r["real"], free), 0, "c07"))
            owners.append(("run", ci, ri))
            if fe == "serialmp":
                # the SerialMpWriter model (round-robin dealing, groups, _merge_subsegments) predicts the layout
                lines.append(r["tables"].lean_request(io.concrete_sessions(r["real"], False), r["cfg"]["procs"], "c18"))
                owners.append(("smp", ci, ri))
        b = c.get("buffered")
        if b and "crash" not in b:
            c["btables"] = io.WorldTables(c["world"])
            lines.append(c["btables"].lean_request(_flat_sessions(b["real"]["steps"]), 0, "c07"))
            owners.append(("buf", ci, 0))
            lines.append(c["btables"].lean_buffered_request(b["real"]["steps"], b["cfg"]["limit"], b["cfg"]["bufkind"]))
            owners.append(("bufmodel", ci, 0))
    replies = ctx.driver.ask(lines)
    rep = {}
    for o, line in zip(owners, replies):
        rep[o] = parse_sexp(line) if o[0] == "bufmodel" else io.parse_reply(line)
    for ci, c in enumerate(cases):
        ref = c["runs"][0] if c["runs"] and "real" in c["runs"][0] else None
        nt = False
        for ri, r in enumerate(c["runs"]):
            fe = r["cfg"].get("frontend", "plain")
            if "crash" in r:
                kind = r["crash"].split(":")[0]
                ctx.stat("crash:%s:%s" % (fe, kind))
                ctx.violation("%s:history raised %s" % (fe, kind), {"world": c["world"], "cfg": r["cfg"]},
                              "no exception", r["crash"] + "\n" + r.get("trace", ""), "a writer history raised")
                continue
            check_frontend_run(ctx, r, rep[("run", ci, ri)], ref)
            if ("smp", ci, ri) in rep:
                check_serialmp_model(ctx, r, rep[("smp", ci, ri)])
            if fe != "plain" and any(s["end"][0] == "commit" and any(o[0] in ("add", "upd") for o in s["concrete"])
                                     for s in r["real"]["sessions"]):
                nt = True
            ctx.case(("run", ctx.seed, ci, ri), nontrivial=fe != "plain" or r["cfg"]["storage"] != "file")
        b = c.get("buffered")
        if b:
            if "crash" in b:
                kind = b["crash"].split(":")[0]
                ctx.violation("buffered:history raised %s" % kind, {"world": c["world"], "cfg": b["cfg"]},
                              "no exception", b["crash"] + "\n" + b.get("trace", ""), "a BufferedWriter history raised")
            else:
                check_buffered(ctx, c, rep[("buf", ci, 0)])
                check_buffered_model(ctx, c, rep[("bufmodel", ci, 0)])
                ctx.case(("buf", ctx.seed, ci), nontrivial=len(b["real"]["steps"]) > 0)
        if ci < 2:
            ctx.sample({"sessions": c["world"]["sessions"][:2], "cfgs": [r["cfg"] for r in c["runs"]]})
    # a document that kills a sub-writer process
    frng = random.Random("%s:%s:mpfail" % (ID, ctx.seed))
    fparams = [io.gen_mp_failure(frng) for _ in range(2 if ctx.tier == "quick" else 8)]
    for r in ctx.pmap(_run_mpfail, fparams, chunksize=1):
        check_mp_failure(ctx, r)


def replay(ctx, rec):
    case = rec.get("case", {})
    if "mpfail" in case:
        check_mp_failure(ctx, _run_mpfail(case["mpfail"]))
        for v in ctx.violations:
            print(v["signature"], "expected:", str(v["expected"])[:500], "observed:", str(v["observed"])[:500])
        return bool(ctx.violations)
    world, cfg = case.get("world"), case.get("cfg")
    if world is None or cfg is None:
        print("no world/cfg in record")
        return False
    io.allow_children()
    base = io.new_scratch("wverif-C18-")
    try:
        if cfg.get("frontend") == "buffered":
            real = io.run_buffered(world, cfg, base, probes=PROBES)
            c = {"world": world, "buffered": {"cfg": cfg, "real": real}, "btables": io.WorldTables(world)}
            reply = io.parse_reply(ctx.driver.ask1(c["btables"].lean_request(_flat_sessions(real["steps"]), 0, "c07")))
            check_buffered(ctx, c, reply)
        else:
            real = io.run_frontend(world, cfg, base, probes=PROBES, async_decoy=cfg.get("decoy"))
            r = {"world": world, "cfg": cfg, "real": real, "tables": io.WorldTables(world)}
            free = cfg.get("frontend", "plain") != "plain"
            reply = io.parse_reply(ctx.driver.ask1(r["tables"].lean_request(io.concrete_sessions(real, free), 0, "c07")))
            check_frontend_run(ctx, r, reply, None)
    except Exception as e:  # noqa
        print("history raised: %r" % (e,))
        return True
    finally:
        shutil.rmtree(base, ignore_errors=True)
    for v in ctx.violations:
        print(v["signature"], "expected:", str(v["expected"])[:500], "observed:", str(v["observed"])[:500])
    return bool(ctx.violations)
