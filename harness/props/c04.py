"""C04 — one writer at a time; no committed update is ever lost."""
import os
import random
import re
import shutil
import tempfile
import threading
import time

from vcheck import parse_sexp
from gen import tracefs as T

ID = "C04"
LEVEL = "proof"
LEAN_IMPORTS = ["WM.Props.C04"]
THEOREMS = ["WM.C04.mutex", "WM.C04.generation", "WM.C04.no_lost_update", "WM.C04.lock_released",
            "WM.C04.trace_is_script", "WM.C04.failed_acquire_inert", "WM.C04.script_runs_to_release",
            "WM.C04.failed_init_disciplined", "WM.C04.finished_writer_not_holder",
            "WM.C04.commit_life_disciplined", "WM.C04.cancel_life_disciplined", "WM.C04.with_block_disciplined",
            "WM.C04.with_block_releases", "WM.C04.leak_deadlocks", "WM.C04.never_commits",
            "WM.C04.failing_with_block_never_commits"]
PARTIAL = {}
RULE = ("(a) storage traces of real writer lifetimes (SegmentWriter commit/cancel/failing with-block, AsyncWriter both "
        "paths, BufferedWriter restarts, MpWriter incl. a sub-writer process that dies, noticed by commit() / by the "
        "with-block's __exit__ / by add_document()) mapped to steps and checked by the Lean LockDiscipline; with-block "
        "lifetimes are also compared with the script of the Lean withBlock model; failing with-blocks around "
        "AsyncWriter (holding the lock / deferred) and BufferedWriter must leave the index unlocked; "
        "(b) a second real writer attempted at every storage-event boundary of the first (File and RAM storage, "
        "timeout 0 and >0, watchdog against blocking): one case = (storage, canonical trace prefix); non-trivial = the "
        "first writer holds the lock at that boundary; (c) random sequential schedules of coarse writer steps "
        "(open / add / commit / cancel of up to 4 writers) executed on the real index and on the Lean machine; "
        "(d) thorough: races of 2-8 threads and 2-4 processes; (e) failed constructors: SegmentWriter.__init__ is made to "
        "raise after the acquire at each of its stages (TOC unreadable, temp storage, new_segment, per_document_writer, "
        "field_writer; File and RAM storage): the logged lifetime must satisfy the Lean TraceDiscipline (ends with the "
        "release) and a second writer must then open and commit (non-trivial = the constructor raised after acquiring); "
        "(f) lock-primitive steps (FileStorage/flock): the holder's commit / cancel runs between os.open and fcntl.flock "
        "of a waiting writer's attempt 1..3 (single-threaded, count-based injection), then a third writer must be "
        "refused while the second is open, every commit must be in the index and the generation advance by one per "
        "commit (non-trivial = the release was injected).")
ASSUMPTIONS = [
    "flock / threading.Lock are exclusive; the OS releases a flock when the process dies",
    "fairness and time are not modelled: 'after the requested timeout' is checked on the real code only",
    "a writer polling for the lock is modelled as the same writer scheduled later (a failed attempt changes nothing)",
]
TRUSTED = ["harness-side tracing storage subclasses and the watchdog thread"]
MANIFEST = {
    "level_text": "Lean invariant induction over any number of writers and any interleaving of their steps: mutual "
                  "exclusion, generation = g0 + number of commits, the TOC is the initial state plus every committed "
                  "writer's changes in commit order (no lost update), lock released by every terminated writer. Per-writer "
                  "hypothesis LockDiscipline is evaluated by the Lean driver on storage traces of real writer lifetimes; "
                  "a second real writer is attempted at every storage-event boundary; coarse-step schedules are run on "
                  "the real index and on the Lean machine; threads/processes are raced in the thorough tier.",
    "level_note": "protocol-level proof; lock primitive exclusivity (flock, threading.Lock) and release on process death are "
                  "trusted; timing (timeouts) only tested.",
    "technique": "machine-checked proof in Lean 4 over an executable model + trace-predicate correspondence + schedule enumeration and races",
}

IX = T.INDEXNAME
TOCPAT = re.compile(r"^_%s_([0-9]+)\.toc$" % IX)


# ------------------------------------------------------------------------------------------------
# mapping storage events of one actor to lifetimes of TEv tokens

def lifetimes(events, actor):
    """Split the events of `actor` into writer lifetimes (each starts at an acquire)."""
    lives, cur = [], None
    for e in events:
        if e[0] != actor:
            continue
        kind = e[1]
        if kind == "acquire":
            if cur is not None:
                lives.append(cur)
            cur = ["a1" if e[3] else "a0"]
            continue
        if cur is None:
            # something before the first acquire
            cur = []
        if kind == "open" and TOCPAT.match(e[2]):
            cur.append("r")
        elif kind == "rename" and TOCPAT.match(e[3]):
            cur.append("t")
        elif kind in ("create", "write", "close", "delete", "rename", "mktmp", "rmtmp"):
            cur.append("i")
        elif kind == "release":
            cur.append("x")
        elif kind == "api":
            cur.append("(k 1)")
    if cur is not None:
        lives.append(cur)
    return lives


def compress(life):
    """collapse runs of `i` (the predicate is insensitive to their number)"""
    out = []
    for tok in life:
        if tok == "i" and out and out[-1] == "i":
            continue
        out.append(tok)
    return out


# ------------------------------------------------------------------------------------------------
# second writer attempts

def try_second(ix, tracer, timeout, watchdog=1.5, commit_key=None):
    """Open a second writer while the hook runs.  Returns (result, seconds, stuck thread).  When it
    gets the lock it cancels, or — with `commit_key` — really commits one marker document."""
    res = {}

    def attempt():
        tracer.actor = "w2"
        t0 = time.time()
        try:
            w2 = ix.writer(timeout=timeout, delay=0.01)
        except Exception as e:  # noqa
            res["r"] = T.errname(e)
            res["t"] = time.time() - t0
            return
        res["t"] = time.time() - t0
        try:
            if commit_key is not None:
                w2.add_document(k=commit_key, t=u"zulu", g=u"alfa", n=7)
                w2.commit(merge=False)
                res["r"] = "acquired"
                res["committed"] = True
            else:
                w2.cancel()
                res["r"] = "acquired"
        except Exception as e:  # noqa
            res["r"] = "acquired-then-raises:" + T.errname(e)

    th = threading.Thread(target=attempt, daemon=True)
    th.start()
    th.join(watchdog)
    if th.is_alive():
        # slow machine or really blocked?  give it a generous second chance before saying so
        th.join(12.0)
    if th.is_alive():
        return "BLOCKED", watchdog + 12.0, th
    if res.get("committed"):
        return "acquired+committed", res.get("t", 0.0), None
    return res.get("r"), res.get("t", 0.0), None


def _guard(fn, job, secs, fallback):
    """Run `fn(job)` in a daemon thread: a writer that blocks for ever on a lock (unrepaired
    RamStorage) must not hang the check."""
    box = {}

    def body():
        try:
            box["r"] = fn(job)
        except Exception as e:  # noqa
            import traceback
            box["r"] = dict(fallback, fatal="%s: %s" % (T.errname(e), str(e)[:200]), tb=traceback.format_exc()[-1500:])
    th = threading.Thread(target=body, daemon=True)
    th.start()
    th.join(secs)
    if th.is_alive():
        return dict(fallback, hung=True)
    return box["r"]


def history_job(job):
    return _guard(_history_job, job, 240, {"seed": job["seed"], "ram": job["ram"], "txns": []})


def _history_job(job):
    from whoosh import index
    rng = random.Random(job["seed"])
    ram = job["ram"]
    base = tempfile.mkdtemp(prefix="c04-", dir=job["scratch"])
    out = {"seed": job["seed"], "ram": ram, "txns": []}
    stuck = []
    try:
        if ram:
            st = T.TracingRamStorage()
            st.tmpbase = base
        else:
            d = os.path.join(base, "ix")
            os.makedirs(d)
            st = T.TracingFileStorage(d)
        tr = st.tracer
        tr.enabled = False
        index.FileIndex.create(st, T.make_schema(), IX)
        ix = index.FileIndex(st, indexname=IX)   # no schema override: the TOC's schema is used
        docs = {}
        state = {"next": 0, "live": []}
        zcount = [0]
        zall = []
        for ti in range(job["ntxn"]):
            if job.get("deadline") and time.time() > job["deadline"] and ti > 0:
                out["stopped"] = True
                break
            txn = T.gen_txn(rng, state)
            probes = []
            zdone = []
            stride = job["stride"]
            wcount = [0, 0]
            aborted = [False]

            def hook(tracer, k):
                evs = tracer.events
                while wcount[0] < len(evs):
                    if evs[wcount[0]][0] == "w":
                        wcount[1] += 1
                    wcount[0] += 1
                wk = wcount[1]
                if aborted[0]:
                    return
                holding = tracer.holders.get(IX + "_WRITELOCK") == "w"
                # always probe around acquire / TOC / release, otherwise every `stride`-th boundary
                near = wk <= 3 or (evs and evs[-1][0] == "w" and evs[-1][1] in ("rename", "release", "rmtmp", "acquire"))
                if not near and wk % stride:
                    return
                timeout = 0.0 if rng.random() < 0.8 else 0.03
                # once the first writer has (or had) the lock, a second writer that gets in really
                # commits a marker document: if that can happen before the first one is done, the
                # two commits collide (lost update / generation clash) and the final state shows it
                started = any(e[0] == "w" and e[1] == "acquire" for e in evs)
                ckey = None
                if started and rng.random() < 0.6:
                    zcount[0] += 1
                    ckey = u"z%d" % zcount[0]
                r, secs, th = try_second(ix, tracer, timeout, commit_key=ckey)
                if holding and r == "LockError" and th is None and secs > timeout + 1.0:
                    # late because the lock polling is late, or because this thread was not scheduled
                    # (loaded machine)?  The first writer still holds: measure the same attempt again
                    # and keep the faster one (a real delay shows in both)
                    r2, secs2, th2 = try_second(ix, tracer, timeout)
                    if r2 == "LockError" and th2 is None:
                        secs = min(secs, secs2)
                if r == "acquired+committed":
                    zdone.append(ckey)
                    r = "acquired"
                probes.append({"k": wk, "holding": holding, "result": r, "secs": round(secs, 3), "timeout": timeout})
                if th is not None:
                    stuck.append(th)
                    aborted[0] = True

            gen_old = ix.latest_generation()
            tr.events[:] = []
            tr.enabled = True
            tr.actor = "w"
            tr.hook = hook
            err = None
            try:
                outcome = T.run_txn(ix, txn, log=tr)
            except Exception as e:  # noqa
                outcome = "error"
                err = "%s: %s" % (T.errname(e), str(e)[:200])
            tr.finish()
            tr.hook = None
            tr.enabled = False
            events = list(tr.events)
            # let a blocked second writer (unrepaired RamStorage) finish now that the lock is free
            for th in stuck:
                th.join(5)
            docs_new = T.model_apply(docs, txn)
            r1 = ix.reader()
            keys = sorted(sf["k"] for sf in r1.all_stored_fields())
            r1.close()
            if txn["merge"] == "clear" and outcome == "commit":
                zall = []
            zall += zdone
            out["txns"].append({"txn": txn, "outcome": outcome, "error": err, "events": events, "probes": probes,
                                "gen_old": gen_old, "gen_new": ix.latest_generation(), "keys": keys,
                                "model_keys": sorted(list(docs_new) + zall), "aborted": aborted[0],
                                "zcommits": len(zdone)})
            docs = docs_new
            state["live"] = sorted(int(k[1:]) for k in docs)
            if aborted[0]:
                break
    finally:
        shutil.rmtree(base, ignore_errors=True)
    return out


# ------------------------------------------------------------------------------------------------
# front-ends: AsyncWriter, BufferedWriter, MpWriter

def frontend_job(job):
    fallback = {"seed": job["seed"], "kind": job["kind"], "ram": job["ram"], "mode": job.get("mode")}
    if job["kind"] != "mp-fail":
        return _guard(_frontend_job, job, 30, fallback)
    # the sub-writer processes of this job die with a traceback on purpose: keep it off the terminal
    saved = os.dup(2)
    null = os.open(os.devnull, os.O_WRONLY)
    try:
        os.dup2(null, 2)
        return _guard(_frontend_job, job, 60, fallback)
    finally:
        os.dup2(saved, 2)
        os.close(saved)
        os.close(null)


def _frontend_job(job):
    from whoosh import index, writing
    rng = random.Random(job["seed"])
    kind, ram = job["kind"], job["ram"]
    base = tempfile.mkdtemp(prefix="c04f-", dir=job["scratch"])
    out = {"seed": job["seed"], "kind": kind, "ram": ram}
    try:
        if ram:
            st = T.TracingRamStorage()
            st.tmpbase = base
        else:
            d = os.path.join(base, "ix")
            os.makedirs(d)
            st = T.TracingFileStorage(d)
        tr = st.tracer
        tr.enabled = False
        index.FileIndex.create(st, T.make_schema(), IX)
        ix = index.FileIndex(st, indexname=IX)   # no schema override: the TOC's schema is used
        w = ix.writer()
        w.add_document(**T.gen_doc(rng, 0))
        w.commit()
        expected = {"k0"}
        tr.enabled = True
        tr.events[:] = []
        second = []

        def probe(tag):
            r, secs, th = try_second(ix, tr, 0.0)
            second.append((tag, r))
            tr.actor = "w"
            return th

        if kind == "async-direct":
            tr.actor = "a"
            aw = writing.AsyncWriter(ix, delay=0.01)
            aw.add_document(**T.gen_doc(rng, 1))
            probe("held")
            tr.actor = "a"
            how = rng.choice(["plain", "clear", "optimize", "nomerge"])
            out["commit_how"] = how
            if how == "clear":
                aw.commit(mergetype=writing.CLEAR)
                expected.clear()
            elif how == "optimize":
                aw.commit(optimize=True)
            elif how == "nomerge":
                aw.commit(merge=False)
            else:
                aw.commit()
            expected.add("k1")
            probe("free")
        elif kind == "async-buffered":
            tracer = tr

            class TAsync(writing.AsyncWriter):
                def run(self):
                    tracer.actor = "a"
                    writing.AsyncWriter.run(self)
            tr.actor = "w"
            w1 = ix.writer()
            w1.add_document(**T.gen_doc(rng, 2))
            tr.actor = "a"
            aw = TAsync(ix, delay=0.01)
            aw.add_document(**T.gen_doc(rng, 1))
            aw.delete_by_term("k", u"k0")
            # the deferred commit must be replayed with the arguments it was called with
            how = rng.choice(["plain", "clear", "clear", "optimize", "nomerge"])
            out["commit_how"] = how
            if how == "clear":
                aw.commit(mergetype=writing.CLEAR)      # starts the polling thread
            elif how == "optimize":
                aw.commit(optimize=True)
            elif how == "nomerge":
                aw.commit(merge=False)
            else:
                aw.commit()
            time.sleep(0.05)
            tr.actor = "w"
            w1.commit(merge=False)
            aw.join(10)
            out["async_alive"] = aw.is_alive()
            if how == "clear":
                expected.clear()
                expected.add("k1")
            else:
                expected |= {"k1", "k2"}
                expected.discard("k0")
            probe("free")
        elif kind == "buffered":
            tr.actor = "b"
            bw = writing.BufferedWriter(ix, period=None, limit=3)
            probe("held")
            tr.actor = "b"
            n = rng.randint(2, 8)
            for i in range(1, n + 1):
                bw.add_document(**T.gen_doc(rng, i))
                expected.add("k%d" % i)
                if i % 2 == 0:
                    probe("held")
                    tr.actor = "b"
            bw.close()
            probe("free")
        elif kind == "with-exception":
            tr.actor = "w"
            try:
                with ix.writer() as w:
                    w.add_document(**T.gen_doc(rng, 1))
                    probe("held")
                    tr.actor = "w"
                    raise T.Boom()
            except T.Boom:
                pass
            probe("free")
        elif kind == "frontend-with-exception":
            # a failing with-block around the AsyncWriter (holding the lock, or deferred because another writer
            # holds it) and around the BufferedWriter: afterwards the index is not locked by them
            which = job.get("mode") or "async-direct"
            out["mode"] = which
            if which == "buffered":
                tr.actor = "b"
                try:
                    with writing.BufferedWriter(ix, period=None, limit=3) as bw:
                        probe("held")
                        tr.actor = "b"
                        raise T.Boom()
                except T.Boom:
                    pass
            else:
                w1 = None
                if which == "async-deferred":
                    tr.actor = "w"
                    w1 = ix.writer()
                    w1.add_document(**T.gen_doc(rng, 2))
                tr.actor = "a"
                try:
                    with writing.AsyncWriter(ix, delay=0.01) as aw:
                        aw.add_document(**T.gen_doc(rng, 1))
                        if w1 is None:
                            probe("held")
                            tr.actor = "a"
                        raise T.Boom()
                except T.Boom:
                    pass
                if w1 is not None:
                    tr.actor = "w"
                    w1.commit(merge=False)
                    expected.add("k2")
                    time.sleep(0.05)
            probe("free")
        elif kind == "with-ok":
            tr.actor = "w"
            with ix.writer() as w:
                w.add_document(**T.gen_doc(rng, 1))
                probe("held")
                tr.actor = "w"
            expected.add("k1")
            probe("free")
        elif kind == "async-late":
            # AsyncWriter created while the index is locked (so it buffers), the lock is released
            # *before* its commit(): the buffered adds / deletes must still be applied
            tr.actor = "w"
            w1 = ix.writer()
            w1.add_document(**T.gen_doc(rng, 2))
            tr.actor = "a"
            tracer = tr

            class TAsync2(writing.AsyncWriter):
                def run(self):
                    tracer.actor = "a"
                    writing.AsyncWriter.run(self)
            aw = TAsync2(ix, delay=0.01)
            aw.add_document(**T.gen_doc(rng, 1))
            aw.add_document(**T.gen_doc(rng, 3))
            aw.delete_by_term("k", u"k0")
            tr.actor = "w"
            if rng.random() < 0.5:
                w1.commit(merge=False)
                expected.add("k2")
            else:
                w1.cancel()
            tr.actor = "a"
            aw.commit()
            if aw.ident is not None:
                aw.join(10)
            out["async_alive"] = aw.is_alive()
            expected |= {"k1", "k3"}
            expected.discard("k0")
            probe("free")
        elif kind == "fork-child":
            # a child process forked while the writer is open inherits the lock file descriptor; it
            # never asked for the lock, so commit() / cancel() must still free the index
            tr.actor = "w"
            w = ix.writer()
            w.add_document(**T.gen_doc(rng, 1))
            rfd, wfd = os.pipe()
            pid = os.fork()
            if pid == 0:
                try:
                    os.close(wfd)
                    os.read(rfd, 1)
                finally:
                    os._exit(0)
            os.close(rfd)
            try:
                if rng.random() < 0.6:
                    w.commit()
                    expected.add("k1")
                else:
                    w.cancel()
                probe("free")
                # and a complete second lifetime while the child is still alive
                tr.actor = "w"
                from whoosh.index import LockError
                try:
                    w3 = ix.writer(timeout=1.0, delay=0.02)
                except LockError:
                    out["after_fork"] = "LockError"
                else:
                    w3.add_document(**T.gen_doc(rng, 4))
                    w3.commit()
                    expected.add("k4")
                    probe("free")
            finally:
                try:
                    os.write(wfd, b"x")
                    os.close(wfd)
                except OSError:
                    pass
                os.waitpid(pid, 0)
        elif kind == "waiting-writer":
            # writer B is constructed (with a timeout) while A holds the lock and gets it when A
            # has committed: B must build on A's commit
            from whoosh.index import LockError
            tr.actor = "w"
            w1 = ix.writer()
            w1.add_document(**T.gen_doc(rng, 1))
            box = {}
            tracer = tr

            def waiter():
                tracer.actor = "b"
                try:
                    w2 = ix.writer(timeout=20.0, delay=0.01)
                    w2.add_document(**T.gen_doc(rng, 2))
                    w2.commit(merge=False)
                    box["ok"] = True
                except Exception as e:  # noqa
                    box["err"] = "%s: %s" % (T.errname(e), str(e)[:120])
            th = threading.Thread(target=waiter, daemon=True)
            th.start()
            time.sleep(0.05 + rng.random() * 0.05)
            tr.actor = "w"
            w1.commit(merge=False)
            th.join(25)
            out["waiter"] = box.get("err") or ("hung" if th.is_alive() else "ok")
            expected |= {"k1", "k2"}
            out["want_gen"] = 3
            probe("free")
        elif kind == "mp":
            tr.actor = "m"
            mw = ix.writer(procs=2, batchsize=2)
            for i in range(1, 7):
                mw.add_document(**T.gen_doc(rng, i))
                expected.add("k%d" % i)
            probe("held")
            tr.actor = "m"
            mw.commit()
            probe("free")
        elif kind == "mp-fail":
            # A sub-writer process dies: a document that passes the parent's field-name check raises inside the
            # sub-process.  The failure surfaces in commit() (explicit, or the one a with-block runs in __exit__)
            # or, once the bounded job queue is full, in add_document().  Whichever way: the caller gets an
            # exception, nothing is committed, and the index is not left locked by the failed writer (which is
            # still referenced here, as it is after `with ... as w`).
            from whoosh.index import LockError
            mode = job["mode"]
            out["mode"] = mode
            tr.actor = "m"

            def bad(i):
                d = T.gen_doc(rng, i)
                d["n"] = u"not-a-number"
                return d
            raised = None
            mw = None
            try:
                if mode == "commit":
                    mw = ix.writer(procs=2, batchsize=1)
                    mw.add_document(**bad(1))
                    mw.add_document(**T.gen_doc(rng, 2))
                    probe("held")
                    tr.actor = "m"
                    mw.commit()
                elif mode == "with-commit":
                    with ix.writer(procs=2, batchsize=rng.choice([1, 2])) as mw:
                        mw.add_document(**T.gen_doc(rng, 2))
                        mw.add_document(**bad(1))
                        mw.add_document(**T.gen_doc(rng, 3))
                        probe("held")
                        tr.actor = "m"
                else:
                    with ix.writer(procs=2, batchsize=1) as mw:
                        mw.add_document(**bad(1))
                        mw.add_document(**bad(2))
                        probe("held")
                        tr.actor = "m"
                        for i in range(3, 3 + 2 * 4 + 6):
                            mw.add_document(**T.gen_doc(rng, i))
            except Exception as e:  # noqa
                raised = "%s: %s" % (T.errname(e), str(e)[:80])
            out["raised"] = raised
            if mode == "commit" and raised is not None:
                # an explicit commit() that raised: a caller may be expected to cancel() the writer; only a
                # writer that cannot be got rid of that way has dead-locked the index
                r0, _secs, _th = try_second(ix, tr, 0.0)
                if r0 == "LockError":
                    out["needed_cancel"] = True
                    tr.actor = "m"
                    try:
                        mw.cancel()
                    except Exception:  # noqa
                        pass
            probe("free")
            # a complete later lifetime on top of the failed one
            tr.actor = "w"
            try:
                w3 = ix.writer(timeout=0.5, delay=0.02)
            except LockError:
                out["later"] = "LockError"
            else:
                w3.add_document(**T.gen_doc(rng, 40))
                w3.commit()
                expected.add("k40")
                out["later"] = "ok"
                out["want_gen"] = 2
        tr.enabled = False
        r = ix.reader()
        out["keys"] = sorted(sf["k"] for sf in r.all_stored_fields())
        r.close()
        out["expected"] = sorted(expected)
        out["nsegments"] = len(ix._segments())
        out["events"] = list(tr.events)
        out["second"] = second
        out["gen"] = ix.latest_generation()
    finally:
        shutil.rmtree(base, ignore_errors=True)
    return out


# ------------------------------------------------------------------------------------------------
# coarse schedules: real index vs Lean machine

def schedule_job(job):
    return _guard(_schedule_job, job, 120, {"seed": job["seed"], "ram": job["ram"]})


def _schedule_job(job):
    """Random sequential interleaving of the API steps of up to 4 writers on one index."""
    if job.get("deadline") and time.time() > job["deadline"]:
        return {"seed": job["seed"], "ram": job["ram"], "skipped": True}
    from whoosh import index
    from whoosh.index import LockError
    rng = random.Random(job["seed"])
    ram = job["ram"]
    base = tempfile.mkdtemp(prefix="c04s-", dir=job["scratch"])
    try:
        if ram:
            st = T.TracingRamStorage()
            st.tmpbase = base
        else:
            d = os.path.join(base, "ix")
            os.makedirs(d)
            st = T.TracingFileStorage(d)
        st.tracer.enabled = False
        index.FileIndex.create(st, T.make_schema(), IX)
        ix = index.FileIndex(st, indexname=IX)   # no schema override: the TOC's schema is used
        nw = rng.randint(2, 4)
        plans = []
        for w in range(nw):
            nadds = rng.randint(0, 3)
            plans.append(["open"] + ["add"] * nadds + [rng.choice(["commit", "commit", "cancel"])])
        pcs = [0] * nw
        writers = [None] * nw
        failed = [False] * nw
        sched = []
        scripts = [[] for _ in range(nw)]
        opno = [0]
        ops_of = {}
        while any(pcs[w] < len(plans[w]) and not failed[w] for w in range(nw)):
            w = rng.choice([x for x in range(nw) if pcs[x] < len(plans[x]) and not failed[x]])
            step = plans[w][pcs[w]]
            pcs[w] += 1
            if step == "open":
                # model: tryLock, readToc (two scheduler slots, adjacent)
                if not scripts[w]:
                    scripts[w] = ["l", "r"]
                res = {}

                def attempt():
                    try:
                        res["w"] = ix.writer(timeout=0.0)
                    except LockError:
                        res["e"] = "LockError"
                    except Exception as e:  # noqa
                        res["e"] = T.errname(e)
                th = threading.Thread(target=attempt, daemon=True)
                th.start()
                th.join(1.5)
                if th.is_alive():
                    th.join(12.0)
                if th.is_alive():
                    return {"seed": job["seed"], "ram": ram, "blocked": True}
                if "w" in res:
                    writers[w] = res["w"]
                    sched += [w, w]
                else:
                    failed[w] = True
                    sched += [w]
                    if res.get("e") != "LockError":
                        return {"seed": job["seed"], "ram": ram, "open_error": res.get("e")}
            elif step == "add":
                opno[0] += 1
                key = opno[0]
                ops_of[key] = w
                writers[w].add_document(k=u"k%d" % key, t=u"alfa", g=u"alfa", n=key)
                scripts[w].append("(k %d)" % key)
                sched.append(w)
            elif step == "commit":
                writers[w].commit(merge=rng.random() < 0.5)
                scripts[w] += ["i", "t", "i", "x"]
                sched += [w, w, w, w]
            elif step == "cancel":
                writers[w].cancel()
                scripts[w] += ["i", "x"]
                sched += [w, w]
        # complete the scripts of writers that never got the lock (the model needs the whole plan)
        for w in range(nw):
            if failed[w]:
                rest = []
                for step in plans[w][1:]:
                    if step == "add":
                        rest.append("(k 9999)")
                    elif step == "commit":
                        rest += ["i", "t", "i", "x"]
                    else:
                        rest += ["i", "x"]
                scripts[w] = ["l", "r"] + rest
        r = ix.reader()
        keys = sorted(int(sf["k"][1:]) for sf in r.all_stored_fields())
        r.close()
        # is the lock free at the end?
        free = None
        res = {}

        def attempt2():
            try:
                w2 = ix.writer(timeout=0.0)
                w2.cancel()
                res["r"] = True
            except Exception as e:  # noqa
                res["r"] = T.errname(e)
        th = threading.Thread(target=attempt2, daemon=True)
        th.start()
        th.join(3.0)
        if th.is_alive():
            th.join(12.0)
        free = res.get("r", "BLOCKED")
        return {"seed": job["seed"], "ram": ram, "scripts": scripts, "sched": sched, "failed": failed,
                "gen": ix.latest_generation(), "keys": keys, "free": free, "nw": nw}
    finally:
        shutil.rmtree(base, ignore_errors=True)


# ------------------------------------------------------------------------------------------------
# thorough: races

def _race_proc(args):
    d, wid, n, timeout = args
    import sys
    from whoosh import index
    from whoosh.index import LockError
    done = []
    ix = index.open_dir(d, indexname=IX)
    for i in range(n):
        try:
            w = ix.writer(timeout=timeout, delay=0.005)
        except LockError:
            continue
        key = u"p%d_%d" % (wid, i)
        w.add_document(k=key, t=u"alfa", g=u"alfa", n=i)
        if i % 5 == 4:
            w.cancel()
        else:
            w.commit()
            done.append(key)
    return done


def race_job(job):
    from whoosh import index
    from whoosh.index import LockError
    base = tempfile.mkdtemp(prefix="c04r-", dir=job["scratch"])
    out = {"seed": job["seed"], "mode": job["mode"], "n": job["n"], "ram": job.get("ram", False)}
    try:
        if job["mode"] == "threads":
            if job.get("ram"):
                st = T.TracingRamStorage()
                st.tmpbase = base
            else:
                st = T.TracingFileStorage(os.path.join(base, "ix"))
                os.makedirs(st.folder)
            st.tracer.enabled = False
            index.FileIndex.create(st, T.make_schema(), IX)
            ix = index.FileIndex(st, indexname=IX)
            done, errors, lockerrs = [], [], [0]
            lk = threading.Lock()

            def worker(wid):
                for i in range(job["per"]):
                    try:
                        w = ix.writer(timeout=job["timeout"], delay=0.005)
                    except LockError:
                        with lk:
                            lockerrs[0] += 1
                        continue
                    except Exception as e:  # noqa
                        errors.append("%s: %s" % (T.errname(e), str(e)[:100]))
                        continue
                    try:
                        key = u"t%d_%d" % (wid, i)
                        w.add_document(k=key, t=u"alfa", g=u"alfa", n=i)
                        if i % 4 == 3:
                            w.cancel()
                        else:
                            w.commit()
                            with lk:
                                done.append(key)
                    except Exception as e:  # noqa
                        errors.append("%s: %s" % (T.errname(e), str(e)[:100]))
            ths = [threading.Thread(target=worker, args=(i,), daemon=True) for i in range(job["n"])]
            for t in ths:
                t.start()
            for t in ths:
                t.join(120)
            out["hung"] = any(t.is_alive() for t in ths)
            out["errors"] = errors[:5]
            out["lockerrors"] = lockerrs[0]
        else:
            import multiprocessing as mp
            d = os.path.join(base, "ix")
            os.makedirs(d)
            index.create_in(d, T.make_schema(), indexname=IX)
            ctxm = mp.get_context("fork")
            with ctxm.Pool(job["n"]) as pool:
                res = pool.map(_race_proc, [(d, i, job["per"], job["timeout"]) for i in range(job["n"])])
            done = [k for r in res for k in r]
            ix = index.open_dir(d, indexname=IX)
            out["hung"] = False
            out["errors"] = []
        r = ix.reader()
        out["keys"] = sorted(sf["k"] for sf in r.all_stored_fields())
        r.close()
        out["done"] = sorted(done)
        out["gen"] = ix.latest_generation()
    except Exception as e:  # noqa
        import traceback
        out["fatal"] = traceback.format_exc()[-1200:]
    finally:
        shutil.rmtree(base, ignore_errors=True)
    return out


# ------------------------------------------------------------------------------------------------

def _judge_histories(ctx, results):
    from props.c02 import canon_events
    lines, meta = [], []
    for h in results:
        sname = "ram" if h["ram"] else "file"
        if h.get("hung"):
            ctx.violation("writer-blocks-for-ever:%sStorage" % ("Ram" if h["ram"] else "File"),
                          {"seed": h["seed"], "storage": sname, "stream": "histories"}, "finishes", "hung")
            continue
        if h.get("fatal"):
            ctx.violation("harness-step-raises", {"seed": h["seed"], "storage": sname}, "runs", h["fatal"], h["tb"])
            continue
        for ti, t in enumerate(h["txns"]):
            case0 = {"seed": h["seed"], "txn": ti, "storage": sname, "spec": t["txn"]}
            ctx.stat("lifetime:%s:%s" % (sname, t["outcome"]))
            if t["error"]:
                ctx.violation("writer-transaction-raises", case0, "completes", t["error"])
                continue
            wev = [e for e in t["events"] if e[0] == "w"]
            canon = canon_events(wev)
            for p in t["probes"]:
                ctx.case(("second", sname, canon[:p["k"]], p["timeout"] > 0), nontrivial=p["holding"])
                ctx.stat("second-writer:%s:%s" % (sname, p["result"]))
                case = dict(case0, boundary=p["k"], holding=p["holding"], timeout=p["timeout"], secs=p["secs"])
                if p["result"] == "BLOCKED":
                    ctx.violation("second-writer-blocks-instead-of-LockError:%sStorage" % ("Ram" if h["ram"] else "File"),
                                  case, "LockError", "blocked > 13 s",
                                  "a second writer hangs while the first holds the index")
                elif p["holding"] and p["result"] != "LockError":
                    ctx.violation("second-writer-proceeds-while-first-holds:%s" % sname, case, "LockError", p["result"])
                elif not p["holding"] and p["result"] != "acquired":
                    ctx.violation("lock-not-free-outside-writer-lifetime:%s" % sname, case, "acquired", p["result"])
                elif p["holding"] and p["secs"] > p["timeout"] + 1.0:
                    ctx.violation("LockError-much-later-than-timeout:%s" % sname, case, p["timeout"], p["secs"])
            if not t["aborted"]:
                if t["keys"] != t["model_keys"]:
                    ctx.violation("commit-result!=dictionary-model", case0, t["model_keys"], t["keys"])
                want_gen = t["gen_old"] + (1 if t["outcome"] == "commit" else 0) + t["zcommits"]
                if t["gen_new"] != want_gen:
                    ctx.violation("generation-step", case0, want_gen, t["gen_new"])
            for actor in ("w", "w2"):
                for life in lifetimes(t["events"], actor):
                    lines.append("c04 discipline (%s)" % " ".join(compress(life)))
                    meta.append((case0, actor, life))
    return lines, meta


def _judge_frontends(ctx, results, lines, meta):
    for r in results:
        case = {"seed": r["seed"], "kind": r["kind"], "storage": "ram" if r.get("ram") else "file"}
        if r.get("hung"):
            ctx.violation("second-writer-blocks-instead-of-LockError:%sStorage" % ("Ram" if r.get("ram") else "File"),
                          dict(case, at="front-end opens while another writer holds the lock"), "LockError", "hung > 30 s",
                          "a writer front-end hangs on the index lock instead of getting LockError")
            continue
        if r.get("fatal"):
            ctx.violation("front-end-raises:" + r["kind"], case, "runs", r["fatal"], r["tb"])
            continue
        ctx.stat("frontend:" + r["kind"])
        if r["kind"] == "frontend-with-exception":
            case["mode"] = r.get("mode")
            ctx.stat("frontend:with-exception:%s" % r.get("mode"))
        if r["kind"] == "mp-fail":
            case["mode"] = r.get("mode")
            ctx.stat("frontend:mp-fail:%s:%s" % (r.get("mode"), (r.get("raised") or "no-exception").split(":")[0]))
            if r.get("needed_cancel"):
                ctx.stat("frontend:mp-fail:explicit-commit-needed-cancel")
            if r.get("raised") is None:
                ctx.violation("MpWriter:dead-sub-writer-not-reported", case, "an exception", "commit returns",
                              "a sub-writer process died and the writer reported nothing")
            if r.get("later") == "LockError":
                ctx.violation("index-dead-locked-after-failed-MpWriter", case, "a new writer opens and commits",
                              "LockError", "after an MpWriter whose sub-writer process died has failed (and is still "
                                           "referenced), no writer can be opened any more")
        ctx.case(("frontend", r["kind"], r.get("mode"), case["storage"], tuple(r["expected"])), nontrivial=True)
        if r.get("after_fork"):
            ctx.violation("lock-not-released-while-a-forked-child-is-alive", case, "a new writer", r["after_fork"],
                          "a child forked while the writer was open inherited the lock descriptor; after commit()/"
                          "cancel() the index is still locked for everybody else")
        if r.get("waiter", "ok") != "ok":
            ctx.violation("waiting-writer-fails-after-the-holder-commits", case, "commits on top of the first writer",
                          r["waiter"], "a writer that waited for the lock (timeout > 0) could not commit after the "
                                       "holder committed")
        if r.get("want_gen") is not None and r["gen"] != r["want_gen"] and r.get("waiter", "ok") == "ok":
            ctx.violation("generation-step:" + ("waiting-writer" if r["kind"] == "waiting-writer" else r["kind"]), case,
                          r["want_gen"], r["gen"],
                          "the generation after the front-end's life is not the initial one plus the commits that succeeded")
        if r.get("commit_how"):
            ctx.stat("frontend:%s:commit-%s" % (r["kind"], r["commit_how"]))
            case["commit"] = r["commit_how"]
        if r["keys"] != r["expected"]:
            ctx.violation("front-end-lost-or-extra-documents:" + r["kind"], case, r["expected"], r["keys"])
        elif r.get("commit_how") == "optimize" and r["nsegments"] != 1:
            ctx.violation("front-end-commit-arguments-ignored:%s:optimize" % r["kind"], case, 1, r["nsegments"],
                          "commit(optimize=True) through the front-end left more than one segment")
        elif r.get("commit_how") == "nomerge" and r["kind"] == "async-buffered" and r["nsegments"] != 3:
            ctx.violation("front-end-commit-arguments-ignored:%s:merge=False" % r["kind"], case, 3, r["nsegments"])
        if r.get("async_alive"):
            ctx.violation("AsyncWriter-thread-never-finishes", case, "joins", "alive")
        for tag, res in r["second"]:
            want = "LockError" if tag == "held" else "acquired"
            if res == "BLOCKED":
                ctx.violation("second-writer-blocks-instead-of-LockError:%sStorage" % ("Ram" if r.get("ram") else "File"),
                              dict(case, at=tag), want, res)
            elif res != want:
                ctx.violation("front-end-lock-state:%s:%s" % (r["kind"], tag), case, want, res)
        for actor in ("w", "a", "b", "m", "w2"):
            for life in lifetimes(r["events"], actor):
                lines.append("c04 discipline (%s)" % " ".join(compress(life)))
                meta.append((case, actor, life))
        # the with-block model (Lock.withBlock): the first lifetime of the front-end's own actor has the shape of
        # the model's script for the way the block ended (runs of storage operations collapsed)
        wb = {"with-ok": ("w", 0, 0), "with-exception": ("w", 1, 0)}.get(r["kind"])
        if r["kind"] == "mp-fail" and r.get("mode") in ("with-commit", "with-add"):
            wb = ("m", 1 if r["mode"] == "with-add" else 0, 1)
        if r["kind"] == "frontend-with-exception" and r.get("mode") == "async-direct":
            wb = ("a", 1, 0)      # AsyncWriter holding the lock: IndexWriter.__exit__ -> AsyncWriter.cancel -> writer.cancel
        if wb:
            lives = lifetimes(r["events"], wb[0])
            if lives:
                for n in (0, 1):
                    for m in (0, 1):
                        lines.append("c04 withblock 0 %d %d %d %d" % (n, m, wb[1], wb[2]))
                        meta.append((case, "withblock", (lives[0], n, m)))


def _judge_discipline(ctx, lines, meta):
    answers = ctx.driver.ask(lines)
    shapes = {}
    for (case, actor, life), ans in zip(meta, answers):
        if actor == "withblock":
            real, n, m = life
            key = (case["seed"], case.get("mode"))
            ent = shapes.setdefault(key, {"case": case, "real": compress(real), "model": []})
            ent["model"].append(compress(["a1" if t == "l" else t for t in ans.strip("()").split()]))
    for ent in shapes.values():
        ok = ent["real"] in ent["model"]
        ctx.stat("withblock-shape:%s:%s" % (ent["case"]["kind"], "same" if ok else "differs"))
        ctx.case(("withblock", ent["case"]["kind"], ent["case"].get("mode"), tuple(ent["real"])), nontrivial=len(ent["real"]) > 1)
        if not ok:
            ctx.divergence("withBlock (IndexWriter.__exit__ / MpWriter._subtasks_failed)",
                           dict(ent["case"], life=ent["real"][:60]), ent["model"], ent["real"])
    for (case, actor, life), ans in zip(meta, answers):
        if actor == "withblock":
            continue
        ctx.stat("discipline:%s:%s" % (actor, ans))
        ctx.case(("discipline", tuple(compress(life))), nontrivial=len(life) > 1)
        if ans != "1":
            ctx.divergence("LockDiscipline", dict(case, actor=actor, life=compress(life)[:60]), "1", ans)


def _judge_schedules(ctx, results):
    lines, keep = [], []
    ctx.stat("schedule:planned", len(results))
    results = [r for r in results if not r.get("skipped")]
    ctx.stat("schedule:done", len(results))
    for r in results:
        if r.get("fatal"):
            ctx.violation("harness-step-raises", {"seed": r["seed"]}, "runs", r["fatal"], r["tb"])
            continue
        sname = "ram" if r["ram"] else "file"
        if r.get("blocked") or r.get("hung"):
            ctx.violation("second-writer-blocks-instead-of-LockError:%sStorage" % ("Ram" if r["ram"] else "File"),
                          {"seed": r["seed"], "storage": sname, "stream": "schedules"}, "LockError", "blocked > 13 s")
            continue
        if r.get("open_error"):
            ctx.violation("writer-open-raises-other-than-LockError", {"seed": r["seed"], "storage": sname},
                          "LockError", r["open_error"])
            continue
        lines.append("c04 exec 0 () (%s) (%s)" % (" ".join("(%s)" % " ".join(s) for s in r["scripts"]),
                                                  " ".join(map(str, r["sched"]))))
        keep.append(r)
    answers = ctx.driver.ask(lines)
    for r, ans in zip(keep, answers):
        sname = "ram" if r["ram"] else "file"
        p = parse_sexp(ans)
        holder, gen, ops, commits, failed = p[0], int(p[1]), sorted(int(x) for x in p[2]), p[3], [x == "1" for x in p[4]]
        case = {"seed": r["seed"], "storage": sname, "scripts": r["scripts"], "sched": r["sched"]}
        ctx.case(("schedule", sname, tuple(map(tuple, r["scripts"])), tuple(r["sched"])), nontrivial=any(r["failed"]))
        ctx.stat("schedule:writers", r["nw"])
        ctx.stat("schedule:lockerrors", sum(r["failed"]))
        model = {"failed": failed, "gen": gen, "keys": ops, "free": holder == "none"}
        impl = {"failed": r["failed"], "gen": r["gen"], "keys": r["keys"], "free": r["free"] is True}
        if model != impl:
            ctx.divergence("N-writer machine (coarse schedule)", case, model, impl)
        # end to end against the statement itself
        if r["gen"] != len(commits):
            ctx.violation("generation!=number-of-commits", case, len(commits), r["gen"])
        if r["free"] is not True:
            ctx.violation("lock-still-held-after-all-writers-finished:%s" % sname, case, True, r["free"])


def _judge_races(ctx, results):
    for r in results:
        case = {"seed": r["seed"], "mode": r["mode"], "n": r["n"], "ram": r["ram"]}
        if r.get("fatal"):
            ctx.violation("race-harness-raises", case, "runs", r["fatal"])
            continue
        ctx.stat("race:%s:commits" % r["mode"], len(r["done"]))
        ctx.case(("race", r["seed"]), nontrivial=len(r["done"]) > 1, n=max(1, len(r["done"])))
        if r["hung"]:
            ctx.violation("race:writers-hang", case, "all threads finish", "hung")
        if r["errors"]:
            ctx.violation("race:writer-raises", case, [], r["errors"])
        if r["keys"] != r["done"]:
            lost = sorted(set(r["done"]) - set(r["keys"]))
            extra = sorted(set(r["keys"]) - set(r["done"]))
            ctx.violation("race:lost-update" if lost else "race:uncommitted-documents-visible", case,
                          r["done"], {"lost": lost[:10], "extra": extra[:10]},
                          "final documents differ from the union of successful commits")
        if r["gen"] != len(r["done"]):
            ctx.violation("race:generation!=number-of-commits", case, len(r["done"]), r["gen"])


def _canary(ctx, scratch):
    """One second-writer attempt per storage kind before the parallel streams: when it blocks
    (unrepaired RamStorage lock) that is the violation, and the streams skip that storage instead
    of waiting for hundreds of watchdogs."""
    from whoosh import index
    blocked = set()
    for ram in (False, True):
        base = tempfile.mkdtemp(prefix="c04c-", dir=scratch)
        try:
            if ram:
                st = T.TracingRamStorage()
                st.tmpbase = base
            else:
                st = T.TracingFileStorage(os.path.join(base, "ix"))
                os.makedirs(st.folder)
            index.FileIndex.create(st, T.make_schema(), IX)
            ix = index.FileIndex(st, indexname=IX)
            w1 = ix.writer()
            r, secs, th = try_second(ix, st.tracer, 0.05, watchdog=3.0)
            ctx.case(("canary", ram), nontrivial=True)
            ctx.stat("canary:%s:%s" % ("ram" if ram else "file", r))
            w1.cancel()
            if th is not None:
                th.join(5)
            if r == "BLOCKED":
                blocked.add(ram)
                ctx.violation("second-writer-blocks-instead-of-LockError:%sStorage" % ("Ram" if ram else "File"),
                              {"seed": "canary", "storage": "ram" if ram else "file", "stream": "canary",
                               "how": "w1 = ix.writer(); ix.writer(timeout=0.05) in a second thread"},
                              "LockError", "blocked > 15 s",
                              "a second writer hangs while the first holds the index")
            elif r != "LockError":
                ctx.violation("second-writer-proceeds-while-first-holds:%s" % ("ram" if ram else "file"),
                              {"seed": "canary"}, "LockError", r)
        finally:
            shutil.rmtree(base, ignore_errors=True)
    return blocked


def _FailingCodec(stage):
    """The default codec (a subclass of its class, so the whole public codec interface is there) that raises at
    one chosen stage of SegmentWriter.__init__."""
    from whoosh.codec import default_codec
    base = type(default_codec())

    class FailingCodec(base):
        def _hit(self, name):
            if stage == name:
                raise T.Boom()

        def new_segment(self, storage, indexname):
            self._hit("new_segment")
            return base.new_segment(self, storage, indexname)

        def per_document_writer(self, storage, segment):
            self._hit("per_document_writer")
            return base.per_document_writer(self, storage, segment)

        def field_writer(self, storage, segment):
            self._hit("field_writer")
            return base.field_writer(self, storage, segment)

    return FailingCodec()


def _failed_constructors(ctx, scratch):
    """(e) of RULE.  The exception object is kept alive while the second writer is attempted, as a logging
    framework or a debugger would: the release must not depend on garbage collection."""
    from whoosh import index
    lines, meta = [], []
    for ram in (False, True):
        for stage in ("toc", "tmp", "new_segment", "per_document_writer", "field_writer"):
            base = tempfile.mkdtemp(prefix="c04f-", dir=scratch)
            case = {"seed": "failed-init", "storage": "ram" if ram else "file", "stage": stage, "stream": "failed-init"}
            try:
                if ram:
                    st = T.TracingRamStorage()
                    st.tmpbase = base
                else:
                    st = T.TracingFileStorage(os.path.join(base, "ix"))
                    os.makedirs(st.folder)
                st.tracer.enabled = False
                index.FileIndex.create(st, T.make_schema(), IX)
                ix = index.FileIndex(st, indexname=IX)
                w = ix.writer()
                w.add_document(k=u"k0", t=u"alfa", g=u"alfa", n=1)
                w.commit()
                kw = {}
                undo = None
                if stage == "toc":
                    real = ix._read_toc

                    def bad():
                        real()
                        raise T.Boom()
                    ix._read_toc = bad
                    undo = lambda: ix.__dict__.pop("_read_toc", None)
                elif stage == "tmp":
                    realt = st.temp_storage

                    def badt(name=None):
                        raise T.Boom()
                    st.temp_storage = badt
                    undo = lambda: st.__dict__.pop("temp_storage", None)
                else:
                    kw["codec"] = _FailingCodec(stage)
                st.tracer.events[:] = []
                st.tracer.enabled = True
                st.tracer.actor = "w"
                kept = None
                try:
                    ix.writer(**kw)
                    raised = False
                except T.Boom as e:
                    kept = e
                    raised = True
                st.tracer.finish()
                st.tracer.enabled = False
                if undo:
                    undo()
                events = list(st.tracer.events)
                acquired = any(e[1] == "acquire" and e[3] for e in events)
                ctx.case(("failed-init", ram, stage), nontrivial=raised and acquired)
                ctx.stat("failed-init:%s:%s" % (stage, "raised-after-acquire" if raised and acquired else "other"))
                for life in lifetimes(events, "w"):
                    lines.append("c04 discipline (%s)" % " ".join(compress(life)))
                    meta.append((case, "failed-init", life))
                # end to end: the index is not dead-locked
                try:
                    w2 = ix.writer(timeout=0.0)
                    w2.add_document(k=u"k1", t=u"bravo", g=u"alfa", n=2)
                    w2.commit()
                    ok = ix.doc_count() == 2
                    res = "ok" if ok else "doc_count=%d" % ix.doc_count()
                except Exception as e:  # noqa
                    res = "%s: %s" % (T.errname(e), str(e)[:80])
                del kept
                if res != "ok":
                    ctx.violation("lock-not-released:SegmentWriter.__init__-raises-after-acquire", case,
                                  "a later writer opens and commits", res,
                                  "the constructor failed after taking the write lock and nobody released it")
            finally:
                shutil.rmtree(base, ignore_errors=True)
    _judge_discipline(ctx, lines, meta)


# ------------------------------------------------------------------------------------------------
# (f) the lock primitive step by step.  FcntlLock.acquire is two system calls (os.open of the lock
# file, fcntl.flock on the descriptor); streams (b)-(d) only ever run another writer *between* whole
# acquires.  Here the holder's commit / cancel (= its release) runs between the two calls of a
# waiting writer's n-th polling attempt -- single-threaded and count-based (no timing): fcntl.flock
# is wrapped for the duration of the case and only delays the call, it does not change its result.

class _FlockSteps(object):
    def __init__(self):
        import fcntl
        self.fcntl = fcntl
        self.real = fcntl.flock
        self.countdown = None
        self.inject = None
        self.fired = 0
        self.attempts = 0

    def __enter__(self):
        self.fcntl.flock = self.flock
        return self

    def __exit__(self, *exc):
        self.fcntl.flock = self.real

    def arm(self, n, fn):
        """run fn() right before the n-th exclusive flock request from now on"""
        self.countdown, self.inject = n, fn

    def flock(self, fd, op):
        if op & self.fcntl.LOCK_EX:
            self.attempts += 1
            if self.countdown is not None:
                self.countdown -= 1
                if self.countdown <= 0:
                    fn, self.countdown, self.inject = self.inject, None, None
                    self.fired += 1
                    fn()
        return self.real(fd, op)


LOCK_STEP_CASES = [(polls, ending) for polls in (0, 1, 2) for ending in ("commit", "cancel")] + [(0, "hold")]


def lock_steps_job(job):
    try:
        return _lock_steps_job(job)
    except Exception as e:  # noqa
        import traceback
        return {"job": job, "fired": 0, "bad": [("harness-step-raises", "case runs", "%s: %s" % (T.errname(e), str(e)[:200]),
                                                 traceback.format_exc()[-1500:])]}


def _lock_steps_job(job):
    from whoosh import index
    from whoosh.index import LockError
    polls, ending = job["polls"], job["ending"]
    base = tempfile.mkdtemp(prefix="c04l-", dir=job["scratch"])
    bad = []
    opened = []
    try:
        st = T.TracingFileStorage(os.path.join(base, "ix"))
        os.makedirs(st.folder)
        st.tracer.enabled = False
        index.FileIndex.create(st, T.make_schema(), IX)
        ix = index.FileIndex(st, indexname=IX)
        w0 = ix.writer()
        w0.add_document(k=u"k0", t=u"alfa", g=u"alfa", n=0)
        w0.commit()
        g0 = ix.latest_generation()
        want = [u"k0"]
        commits = 0

        def attempt(**kw):
            try:
                w = ix.writer(**kw)
                opened.append(w)
                return w
            except LockError:
                return None

        with _FlockSteps() as steps:
            a = ix.writer()
            opened.append(a)
            a.add_document(k=u"ka", t=u"bravo", g=u"alfa", n=1)
            a_open = [True]

            def release_a():
                if ending == "commit":
                    a.commit()
                elif ending == "cancel":
                    a.cancel()
                if ending != "hold":
                    a_open[0] = False
            # B's attempt number polls+1 has opened the lock file when A finishes
            steps.arm(polls + 1, release_a)
            if polls == 0:
                b = attempt(timeout=0.0)
            else:
                b = attempt(timeout=120.0, delay=0.001)
            fired = steps.fired
            if ending == "commit":
                want.append(u"ka")
                commits += 1
            open_now = int(a_open[0]) + int(b is not None)
            if open_now > 1:
                bad.append(("mutual-exclusion:writer-handed-out-while-the-holder-is-open", "LockError", "a writer",
                            "the holder never released"))
            if ending != "hold" and b is None:
                bad.append(("lock-steps:waiting-writer-refused-after-release", "a writer (the holder released before the "
                            "lock request)", "LockError", ""))
            # a third writer while one is open: must be refused (single attempt and polling)
            if open_now >= 1:
                for kw in ({"timeout": 0.0}, {"timeout": 0.02, "delay": 0.001}):
                    c = attempt(**kw)
                    if c is not None:
                        holder = "the waiting writer (lock requested on the file it had opened before the release)" \
                            if b is not None else "the first writer"
                        bad.append(("mutual-exclusion:third-writer-handed-out-while-a-writer-is-open",
                                    "LockError", "ix.writer(%r) returned a writer for generation %r while %s is open on "
                                    "generation %r" % (kw, c.generation, holder, (b or a).generation),
                                    "release of the holder between os.open and fcntl.flock of the waiting writer's "
                                    "attempt %d; lock file listed: %r"
                                    % (polls + 1, [n for n in os.listdir(st.folder) if "LOCK" in n])))
                        c.cancel()
                        break
            for w, keys in ((b, [u"kb"]), (a if a_open[0] else None, [u"kc", u"ka"])):
                if w is not None:
                    try:
                        w.add_document(k=keys[0], t=u"charlie", g=u"bravo", n=2)
                        w.commit()
                        want.extend(keys)
                        commits += 1
                    except Exception as e:  # noqa
                        bad.append(("lock-steps:commit-raises", "commit succeeds", "%s: %s" % (T.errname(e), str(e)[:120]), ""))
            d = attempt(timeout=0.0)
            if d is None:
                bad.append(("lock-still-held-after-all-writers-finished:lock-steps", "a writer", "LockError", ""))
            else:
                d.cancel()
        with ix.searcher() as s:
            got = sorted(sf["k"] for sf in s.reader().all_stored_fields())
        if got != sorted(want):
            bad.append(("lost-update:lock-steps", sorted(want), got, ""))
        if ix.latest_generation() != g0 + commits:
            bad.append(("generation:lock-steps", g0 + commits, ix.latest_generation(), "%d commits" % commits))
    finally:
        for w in opened:
            try:
                if not w.is_closed:
                    w.cancel()
            except Exception:
                pass
        shutil.rmtree(base, ignore_errors=True)
    return {"job": job, "fired": fired, "bad": bad}


def _lock_steps(ctx, scratch, only=None):
    try:
        import fcntl  # noqa
    except ImportError:
        ctx.note("lock-steps stream skipped: no fcntl on this platform")
        return
    cases = LOCK_STEP_CASES if only is None else [(only["polls"], only["ending"])]
    jobs = [{"polls": p, "ending": e, "scratch": scratch} for p, e in cases]
    for res in ctx.pmap(lock_steps_job, jobs):
        job = res["job"]
        ctx.case(("lock-steps", job["polls"], job["ending"]), nontrivial=res["fired"] > 0)
        ctx.stat("lock-steps:" + ("release-injected" if res["fired"] else "not-injected"))
        case = {"stream": "lock-steps", "seed": "lock-steps", "storage": "file", "polls": job["polls"],
                "ending": job["ending"]}
        for sig, expected, observed, desc in res["bad"]:
            ctx.violation(sig, case, expected, observed, desc)


BLOCKED_STORAGES = set()


def run(ctx):
    _corpus(ctx)
    with ctx.scratch() as scratch:
        BLOCKED_STORAGES.update(_canary(ctx, scratch))
        _failed_constructors(ctx, scratch)
        _lock_steps(ctx, scratch)
        _main(ctx, scratch, "main", ctx.budget(48, 160), ctx.budget(4, 6), ctx.budget(2, 1))
        if ctx.tier == "thorough":
            jobs = []
            i = 0
            for n in (2, 4, 8):
                for ram in (False, True):
                    if ram in BLOCKED_STORAGES:
                        continue
                    jobs.append({"seed": "%s:%s:race:%d" % (ID, ctx.seed, i), "mode": "threads", "n": n, "per": 12,
                                 "timeout": 2.0 if n <= 4 else 0.05, "ram": ram, "scratch": scratch})
                    i += 1
            for n in (2, 3, 4):
                jobs.append({"seed": "%s:%s:race:%d" % (ID, ctx.seed, i), "mode": "procs", "n": n, "per": 10,
                             "timeout": 3.0, "scratch": scratch})
                i += 1
            _judge_races(ctx, [race_job(j) for j in jobs[-3:]] + ctx.pmap(race_job, jobs[:-3]))
        if ctx.divergences and not ctx.violations:
            _main(ctx, scratch, "search", ctx.budget(16, 48), 4, 1)


MPFAIL_MODES = ["with-commit", "commit", "with-add"]
FWE_MODES = ["async-direct", "async-deferred", "buffered"]


def _main(ctx, scratch, stream, njobs, ntxn, stride, seeds=None):
    # wall-clock bounds (boosted budgets / loaded machine => fewer cases, not a longer run)
    quick = ctx.tier == "quick"
    dl_hist = time.time() + (30 if quick else 300)
    dl_sched = dl_hist + (20 if quick else 200)
    jobs = [{"seed": "%s:%s:%s:%d" % (ID, ctx.seed, stream, i), "ram": bool(i % 2), "ntxn": ntxn, "stride": stride,
             "scratch": scratch, "deadline": dl_hist} for i in range(njobs)]
    if seeds is not None:
        jobs = seeds
    jobs = [j for j in jobs if j["ram"] not in BLOCKED_STORAGES]
    fjobs = []
    kinds = ["async-direct", "async-buffered", "async-late", "buffered", "with-exception", "with-ok",
             "waiting-writer", "fork-child", "frontend-with-exception"]
    # the multi-process writer: its jobs fork processes themselves and therefore run one after the other in
    # this process, so the quick tier runs one healthy lifetime and one of each way a dead sub-writer surfaces
    kinds += ["mp", "mp-fail"]
    if seeds is None:
        for rep in range(ctx.budget(4, 12)):
            for kind in kinds:
                for ram in (False, True):
                    if kind in ("mp", "mp-fail", "fork-child") and ram:
                        continue
                    if ctx.tier == "quick" and (kind == "mp" and rep >= 1 or kind == "mp-fail" and rep >= len(MPFAIL_MODES)):
                        continue
                    fjobs.append({"seed": "%s:%s:%s:f:%s:%d:%d" % (ID, ctx.seed, stream, kind, rep, ram), "kind": kind,
                                  "ram": ram, "scratch": scratch,
                                  "mode": (FWE_MODES[rep % len(FWE_MODES)] if kind == "frontend-with-exception"
                                           else MPFAIL_MODES[rep % len(MPFAIL_MODES)])})
    sjobs = [] if seeds is not None else [
        {"seed": "%s:%s:%s:s:%d" % (ID, ctx.seed, stream, i), "ram": bool(i % 2), "scratch": scratch,
         "deadline": dl_sched}
        for i in range(ctx.budget(800, 8000))]
    fjobs = [j for j in fjobs if j["ram"] not in BLOCKED_STORAGES]
    sjobs = [j for j in sjobs if j["ram"] not in BLOCKED_STORAGES]
    hres = ctx.pmap(history_job, jobs)
    # the MpWriter job forks worker processes itself: run those outside the pool
    fres = ctx.pmap(frontend_job, [j for j in fjobs if j["kind"] not in ("mp", "mp-fail")]) + \
        [frontend_job(j) for j in fjobs if j["kind"] in ("mp", "mp-fail")]
    sres = ctx.pmap(schedule_job, sjobs, chunksize=4)
    ctx.stat("%s:transactions-done" % stream, sum(len(h["txns"]) for h in hres))
    cut = sum(1 for h in hres if h.get("stopped"))
    if cut:
        ctx.note("%s stream: wall-clock bound reached, %d histories cut short" % (stream, cut))
    lines, meta = _judge_histories(ctx, hres)
    _judge_frontends(ctx, fres, lines, meta)
    _judge_discipline(ctx, lines, meta)
    # A watchdog expiry ("BLOCKED"/hung) is a verdict about wall-clock time: on a saturated machine a worker can be
    # starved for longer than the watchdog.  Such a job (it is fully determined by its seed) is re-run once in
    # the parent, after the pool has drained; only what reproduces there is judged.  A real dead-lock reproduces.
    confirmed = []
    for r in sres:
        if not r.get("skipped") and (r.get("blocked") or r.get("hung") or r.get("free") == "BLOCKED"):
            ctx.stat("schedule:watchdog-verdict-rerun")
            r = schedule_job({"seed": r["seed"], "ram": r["ram"], "scratch": scratch})
        confirmed.append(r)
    sres = confirmed
    _judge_schedules(ctx, sres)
    for h in hres[:3]:
        if h["txns"]:
            ctx.sample({"seed": h["seed"], "storage": "ram" if h["ram"] else "file",
                        "probes": [(p["k"], p["holding"], p["result"]) for p in h["txns"][0]["probes"]][:8]}, cap=4)


def _corpus(ctx):
    import json
    root = os.path.dirname(os.path.dirname(os.path.dirname(os.path.abspath(__file__))))
    cdir = os.path.join(root, "corpus", ID)
    if not os.path.isdir(cdir):
        return
    with ctx.scratch() as scratch:
        for n in sorted(os.listdir(cdir)):
            if n.endswith(".json"):
                ctx.stat("corpus-replayed")
                _replay_case(ctx, json.load(open(os.path.join(cdir, n))), scratch)


def _replay_case(ctx, rec, scratch):
    case = rec.get("case", rec)
    if "seed" not in case:
        return False
    before = len(ctx.violations) + len(ctx.divergences)
    if case.get("stream") == "failed-init":
        _failed_constructors(ctx, scratch)
    elif case.get("stream") == "lock-steps":
        _lock_steps(ctx, scratch, only=case)
    elif case.get("stream") == "schedules" or "sched" in case:
        _judge_schedules(ctx, [schedule_job({"seed": case["seed"], "ram": case.get("storage") == "ram", "scratch": scratch})])
    elif "kind" in case:
        lines, meta = [], []
        _judge_frontends(ctx, [frontend_job({"seed": case["seed"], "kind": case["kind"], "mode": case.get("mode"),
                                             "ram": case.get("storage") == "ram", "scratch": scratch})], lines, meta)
        _judge_discipline(ctx, lines, meta)
    else:
        job = {"seed": case["seed"], "ram": case.get("storage") == "ram", "ntxn": case.get("txn", 0) + 1, "stride": 1,
               "scratch": scratch}
        _main(ctx, scratch, "replay", 0, 0, 1, seeds=[job])
    return len(ctx.violations) + len(ctx.divergences) > before


def replay(ctx, rec):
    with ctx.scratch() as scratch:
        hit = _replay_case(ctx, rec, scratch)
    for v in ctx.violations:
        print("expected:", v["expected"], "observed:", v["observed"], v["signature"])
    for dv in ctx.divergences[:3]:
        print("divergence:", dv["component"], dv["model"], dv["impl"])
    want = rec.get("signature")
    if want:
        return any(v["signature"] == want for v in ctx.violations)
    return hit
