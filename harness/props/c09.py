"""C09 — scores are the documented composition of the weighting model's term scores."""
from gen import search as G
from props.c01 import absorb, corpus_jobs, floor_check, interleave, replay, run_jobs  # noqa

ID = "C09"
LEVEL = "proof"
LEAN_IMPORTS = ["WM.Props.C09"]
THEOREMS = ["WM.C09.scores", "WM.C09.score_of_entry", "WM.C09.collector_independent", "WM.C09.models",
            "WM.C09.layout", "WM.C09.layout_models", "WM.C09.lengthbyte", "WM.C09.cursor_scores",
            "WM.C09.search_limit", "WM.C09.term_top_scores"]
_LIST = ("list level: about WM.Compile.compile (the (doc, score) list a per-segment matcher tree enumerates), not "
         "about the cursors' score()/block_quality()/skip_to_quality of whoosh/matching (C11/C12; Lean bridge "
         "WM.C09.cursor_scores: score() of the cursor tree after any next/skip_to/replace program is scoreOf, for "
         "the fragment CursorOK - no Phrase, numeric range, unscored array union); hypotheses PosQ/PosLeaf (boosts and leaf "
         "scores > 0) exclude ReverseWeighting, PL2/DFree where a term score is <= 0, and zero boosts - there the "
         "array union drops documents (finding ArrayUnionMatcher:document-with-non-positive-accumulated-score-"
         "is-dropped). ")
PARTIAL = {
    "WM.C09.scores": _LIST + "The leaf scorer `ls` is an arbitrary function of (document, field, term): the theorem "
                     "is instantiated for Frequency, TF_IDF and BM25F by WM.C09.models; PL2, DFree, "
                     "FunctionWeighting, MultiWeighting, ReverseWeighting and the final() hook have no Lean "
                     "formula and are compared end-to-end against reference formulas evaluated in the harness.",
    "WM.C09.score_of_entry": _LIST,
    "WM.C09.cursor_scores": "fragment CursorOK (see C01 cursor_den: term/null/Every leaves, multi-term expansions, boolean "
                            "constructors, union trees, scored array union over plain term matchers; not Phrase, "
                            "numeric ranges, the unscored array union), scored contexts, hypotheses PosQ/PosLeaf/"
                            "ValidOracle; programs of next/skip_to/replace() only (skip_to_quality and replace(q) are "
                            "C12's contract, composed for top-N by search_limit); the cursor constructors are the "
                            "matcher family's model.",
    "WM.C09.term_top_scores": "Term queries on the top searcher only (see C01 term_top: MultiMatcher over "
                              "ListMatcher-modelled posting readers); hypotheses PosQ / IndexOK (positive boost and "
                              "leaf scores); compound trees over multi leaves are compared end-to-end; tied to the "
                              "code by stepping Term.matcher(top searcher) and the model with one program, ids and "
                              "scores (stats top:*).",
    "WM.C09.collector_independent": _LIST + "'collector' = needs_current (terms=True vs plain search) x tree-shape "
                                    "oracle, the only way a collector reaches Query.matcher; top-N/limit, quality "
                                    "skipping, replace() (C05) and sorting/filtering/collapsing collectors (C14) "
                                    "are not in the statement; the ranked-result conjunct is a fact about the "
                                    "specification's rankAll.",
    "WM.C09.search_limit": _LIST + "composition of C05.topk/unlimited (the collector family's TopCollector / "
                           "UnlimitedCollector model under every schedule of drops within the C12 contract) with "
                           "scores/segments: the collector's input is the compiled per-segment lists; filter, mask, "
                           "collapse, sortedby and groupedby are not in the statement (C05.with_wrappers_partial, "
                           "C14).",
    "WM.C09.models": _LIST + "idf is an abstract positive function (whoosh: log(N/(df+1))+1 resp. "
                     "log(1+(N-df+0.5)/(df+0.5)), real-valued; the driver is handed the float idf values as "
                     "rationals); BM25F/TF_IDF/Frequency only; scores over Rat, compared with 1e-9 relative "
                     "tolerance. States that the per-segment scorers use the statistics of the whole index "
                     "(termStats idx), which the layout stream compares with the real reader's statistics.",
    "WM.C09.layout": "hypothesis NoDeletions on both layouts (with a deleted document still in a segment doc counts "
                     "and frequencies differ: Lean example in C09.lean; that a merge purges them is C06's claim); "
                     "'weighting' = any function of (termStats, stored weight, approximated field length).",
    "WM.C09.layout_models": "as layout, for the TF_IDF and BM25F leaf scorers of WM.Spec.SearchStats",
}
RULE = ("random schema/corpus/history/query tree per sub-seed (streams: exact Frequency; table = BM25F/TF_IDF/Multi, "
        "BM25F with model-wide B in {0, .5, .75, 1}, K1 in {.5, 1.2, 2} and independent per-field <field>_B in "
        "{0.0, .25, .5, .9, 1.0} for t/u/k/x; "
        "final() hook reading the stored key; other = Function/PL2/DFree/Reverse; layout = same documents, two "
        "commit/merge partitions; weak = a strong term of varying frequency as required / dominant clause with a weak "
        "compound (Or/And/DisjunctionMax of once-occurring words, boosts <= 1) as the optional one on 20-60 documents, "
        "exact under Frequency and through the Lean TF_IDF/BM25F leaves; refresh = a searcher opened after the first "
        "commits answers every query, the remaining commits follow, the searcher under test is old.refresh()); "
        "scored paths = limit=None, terms=True and limit=1|3|10 (a hit of a top-k search carries scoreOf of its "
        "document); a case = (index, query, scored path) or "
        "(segment, query, context) for the matcher stepping; exact stream: scoring.Frequency with dyadic "
        "boosts compared as rationals; tolerance stream: BM25F / TF_IDF / MultiWeighting against the reference "
        "formula from corpus statistics (1e-9 relative); non-trivial = non-empty answer that is not all live "
        "documents, or a compound over >= 2 segments; distinct = distinct (corpus seed, query, path)")
ASSUMPTIONS = [
    "theorems are about the list-level model WM.Compile.compile; the cursor implementations (whoosh/matching) are "
    "C11's claim, tied here by stepping the real matcher of every segment (both needs_current settings) in every run",
    "scores are composed in exact rationals; IEEE rounding and the float32 storage of weights are outside the "
    "model: exact stream = scoring.Frequency with dyadic boosts (floats are exact there), other models compared "
    "with relative tolerance 1e-9",
    "positive boosts and leaf scores (hypotheses PosQ/PosLeaf; the array union decides membership by score > 0): "
    "ReverseWeighting, PL2 and DFree (term scores may be <= 0) and zero boosts are outside the theorems; they are "
    "run end-to-end against the same specification (the one resulting defect is a known finding)",
    "BM25F and TF_IDF leaf scores are the Lean formulas (WM.Search.bm25fLeaf / tfidfLeaf over termStats of the "
    "whole index; only the idf values, a logarithm, are handed to the driver as a table); leaf scores of "
    "PL2/DFree/MultiWeighting/ReverseWeighting/FunctionWeighting are the documented formulas evaluated in the "
    "harness from statistics re-derived from the corpus model (doc count incl. deleted, document frequencies, "
    "length bytes); "
    "the total field length is taken from the index when it equals the sum of true lengths, of approximated "
    "lengths, or the mix a merge produces (layout independence of statistics is C06's claim)",
]
TRUSTED = [
    "Python's bisect.bisect_left (modelled as 'number of entries below x')",
]
MANIFEST = {
    "level_text": "Lean theorems over the list-level denotational model of Query.matcher(): in every scored "
                  "context, for every tree shape and Or strategy, the compiled per-segment list is exactly the "
                  "specified (doc, scoreOf) list (scores), a document's score is the same whatever the collector "
                  "and depends on that document alone (collector_independent), score() of the cursor tree after any "
                  "next/skip_to/replace program is scoreOf of the document it stands on (cursor_scores, with C11), "
                  "search(limit=k) through the TopCollector model under every drop schedule returns the k best by "
                  "scoreOf incl. a final() hook (search_limit, with C05), Frequency/TF_IDF/BM25F on global statistics "
                  "satisfy the hypotheses (models), collection statistics and hence all leaf "
                  "scores are the same for every segment layout of the same documents without deletions (layout), "
                  "and the length-byte approximation "
                  "is defined, never below the length, idempotent and monotone (lengthbyte, decide +kernel over "
                  "the 256-entry table lifted by find/takeWhile lemmas); tied to whoosh by stepping real matchers, "
                  "by search(limit=None)/terms=True against the Lean scoreOf for nine weighting models incl. a "
                  "final() hook, by indexing the same documents under two layouts (scores equal, statistics equal to "
                  "the Lean termStats), and by an exhaustive-below-2200 + boundary diff of length_to_byte/byte_to_length.",
    "level_note": "Scores over Rat; hypotheses: positive boosts/leaf scores, valid tree shapes (see PARTIAL); list "
                  "level, Lean leaf formulas for Frequency/TF_IDF/BM25F (models), the other shipped weightings "
                  "are run end-to-end only.",
    "technique": "machine-checked proof in Lean 4 over an executable model + differential correspondence check "
                 "against the implementation + end-to-end run of the public API against the Lean specification",
}
EXPLANATION = ("expected scores come from WM.Search.hits (scoreOf) evaluated by the compiled Lean driver, with "
               "leaf scores = stored weight (Frequency) or a per-document table of reference leaf scores")

# limit=k: a hit of a top-k search (TopCollector: replace(minscore), block-quality skipping) carries the same
# score as under limit=None
SCORED_PATHS = ["limit=None", "terms=True", "limit=1", "limit=3", "limit=10"]


def wspec_other(rng):
    """the remaining shipped models: FunctionWeighting, PL2, DFree, ReverseWeighting (term scores of
    the last three may be <= 0: outside the theorems' positivity hypothesis, run against the same
    specification)"""
    return rng.choice([("function",), ("pl2", 1.0), ("pl2", 2.5), ("dfree",), ("reverse", ("freq",)),
                       ("reverse", ("bm25f", 0.75, 1.2, {})), ("reverse", ("tfidf",))])


def field_bs(rng):
    """per-field B keyword arguments of BM25F (`<field>_B`) for the scorable fields a schema may have
    (unknown ones are harmless), biased to the boundary values 0.0 - which is falsy - and 1.0"""
    fb = {}
    for f in ("t", "u", "k", "x"):
        if rng.random() < 0.45:
            fb[f] = rng.choice([0.0, 0.0, 1.0, 0.25, 0.5, 0.9])
    return fb


def wspec_for(rng):
    r = rng.random()
    if r < 0.5:
        # model-wide B and per-field Bs chosen independently, so that a field's own B (0.0 included) differs
        # from the default it must override
        return ("bm25f", rng.choice([0.75, 0.75, 0.0, 1.0, 0.5]), rng.choice([1.2, 2.0, 0.5, 1.2]),
                field_bs(rng) if rng.random() < 0.7 else {})
    if r < 0.72:
        return ("tfidf",)
    return ("multi", ("bm25f", 0.75, 1.2, field_bs(rng) if rng.random() < 0.5 else {}),
            {"u": ("tfidf",), "k": ("freq",)})


def lengthbyte(ctx):
    """correspondence + end-to-end for length_to_byte / byte_to_length"""
    from whoosh.util import numeric
    table = [int(x) for x in ctx.driver.ask1("c09 table").strip("()").split()]
    real = list(numeric._length_byte_cache)
    if table != real:
        ctx.divergence("numeric._length_byte_cache", "table", table[:8], real[:8])
    ns = list(range(0, 2200)) + [t + d for t in real for d in (-1, 0, 1) if t + d >= 0] + \
        [106373, 106374, 106375, 10**6, 2**31]
    rng = ctx.rng("lengthbyte")
    ns += [rng.randint(0, 120000) for _ in range(ctx.budget(2000, 60000))]
    outs = ctx.driver.ask(["c09 l2b %d" % n for n in ns])
    apx = ctx.driver.ask(["c09 approx %d" % n for n in ns])
    prev = None
    for n, o, a in zip(ns, outs, apx):
        impl = numeric.length_to_byte(n)
        ctx.case(("l2b", n), nontrivial=10 < n < 106374)
        if str(impl) != o:
            ctx.divergence("numeric.length_to_byte", n, o, impl)
        back = numeric.byte_to_length(impl)
        if str(back) != a:
            ctx.divergence("numeric.byte_to_length", n, a, back)
        # the property itself on the real functions: defined, >= n below the end, idempotent
        if (n < 106374 and back < n) or numeric.byte_to_length(numeric.length_to_byte(back)) != back:
            ctx.violation("length_to_byte:approximation-not-idempotent-or-below-length", n, ">= n, idempotent", back)
    srt = sorted(set(ns))
    vals = [numeric.byte_to_length(numeric.length_to_byte(n)) for n in srt]
    for a, b, n in zip(vals, vals[1:], srt[1:]):
        if a > b:
            ctx.violation("length_to_byte:approximation-not-monotone", n, "monotone", [a, b])
    for b in list(range(256)) + [256, 300]:
        try:
            impl = str(numeric.byte_to_length(b))
        except IndexError:
            impl = "none"
        m = ctx.driver.ask1("c09 b2l %d" % b)
        ctx.case(("b2l", b), nontrivial=b > 10)
        if m != impl:
            ctx.divergence("numeric.byte_to_length", b, m, impl)


def run(ctx):
    lengthbyte(ctx)
    with ctx.scratch() as scratch:
        base = {"scratch": scratch, "scores": True, "corr": True, "paths": SCORED_PATHS}
        rng = ctx.rng("weightings")
        exact = [("%s:%d:x%d" % (ctx.pid, ctx.seed, i),
                  dict(base, nq=8, mode="freq", weighting=("freq",), hyp=True, plant=0.3))
                 for i in range(ctx.budget(260, 2400))]
        table = []
        for i in range(ctx.budget(150, 1500)):
            w = wspec_for(rng)
            # TF_IDF and BM25F: the Lean leaf models over the Lean statistics (mode "lean");
            # MultiWeighting: reference leaf scores computed in the harness (mode "table")
            table.append(("%s:%d:t%d" % (ctx.pid, ctx.seed, i),
                          dict(base, nq=6, mode="table" if w[0] == "multi" else "lean", weighting=w, longdocs=True)))
        # final() hook that inspects the document: needs the global doc number in every segment
        final = [("%s:%d:f%d" % (ctx.pid, ctx.seed, i),
                  dict(base, nq=5, mode="freq", weighting=("final",)))
                 for i in range(ctx.budget(70, 500))]
        # (term scores <= 0 are outside the model's exactness: where the implementation reads an array
        # union through all_ids() the stepping model differs, so only the needs_current=True matcher
        # trees — no scored array union — are stepped for those weightings)
        other = []
        for i in range(ctx.budget(110, 900)):
            w = wspec_other(rng)
            other.append(("%s:%d:o%d" % (ctx.pid, ctx.seed, i),
                          dict(base, nq=6, mode="table", weighting=w, longdocs=True,
                               # (no top-k paths where term scores may be <= 0: the array-union finding shows
                               # there as a missing document, which only the limit=None path can attribute)
                               paths=SCORED_PATHS if w[0] == "function" else SCORED_PATHS[:2],
                               corr_nc=(0, 1) if w[0] == "function" else (1,))))
        huge = [("%s:%d:huge%d" % (ctx.pid, ctx.seed, i),
                 dict(base, nq=2, mode="freq", weighting=("freq",), ndocs=2300, nseg=1, maxdepth=3, max_shrinks=2,
                      vocab_n=40, sparse_or=2))
                for i in range(ctx.budget(2, 8))]
        # top-N pruning of a weak compound optional clause (AndMaybe, and the Or that replace() turns into one):
        # exact under Frequency, TF_IDF / BM25F through the Lean leaf models
        lw = [("tfidf",), ("bm25f", 0.75, 1.2, {}), ("bm25f", 0.0, 2.0, {})]
        weak = []
        for i in range(ctx.budget(36, 300)):
            o = dict(base, nq=6, weakopt=True, ndocs=(20, 40, 60, 30)[i % 4], nseg=(1, 2, 3)[i % 3], max_shrinks=2)
            if i % 3 == 2:
                weak.append(("%s:%d:w%d" % (ctx.pid, ctx.seed, i), dict(o, mode="lean", weighting=lw[(i // 3) % 3])))
            else:
                weak.append(("%s:%d:w%d" % (ctx.pid, ctx.seed, i), dict(o, mode="freq", weighting=("freq",), hyp=True)))
        # history with a refresh: an older searcher has scored every query, further commits change the document
        # count and the document frequencies, the searcher under test is old.refresh() - the statistics of its
        # scores must be those of the generation it reads (idf-based models through the Lean leaf formulas,
        # MultiWeighting through the harness tables)
        refresh = []
        for i in range(ctx.budget(30, 240)):
            w = lw[i % 3] if i % 4 != 3 else wspec_for(rng)
            refresh.append(("%s:%d:r%d" % (ctx.pid, ctx.seed, i),
                            dict(base, nq=6, mode="table" if w[0] == "multi" else "lean", weighting=w, refresh=True,
                                 nseg=(2, 3, 4)[i % 3], max_shrinks=2)))
        # (the slow 2300-document cases are dispatched first and run beside the small ones)
        jobs = huge + corpus_jobs(ID, scratch) + interleave(weak, refresh, exact, table, final, other)
        deadline = 40 if ctx.tier == "quick" else 450
        jobs, results = run_jobs(ctx, jobs, deadline)
        # C09.layout: the same documents under two segment layouts (no deletions)
        lay = [("%s:%d:L%d" % (ctx.pid, ctx.seed, i), {"scratch": scratch,
                "weighting": rng.choice([("bm25f", 0.75, 1.2, {}), ("tfidf",), ("bm25f", 1.0, 2.0, {"t": 0.5}),
                                         ("bm25f", 0.75, 1.2, {"t": 0.0, "u": 1.0})])})
               for i in range(ctx.budget(60, 600))]
        _, lres = run_jobs(ctx, lay, deadline + (10 if ctx.tier == "quick" else 90), fn=G.layout_work)
    for (sd, o), r in zip(jobs, results):
        if "weighting" in o:
            ctx.stat("stream:%s:%s" % (o["mode"], o["weighting"][0]))
    absorb(ctx, results + lres, "Compile.compile(scores)")
    floor_check(ctx)
    ctx.sample({"seed": results[0]["seed"], "stats": results[0]["stats"]})


