"""C09 — scores are the documented composition of the weighting model's term scores."""
from gen import search as G
from props.c01 import absorb, corpus_jobs, floor_check, replay  # noqa

ID = "C09"
LEVEL = "proof"
LEAN_IMPORTS = ["WM.Props.C09"]
THEOREMS = ["WM.C09.scores", "WM.C09.score_of_entry", "WM.C09.collector_independent", "WM.C09.lengthbyte"]
PARTIAL = {}
RULE = ("random schema/corpus/history/query tree per sub-seed; a case = (index, query, scored path) or "
        "(segment, query, context) for the matcher stepping; exact stream: scoring.Frequency with dyadic "
        "boosts compared as rationals; tolerance stream: BM25F / TF_IDF / MultiWeighting against the reference "
        "formula from corpus statistics (1e-9 relative); non-trivial = non-empty answer that is not all live "
        "documents, or a compound over >= 2 segments; distinct = distinct (corpus seed, query, path)")
ASSUMPTIONS = [
    "theorems are about the list-level model WM.Compile.compile; the cursor implementations (whoosh/matching) are "
    "C11's claim, tied here by stepping the real matcher of every segment (both needs_current settings) in every run",
    "scores are composed in exact rationals; IEEE rounding and the float32 storage of weights are outside the "
    "model: exact stream = scoring.Frequency with dyadic boosts (floats are exact there), other models compared "
    "with relative tolerance 1e-9",
    "positive boosts and leaf scores (hypotheses PosQ/PosLeaf; the array union decides membership by score > 0): "
    "ReverseWeighting and zero boosts are outside the theorems; PL2/DFree/FunctionWeighting/final() are not run",
    "leaf scores of BM25F/TF_IDF/MultiWeighting are the documented formulas evaluated in the harness from "
    "statistics re-derived from the corpus model (doc count incl. deleted, document frequencies, length bytes); "
    "the total field length is taken from the index when it equals the sum of true lengths, of approximated "
    "lengths, or the mix a merge produces (layout independence of statistics is C06's claim)",
]
TRUSTED = [
    "Python's bisect.bisect_left (modelled as 'number of entries below x')",
]
MANIFEST = {
    "level_text": "Lean theorems over the list-level denotational model of Query.matcher(): in every scored "
                  "context, for every tree shape and Or strategy, the compiled per-segment list is exactly the "
                  "specified (doc, scoreOf) list (scores), a document's score is the same whatever the collector "
                  "and depends on that document alone (collector_independent), and the length-byte approximation "
                  "is defined, never below the length, idempotent and monotone (lengthbyte, decide +kernel over "
                  "the 256-entry table lifted by find/takeWhile lemmas); tied to whoosh by stepping real matchers, "
                  "by search(limit=None)/terms=True against the Lean scoreOf, and by an exhaustive-below-2200 + "
                  "boundary diff of length_to_byte/byte_to_length.",
    "level_note": "Scores over Rat; hypotheses: positive boosts/leaf scores, no empty term, valid tree shapes. "
                  "Cursor-level defects of whoosh/matching (DisjunctionMaxMatcher.score, AndMaybeMatcher.skip_to, "
                  "replace(0)) are reported as narrow findings until the matcher family's fixes are merged.",
    "technique": "machine-checked proof in Lean 4 over an executable model + differential correspondence check "
                 "against the implementation + end-to-end run of the public API against the Lean specification",
}
EXPLANATION = ("expected scores come from WM.Search.hits (scoreOf) evaluated by the compiled Lean driver, with "
               "leaf scores = stored weight (Frequency) or a per-document table of reference leaf scores")

SCORED_PATHS = ["limit=None", "terms=True"]


def wspec_for(rng):
    r = rng.random()
    if r < 0.4:
        return ("bm25f", rng.choice([0.75, 0.0, 1.0, 0.5]), rng.choice([1.2, 2.0, 0.5]),
                {"t": rng.choice([1.0, 0.25])} if rng.random() < 0.4 else {})
    if r < 0.7:
        return ("tfidf",)
    return ("multi", ("bm25f", 0.75, 1.2, {}), {"u": ("tfidf",), "k": ("freq",)})


def lengthbyte(ctx):
    """correspondence + end-to-end for length_to_byte / byte_to_length"""
    from whoosh.util import numeric
    table = [int(x) for x in ctx.driver.ask1("c09 table").strip("()").split()]
    real = list(numeric._length_byte_cache)
    if table != real:
        ctx.divergence("numeric._length_byte_cache", "table", table[:8], real[:8])
    ns = list(range(0, 2200)) + [t + d for t in real for d in (-1, 0, 1) if t + d >= 0] + \
        [106373, 106374, 106375, 10**6, 2**31]
    rng = ctx.rng("lengthbyte")
    ns += [rng.randint(0, 120000) for _ in range(ctx.budget(2000, 60000))]
    outs = ctx.driver.ask(["c09 l2b %d" % n for n in ns])
    apx = ctx.driver.ask(["c09 approx %d" % n for n in ns])
    prev = None
    for n, o, a in zip(ns, outs, apx):
        impl = numeric.length_to_byte(n)
        ctx.case(("l2b", n), nontrivial=10 < n < 106374)
        if str(impl) != o:
            ctx.divergence("numeric.length_to_byte", n, o, impl)
        back = numeric.byte_to_length(impl)
        if str(back) != a:
            ctx.divergence("numeric.byte_to_length", n, a, back)
        # the property itself on the real functions: defined, >= n below the end, idempotent
        if (n < 106374 and back < n) or numeric.byte_to_length(numeric.length_to_byte(back)) != back:
            ctx.violation("length_to_byte:approximation-not-idempotent-or-below-length", n, ">= n, idempotent", back)
    srt = sorted(set(ns))
    vals = [numeric.byte_to_length(numeric.length_to_byte(n)) for n in srt]
    for a, b, n in zip(vals, vals[1:], srt[1:]):
        if a > b:
            ctx.violation("length_to_byte:approximation-not-monotone", n, "monotone", [a, b])
    for b in list(range(256)) + [256, 300]:
        try:
            impl = str(numeric.byte_to_length(b))
        except IndexError:
            impl = "none"
        m = ctx.driver.ask1("c09 b2l %d" % b)
        ctx.case(("b2l", b), nontrivial=b > 10)
        if m != impl:
            ctx.divergence("numeric.byte_to_length", b, m, impl)


def run(ctx):
    lengthbyte(ctx)
    n = ctx.budget(70, 1400)
    with ctx.scratch() as scratch:
        jobs = corpus_jobs(ID, scratch)
        for i in range(n):
            jobs.append(("%s:%d:x%d" % (ctx.pid, ctx.seed, i),
                         {"nq": 8, "scratch": scratch, "scores": True, "corr": True, "paths": SCORED_PATHS,
                          "mode": "freq", "weighting": ("freq",), "hyp": True}))
        rng = ctx.rng("weightings")
        for i in range(ctx.budget(50, 1000)):
            jobs.append(("%s:%d:t%d" % (ctx.pid, ctx.seed, i),
                         {"nq": 6, "scratch": scratch, "scores": True, "corr": True, "paths": SCORED_PATHS,
                          "mode": "table", "weighting": wspec_for(rng), "longdocs": True}))
        results = ctx.pmap(G.work, jobs, chunksize=2)
    for (sd, o), r in zip(jobs, results):
        ctx.stat("stream:%s:%s" % (o["mode"], o["weighting"][0]))
    absorb(ctx, results, "Compile.compile(scores)")
    floor_check(ctx)
    ctx.sample({"seed": results[0]["seed"], "stats": results[0]["stats"]})


