"""C16 — the query parser accepts any input and honours the documented language."""
import sys

from vcheck import parse_sexp

ID = "C16"
LEVEL = "other"
LEAN_IMPORTS = ["WM.Props.C16"]
THEOREMS = ["WM.C16.total_filterize", "WM.C16.total", "WM.C16.total_multifield", "WM.C16.total_simple",
            "WM.C16.precedence", "WM.C16.precedence_default", "WM.C16.precedence_meaning", "WM.C16.fields",
            "WM.C16.total_query_partial", "WM.C16.gtlt_meaning", "WM.C16.wildcard_prefix_sound",
            "WM.C16.query_meaning", "WM.C16.precedence_query",
            "WM.C16.tag_total", "WM.C16.tag_lossless", "WM.C16.tag_kinds", "WM.C16.total_text",
            "WM.C16.total_text_simple"]
_TOTAL_HYP = (
    "carries two hypotheses: `hns` (the node list is flat and of the node kinds of `defaultTagged` / `simpleTagged`; "
    "`total_text` / `total_text_simple` discharge it from the model of QueryParser.tag() and of the bracket, "
    "white-space and operator taggers, leaving per-tagger hypotheses for the taggers that are real regular "
    "expressions) and `ho : leavesOk` (a leaf's own query() raises at most QueryParserError; "
    "the field types, analyzers and dateparse are explored by fuzzing only). parse()'s trailing q.normalize() and "
    "the half of the property 'searching the parsed query raises at most QueryError' have no theorem at all: "
    "end-to-end fuzzing (exploration)")
_PREC_HYP = (
    "narrower than the property text: the expression language `Expr` has words/phrases/wildcards/ranges as atoms, "
    "parentheses, NOT and the five infix operators, but no boost and no field-prefix constructor; "
    "`precedence_default` also excludes wildcard atoms (`hplain`); `fields` is about do_fieldnames in isolation and "
    "is not composed with the precedence theorems; nothing is proved about the meaning of do_boost. Expressions "
    "with field prefixes, wildcards, ranges and comparison signs are only checked end to end (documents expected by "
    "an oracle that does not use the parser)")
_TAG_HYP = (
    "the taggers whose expression is a fixed string with a one-character context (GroupPlugin brackets, "
    "WhitespacePlugin, OperatorsPlugin.OpTagger with the three shapes of the default expressions) are modelled; every "
    "other tagger (field names, phrases, ranges, boosts, wildcards, prefixes, regexes, fuzziness, comparison signs, "
    "plus/minus, functions, dates: real regular expressions) enters as a function position -> answer with the "
    "hypotheses `Forward` (match not empty), `Bounded` (match ends inside the string) and, for total_text*, "
    "`defaultTagger`/`simpleTagged` (it creates a node of its own kind). Those are not proved; on every run the "
    "table of each such tagger's real answers at every position is fed to the model and the result compared with "
    "the real tag() (nodes and character ranges)")
PARTIAL = {
    "WM.C16.tag_total": _TAG_HYP,
    "WM.C16.tag_lossless": _TAG_HYP,
    "WM.C16.tag_kinds": _TAG_HYP,
    "WM.C16.total_text": _TAG_HYP + "; and `ho : leavesOk` as in `total`; parse()'s trailing normalize() and the search "
                         "half of the property have no theorem (end-to-end fuzzing)",
    "WM.C16.total_text_simple": _TAG_HYP + "; and `ho : leavesOk` as in `total_simple`",
    "WM.C16.total": _TOTAL_HYP,
    "WM.C16.total_multifield": _TOTAL_HYP,
    "WM.C16.total_simple": _TOTAL_HYP,
    "WM.C16.precedence": _PREC_HYP,
    "WM.C16.precedence_default": _PREC_HYP,
    "WM.C16.precedence_meaning":
        "about `Node.eval`, the reading of the syntax tree; the link to the query object that the group nodes' "
        "query() builds is `query_meaning` / `precedence_query`",
    "WM.C16.query_meaning":
        "under the hypothesis that every leaf yields a (truthy) query; when a leaf yields None (a stop word) the group "
        "nodes drop it - `query_not_none` (NOT <nothing> is nothing), `query_binary_none` (`a ANDNOT <nothing>` is a, "
        "`<nothing> ANDNOT b` is b), `query_compound_none` state those cases, they are not folded into a reading. "
        "`Q.eval` is the classical reading of And/Or/DisMax/Not/AndNot/AndMaybe/Require; that the query classes' "
        "matchers implement it is C01's subject, and what parse()'s trailing normalize() does to the query is C15's",
    "WM.C16.precedence_query":
        "same hypotheses as query_meaning; parse()'s trailing normalize() is not part of the model",
    "WM.C16.fields":
        "do_fieldnames alone (one prefix, one following node or group), not composed with the other filters",
    "WM.C16.gtlt_meaning":
        "GtLtPlugin.make_range only (the six spellings -> open range); the numeric field's parse_range is not modelled "
        "(any monotone reading `num` of the text); end to end: comparison atoms in the well-formed stream",
    "WM.C16.wildcard_prefix_sound":
        "WildcardNode -> Prefix rewriting only; the Wildcard/Prefix query classes' own matching is C19/C01",
    "WM.C16.total_query_partial":
        "query() is total on `clean` trees (no marker node left, binary groups with at most two operands) given "
        "leaves that raise at most QueryParserError. `WM.C16.total`, `total_multifield`, `total_simple` discharge "
        "the `clean` hypothesis for the default plug-in set, MultifieldParser, SimpleParser and DisMaxParser (any "
        "schema, any non-binary group class); for parsers with the optional GtLt, FuzzyTerm, CopyField, "
        "FieldAlias or an added PlusMinus plug-in `clean (filterize ...)` is compared with what the real query() "
        "does on every run but not proved; the leaf layer (field types, analyzers, dateparse) is exploration",
}
RULE = ("case = (parser configuration, query string); strings are grammar-aware fuzz (tokens of the query "
        "language glued with/without blanks), mostly-well-formed expressions with random corruption, and "
        "printed well-formed trees; non-trivial = the tagged node list contains at least one node that is "
        "neither a word nor whitespace (operator, bracket, field prefix, boost, range, wildcard, ...); "
        "distinct = distinct (configuration, string)")
ASSUMPTIONS = []
TRUSTED = []


def _work(args):
    """Worker: run the real parser on a chunk of strings for one configuration."""
    name, strings, want_corr = args
    from gen import parser as G
    from whoosh.qparser.common import QueryParserError
    from whoosh.query import QueryError
    p = G.get_parser(name)
    ix = G.get_index()
    out = []
    with ix.searcher() as searcher:
        for s in strings:
            rec = {"s": s, "cfg": name}
            # --- the public API: parse, then search
            q = None
            try:
                q = p.parse(s)
                rec["parse"] = "ok"
            except QueryParserError:
                rec["parse"] = "qpe"
            except RecursionError:
                rec["parse"] = "recursion"
            except Exception as e:
                rec["parse"] = G.exc_signature(e, sys.exc_info()[2])
            if q is not None:
                try:
                    r = searcher.search(q, limit=3)
                    rec["search"] = "ok"
                    rec["nhits"] = len(r)
                except QueryError:
                    rec["search"] = "qe"
                except Exception as e:
                    rec["search"] = G.exc_signature(e, sys.exc_info()[2])
            if not want_corr:
                out.append(rec)
                continue
            # --- correspondence material: tag() output, filterize() tree, leaf queries, query()
            try:
                tagged = p.tag(s)
                nodes = list(tagged)
                pos, ok = 0, True
                for n in nodes:
                    if n.startchar != pos or n.endchar <= n.startchar:
                        ok = False
                    pos = n.endchar
                rec["lossless"] = ok and pos == len(s)
                rec["nontrivial"] = any(not isinstance(n, (G.syntax.WordNode, G.syntax.Whitespace)) for n in nodes)
                rec["tag"] = "(" + " ".join(G.s_node(n) for n in nodes) + ")"
            except G.Unsupported as e:
                rec["unsupported"] = str(e)
                out.append(rec)
                continue
            except Exception as e:
                rec["tagerr"] = G.exc_signature(e, sys.exc_info()[2])
                out.append(rec)
                continue
            tree = None
            try:
                tree = p.filterize(p.tag(s))
                rec["tree"] = "ok " + G.s_node(tree)
            except G.Unsupported as e:
                rec["unsupported"] = str(e)
                tree = None
            except Exception as e:
                rec["tree"] = "err " + G.err_name(e)
            if tree is not None:
                leaves = []
                try:
                    rec["qtree"] = G.s_node(tree, leaves)
                except G.Unsupported as e:
                    rec["unsupported"] = str(e)
                    out.append(rec)
                    continue
                lres, lrender = [], []
                for lf in leaves:
                    try:
                        lq = lf.query(p)
                        if lq is None:
                            lres.append("none")
                            lrender.append(None)
                        else:
                            lres.append("(q %d)" % bool(lq))
                            lrender.append(G.render_q(lq))
                    except Exception as e:
                        lres.append("(err %s)" % G.err_name(e))
                        lrender.append(None)
                rec["leaves"] = lres
                rec["leafr"] = lrender
                try:
                    rq = tree.query(p)
                    fin = rq if rq else G.query.NullQuery
                    rec["q"] = "ok %s %s" % (G.render_q(rq), G.render_q(fin))
                except Exception as e:
                    rec["q"] = "err " + G.err_name(e)
            out.append(rec)
    return out


def _render_leaf(r):
    return r


def _model_q_text(ans, leafr):
    """Driver answer of the `query` request -> the text `_work` produced for the real query."""
    if ans.startswith("err "):
        return ans
    sx = parse_sexp(ans[3:])

    def rend(x):
        if x == "null" or x == "none":
            return x
        if x[0] == "leaf":
            return leafr[int(x[1])]
        if x[0] == "c":
            return "(c %s (%s) %s)" % (x[1], " ".join(rend(y) for y in x[2]), x[3])
        if x[0] == "not":
            return "(not %s)" % rend(x[1])
        if x[0] == "bin":
            return "(bin %s %s %s)" % (x[1], rend(x[2]), rend(x[3]))
        raise ValueError(x)
    return "ok %s %s" % (rend(sx[0]), rend(sx[1]))


def _strings(ctx, n_fuzz, n_struct):
    from gen import parser as G
    rng = ctx.rng("strings")
    res = list(G.REGRESSION_STRINGS)
    import json
    import os
    cpath = os.path.join(os.path.dirname(os.path.dirname(os.path.dirname(os.path.abspath(__file__)))),
                         "corpus", "C16", "cases.json")
    if os.path.exists(cpath):   # minimised past failures: replayed on every configuration
        res += [c["text"] for c in json.load(open(cpath)) if c["text"] not in res]
    res += [G.gen_fuzz_string(rng) for _ in range(n_fuzz)]
    res += [G.gen_structured_string(rng) for _ in range(n_struct)]
    return res


def _signature(rec):
    pr = rec.get("parse")
    if isinstance(pr, (tuple, list)):
        return "parse:%s:%s" % (pr[0], pr[1])
    if pr == "recursion":
        return "parse:RecursionError"
    sr = rec.get("search")
    if sr is not None and not isinstance(sr, str):
        return "search:%s:%s" % (sr[0], sr[1])
    return None


def _shrink(cfg, text, sig, budget=150):
    """Greedy delta-debugging on the characters of `text`, keeping the failure signature."""
    def fails(t):
        return _signature(_work((cfg, [t], False))[0]) == sig
    n = 2
    while len(text) >= 2 and budget > 0:
        chunk = max(1, len(text) // n)
        reduced = False
        for a in range(0, len(text), chunk):
            cand = text[:a] + text[a + chunk:]
            budget -= 1
            if cand != text and fails(cand):
                text = cand
                n = max(n - 1, 2)
                reduced = True
                break
            if budget <= 0:
                break
        if not reduced:
            if chunk == 1:
                break
            n = min(n * 2, len(text))
    return text


def _totality(ctx, recs):
    """End-to-end: parse returns or raises QueryParserError; search returns or raises QueryError."""
    seen, counts = {}, {}
    for rec in recs:
        pr, sr = rec.get("parse"), rec.get("search")
        ctx.stat("parse:" + (pr if isinstance(pr, str) else pr[0]))
        if sr is not None:
            ctx.stat("search:" + (sr if isinstance(sr, str) else sr[0]))
        sig = _signature(rec)
        if sig is not None:
            counts[sig] = counts.get(sig, 0) + 1
            if sig not in seen or len(rec["s"]) < len(seen[sig]["s"]):
                seen[sig] = rec
    for sig, rec in sorted(seen.items()):
        text = _shrink(rec["cfg"], rec["s"], sig)
        ctx.stat("failing-cases:" + sig, counts[sig])
        if sig.startswith("parse:"):
            ctx.violation(sig, {"config": rec["cfg"], "text": text, "found_as": rec["s"]},
                          "Query or QueryParserError", sig.split(":", 1)[1],
                          "QueryParser.parse raised something other than QueryParserError")
        else:
            ctx.violation(sig, {"config": rec["cfg"], "text": text, "found_as": rec["s"]},
                          "Results or QueryError", sig.split(":", 1)[1],
                          "Searcher.search(parser.parse(text)) raised something other than QueryError")


def _correspondence(ctx, recs, cfgs):
    lines, meta = [], []
    for rec in recs:
        cfg = cfgs.get(rec["cfg"])
        if cfg is None:
            continue
        if "tagerr" in rec:
            ctx.violation("tag:%s:%s" % tuple(rec["tagerr"]), {"config": rec["cfg"], "text": rec["s"]},
                          "a node list", "exception", "QueryParser.tag raised")
            continue
        if "tag" not in rec:
            ctx.stat("corr-skip:" + rec.get("unsupported", "?"))
            continue
        if not rec["lossless"]:
            ctx.violation("tag:not-lossless", {"config": rec["cfg"], "text": rec["s"]}, "nodes tile the input",
                          rec["tag"], "tagged nodes do not cover the input string contiguously")
        if "tree" in rec:
            lines.append("c16 filterize %s %s" % (cfg, rec["tag"]))
            meta.append(("f", rec))
            if rec["tree"].startswith("ok ") and "q" in rec:
                lines.append("c16 clean %s" % rec["tree"][3:])
                meta.append(("c", rec))
        if "q" in rec and "qtree" in rec:
            lines.append("c16 query %s (%s)" % (rec["qtree"], " ".join(rec["leaves"])))
            meta.append(("q", rec))
    answers = ctx.driver.ask(lines)
    for (kind, rec), ans in zip(meta, answers):
        case = {"config": rec["cfg"], "text": rec["s"]}
        if ans == "bad-op":
            ctx.divergence("protocol", case, ans, rec.get("tag"))
            continue
        if kind == "c":
            # hypothesis of total_query_partial: a clean tree never makes query() raise one of the
            # structural errors; a tree that is not clean does (the model says which)
            structural = rec["q"] in ("err IndexError", "err AssertionError", "err NotImplementedError")
            ctx.stat("clean-tree:%s" % ans)
            if ans == "1" and structural:
                ctx.divergence("clean-tree-but-query-raised", case, ans, rec["q"])
            continue
        if kind == "f":
            ctx.case((rec["cfg"], rec["s"]), nontrivial=rec["nontrivial"])
            ctx.stat("filterize:" + rec["tree"].split(" ", 1)[0] + (":" + rec["tree"][4:] if rec["tree"].startswith("err") else ""))
            if ans != rec["tree"]:
                ctx.divergence("filterize", case, ans, rec["tree"])
            elif rec["nontrivial"]:
                ctx.sample({"config": rec["cfg"], "text": rec["s"], "tree": ans}, cap=4)
        else:
            try:
                got = _model_q_text(ans, rec["leafr"])
            except Exception as e:  # noqa
                got = "unrenderable %r: %s" % (e, ans)
            ctx.stat("query:" + rec["q"].split(" ", 1)[0] + (":" + rec["q"][4:] if rec["q"].startswith("err") else ""))
            if got != rec["q"]:
                ctx.divergence("query", case, got, rec["q"])


def _tag_work(args):
    """Worker: QueryParser.tag() against the model of the tag loop (lean/WM/Model/ParserTag.lean):
    the fixed-string taggers are sent structurally, the others as the table of their answers."""
    name, strings = args
    from gen import parser as G
    p = G.get_parser(name)
    out = []
    for s in strings:
        try:
            req, kinds = G.tag_request(p, s)
        except G.TaggerRaised as e:
            out.append((name, s, None, str(e), []))
            continue
        out.append((name, s, req, G.real_tagged(p, s), kinds))
    return out


def _tagstream(ctx, strings):
    from gen import parser as G
    rng = ctx.rng("tagstream")
    per = ctx.budget(150, 1000)
    short = [s for s in strings if len(s) <= 60]
    jobs = []
    for name in G.CONFIGS:
        pick = list(G.REGRESSION_STRINGS[:10]) + rng.sample(short, min(per, len(short)))
        for a in range(0, len(pick), 35):
            jobs.append((name, pick[a:a + 35]))
    rows = [r for part in ctx.pmap(_tag_work, jobs) for r in part]
    live = [r for r in rows if r[2] is not None]
    for r in rows:
        if r[2] is None:
            ctx.stat("tag:skipped-tagger-raised")
    answers = ctx.driver.ask([r[2] for r in live])
    for (name, s, _req, real, kinds), ans in zip(live, answers):
        ctx.case(("tag", name, s), nontrivial=real.count("(") > 2)
        ctx.stat("tag:" + real.split(" ", 1)[0])
        for k in set(kinds):
            ctx.stat("tag:tagger-kind:" + k)
        # which exception class the "did not move" failure has is not compared
        if ans != real and not (ans.startswith("err") and real.startswith("err")):
            ctx.divergence("tag", {"config": name, "text": s}, ans, real)


WF_CONFIGS = ["default", "or", "or-scaled", "multifield", "modelled-all", "fuzzy", "gtlt",
              "copyfield", "dateparse", "everything", "default-k", "default-p", "multifield-g"]
# configurations whose other filters leave a tree of plain words/phrases alone: the real
# filterize() tree must be the Lean `outSeq` itself
WF_PLAIN = {"default", "or", "or-scaled", "fuzzy", "gtlt", "default-k", "default-p"}


WF_RICH = {"default", "or", "or-scaled", "gtlt", "multifield", "multifield-g"}


def _wf_work(args):
    """Worker: well-formed expressions on one configuration (real tagger, real parser, real search).
    On the plain configurations (`WF_RICH`) the expressions also carry field prefixes and wildcards
    and the leaves are decided by an oracle that does not use the parser."""
    name, cases = args[0], args[1]
    want_subs = len(args) > 2 and args[2]
    from gen import parser as G
    p = G.get_parser(name)
    gk = G.gk_of_class(p.group)
    ix = G.get_index()
    rich = name in WF_RICH
    mfields = None
    for pl in p.plugins:
        if isinstance(pl, G.plugins.MultifieldPlugin):
            mfields = list(pl.fieldnames)
    thedocs = G.make_docs()
    out = []
    with ix.searcher() as searcher:
        alldocs = sorted(searcher.reader().all_doc_ids())
        leafdocs = {}

        def docs(q):
            return set(searcher.docs_for_query(q))
        for items in cases:
            text = " ".join(G.print_expr(e) for e in items)
            res = [G.resolve_fields(e) for e in items]
            plain = not any(G.has_field(e) or G.has_wild(e) for e in items)
            rec = {"cfg": name, "gk": gk, "text": text, "items": items, "res": res,
                   "sexp": "(" + " ".join(G.s_expr(e) for e in res) + ")"}
            stage = "parse"
            try:
                atoms = []
                for e in res:
                    G.expr_atoms(e, atoms)
                atoms = sorted(set(atoms), key=repr)
                leafq = {}
                for a in atoms:
                    if a not in leafdocs:
                        if rich:
                            # an atom without a field prefix is asked of the default field, or of
                            # any of the default fields of a Multifield parser
                            flds = [a[1]] if a[1] else (mfields or [p.fieldname])
                            lqs = [G.direct_leaf_query(a[0], fld) for fld in flds]
                            lq = lqs[0] if len(lqs) == 1 else G.query.Or(lqs)
                            leafdocs[a] = (lq, set(d for d in alldocs
                                                   if any(G.leaf_matches(thedocs[d], a[0], fld) for fld in flds)))
                        else:
                            stage = "parse"
                            lq = p.parse(a[0])
                            stage = "search"
                            leafdocs[a] = (lq, docs(lq))
                    leafq[a] = leafdocs[a][0]
                stage = "parse"
                if plain:
                    rec["tag"] = G.blank_op_text("(" + " ".join(G.s_node(n) for n in p.tag(text)) + ")")
                    if name in WF_PLAIN:
                        rec["tree"] = G.s_node(p.filterize(p.tag(text)))
                q1 = p.parse(text)
                stage = "search"
                rec["d1"] = sorted(docs(q1))
                stage = "parse"
                q1n = p.parse(text, normalize=False)
                stage = "search"
                rec["d1n"] = sorted(docs(q1n))
                q2 = (G.query.Or if gk == "or" else G.query.And)([G.intended_query(e, leafq, gk) for e in res])
                rec["d2"] = sorted(docs(q2))
                rec["q1"] = repr(q1)
                rec["q1n"] = repr(q1n)
                # a clause that normalize() turns into NullQuery (an empty range such as [a TO a})
                rec["nullclause"] = any(lf.normalize() is G.query.NullQuery for lf in q1n.leaves())
                # per document: which leaves match it
                per = []
                for d in alldocs:
                    per.append("(" + " ".join(G.atom_key(a[0], a[1]) for a in atoms if d in leafdocs[a][1]) + ")")
                rec["alldocs"] = alldocs
                rec["perdoc"] = "(" + " ".join(per) + ")"
                if want_subs:
                    # for classification: every sub-expression with the documents its directly
                    # built query selects
                    subs = []

                    def walk(e):
                        subs.append((e, sorted(docs(G.intended_query(e, leafq, gk)))))
                        if e[0] == "paren":
                            for x in e[1]:
                                walk(x)
                        elif e[0] == "not":
                            walk(e[1])
                        elif e[0] == "op":
                            for x in e[2]:
                                walk(x)
                    for e in res:
                        walk(e)
                    subs.append((("paren", res), rec["d2"]))   # the query as a whole
                    rec["subs"] = subs
            except G.query.QueryError:
                rec["skip"] = "QueryError"   # e.g. a phrase on a field without positions: allowed
            except Exception as e:
                rec["error"] = "%s:%s:%s" % ((stage,) + G.exc_signature(e, sys.exc_info()[2]))
            out.append(rec)
    return out


def _classify(ctx, bad):
    """Narrow signature for a semantic disagreement: the smallest sub-expression whose directly
    built whoosh query already selects other documents than its reading does."""
    from gen import parser as G
    jobs = [(rec["cfg"], [rec["items"]], True) for rec in bad]
    recs2 = [r for part in ctx.pmap(_wf_work, jobs) for r in part]
    lines, meta = [], []
    for rec, r2 in zip(bad, recs2):
        for sub, d in r2.get("subs", []):
            lines.append("c16 eval %s (%s) %s" % (rec["gk"], G.s_expr(sub), r2["perdoc"]))
            meta.append((rec, sub, d, r2["alldocs"]))
    res = {}
    for (rec, sub, d, alldocs), ans in zip(meta, ctx.driver.ask(lines)):
        exp = [x for x, b in zip(alldocs, ans.strip("()").split()) if b == "1"]
        if exp != d:
            key = id(rec)
            size = len(G.print_expr(sub))
            if key not in res or size < res[key][0]:
                res[key] = (size, sub)
    out = {}
    for rec in bad:
        if id(rec) in res:
            sub = res[id(rec)][1]
            out[id(rec)] = (_expr_class(sub), G.print_expr(sub))
    return out


def _expr_class(e):
    """Class of a minimal failing sub-expression.  Everything that contains an ANDNOT goes into one
    class (the AndNot matcher is known to be defective); otherwise the root operator and whether
    one of its direct operands is a NOT."""
    from gen import parser as G

    def has_andnot(x):
        if x[0] == "atom":
            return False
        if x[0] == "not":
            return has_andnot(x[1])
        kids = x[1] if x[0] == "paren" else x[2]
        return (x[0] == "op" and x[1] == "andnot") or any(has_andnot(k) for k in kids)
    if has_andnot(e):
        return "involves-ANDNOT"
    if e[0] == "atom":
        return "LEAF"
    if e[0] == "not":
        return "NOT"
    kids = e[1] if e[0] == "paren" else e[2]
    root = "GROUP" if e[0] == "paren" else G.OP_TEXT[e[1]]
    return root + ("+not-operand" if any(k[0] == "not" for k in kids) else "")


def _wellformed(ctx):
    """Generated well-formed expressions paired with their intended tree: the real tagger must
    produce the Lean `toksSeq`, the real filter pipeline the Lean `outSeq`, and the parsed query
    must select the documents the Lean `evalSeq` selects."""
    from gen import parser as G
    rng = ctx.rng("wellformed")
    n = ctx.budget(220, 1500)
    cases, rcases = [], []
    gcases = []
    for _ in range(n):
        cases.append([G.gen_expr(rng, 6) for _ in range(rng.choice((1, 1, 2, 2, 3)))])
        rcases.append([G.gen_expr(rng, 6, rich=rng.random() < 0.6) for _ in range(rng.choice((1, 1, 2, 2, 3)))])
        gcases.append([G.gen_expr(rng, 6 if rng.random() < 0.5 else 3, rich=True, gtlt=True)
                       for _ in range(rng.choice((1, 1, 2)))])
    # every spelling of the comparison operators on its own
    for rel in G.CMP_RELS:
        for fld in sorted(G.CMP_FIELDS):
            lo, hi, step = G.CMP_FIELDS[fld]
            v = lo + step * rng.randint(1, int((hi - lo) / step) - 1)
            gcases.append([("field", fld, ("atom", rel + (("%g" % v) if step != 1 else ("%d" % v))))])
    # ranges: every bracket combination on every kind of field on its own (dates are partial dates
    # that stand for periods), and ranges without a field prefix (asked of the default field(s))
    for fld in sorted(set(G.RANGE_FIELDS)):
        for _ in range(ctx.budget(2, 8) if fld == "d" else 1):
            base = G._range_atom(rng, fld)
            a, b = G.parse_range_atom(base[2][1])[:2]
            for sx in (False, True):
                for ex in (False, True):
                    rcases.append([("field", fld, ("atom", G.range_text(a or "", b or "", sx, ex)))])
    for _ in range(ctx.budget(6, 40)):
        w = rng.choice(G.WORDS)
        rcases.append([G._range_atom(rng, rng.choice(("t", "k")), fielded=False)])
        rcases.append([("atom", w), G._range_atom(rng, "t", fielded=False)])
        rcases.append([("op", "or", [("atom", w), G._range_atom(rng, "k", fielded=False)])])
    # ranges on the n-gram fields (self-parsing field types that leave ranges to the parser) next to
    # other clauses, under NOT, inside a field group; and without a prefix on a Multifield parser one
    # of whose default fields is an n-gram field (every unprefixed atom of these cases is a range)
    mgcases = []
    for _ in range(ctx.budget(10, 60)):
        w = rng.sample(G.WORDS, 2)
        gf = rng.choice(sorted(G.GRAM_FIELDS))
        rcases.append([("atom", w[0]), G._range_atom(rng, gf)])
        rcases.append([("op", "and", [("atom", w[0]), ("not", G._range_atom(rng, gf))])])
        rcases.append([("op", "or", [("field", "k", ("atom", w[1])), G._range_atom(rng, gf)])])
        rcases.append([("field", gf, ("paren", [("op", "or", [G._range_atom(rng, gf, fielded=False),
                                                              G._range_atom(rng, gf, fielded=False)])]))])
        mgcases.append([G._range_atom(rng, "g", fielded=False)])
        mgcases.append([("field", "t", ("atom", w[0])), G._range_atom(rng, "g", fielded=False)])
        mgcases.append([("op", "or", [("field", "k", ("atom", w[1])), G._range_atom(rng, "g", fielded=False)])])
        mgcases.append([("op", "and", [("field", "t", ("atom", w[0])), ("not", G._range_atom(rng, "g", fielded=False))])])
        mgcases.append([("field", "t", ("atom", w[0])), G._range_atom(rng, rng.choice(G.RANGE_FIELDS))])
    # an empty range under AND / NOT (normalize() makes it NullQuery: recorded finding)
    rcases.append([("op", "and", [("field", "k", ("atom", "[juliet TO juliet}")), ("field", "t", ("atom", "bravo"))])])
    # two nested text ranges on one field under AND (normalize() merges them: recorded finding)
    rcases.append([("op", "and", [("field", "k", ("atom", "{bravo TO echo}")), ("field", "k", ("atom", "{bravo TO lima}"))])])
    # field-scoping templates (inner prefix wins, a prefix reaches exactly the next node or group)
    for _ in range(ctx.budget(12, 150)):
        w = rng.sample(G.WORDS, 4)
        f1, f2 = rng.choice((("k", "t"), ("t", "k")))
        rcases.append([("field", f1, ("paren", [("atom", w[0]), ("field", f2, ("atom", w[1]))]))])
        rcases.append([("field", f1, ("atom", w[0])), ("atom", w[1])])
        rcases.append([("field", f1, ("paren", [("atom", w[0])])), ("op", "or", [("atom", w[1]), ("field", f2, ("atom", w[2]))])])
        rcases.append([("op", "and", [("field", f1, ("paren", [("op", "or", [("atom", w[0]), ("field", f2, ("atom", w[1]))]), ("atom", w[2])])),
                                      ("not", ("field", f1, ("atom", w[3])))])])
    jobs = []
    for name in WF_CONFIGS:
        cs = gcases if name == "gtlt" else mgcases if name == "multifield-g" else (rcases if name in WF_RICH else cases)
        for a in range(0, len(cs), 125):
            jobs.append((name, cs[a:a + 125]))
    recs = [r for part in ctx.pmap(_wf_work, jobs) for r in part]
    lines = []
    recs = [r for r in recs if "skip" not in r or ctx.stat("wellformed:skipped-" + r["skip"])]
    for rec in recs:
        lines.append("c16 spec %s %s" % (rec["gk"], rec["sexp"]))
        if "perdoc" in rec:
            lines.append("c16 eval %s %s %s" % (rec["gk"], rec["sexp"], rec["perdoc"]))
    answers = iter(ctx.driver.ask(lines))
    bad = []
    for rec in recs:
        spec = next(answers)
        case = {"config": rec["cfg"], "text": rec["text"]}
        if "error" in rec:
            next(answers, None) if "perdoc" in rec else None
            ctx.violation(rec["error"], case, "a query / results", rec["error"],
                          "parsing/searching a well-formed expression raised")
            continue
        ev = next(answers)
        if spec == "bad-op" or ev == "bad-op":
            ctx.divergence("protocol-spec", case, spec, rec["sexp"])
            continue
        wf, rest = spec.split(" ", 1)
        toks_end = _match_paren(rest, 0)
        toks, outtree = rest[:toks_end], rest[toks_end + 1:]
        nontrivial = any(k in rec["text"] for k in ("AND", "OR", "NOT", "REQUIRE", "("))
        ctx.case(("wf", rec["cfg"], rec["text"]), nontrivial=nontrivial)
        ctx.stat("wellformed:cases")
        if wf != "1":
            ctx.divergence("generator-not-wellformed", case, spec, rec["sexp"])
            continue
        if "tag" in rec and G.blank_op_text(toks) != rec["tag"]:
            ctx.divergence("tag-vs-spec-toks", case, toks, rec["tag"])
            continue
        ctx.stat("wellformed:" + ("plain" if "tag" in rec else "with-fields-or-wildcards"))
        rec["tree_ok"] = not ("tree" in rec and rec["tree"] != outtree)
        if not rec["tree_ok"]:
            ctx.violation("precedence:tree", case, outtree, rec["tree"],
                          "filterize(tag(text)) is not the intended tree of the well-formed expression")
        expected = [d for d, b in zip(rec["alldocs"], ev.strip("()").split()) if b == "1"]
        if expected != rec["d1"]:
            rec["expected"] = expected
            bad.append(rec)
        elif len(ctx.samples) < 6 and nontrivial:
            ctx.sample({"config": rec["cfg"], "text": rec["text"], "docs": rec["d1"]})
    # classify the disagreements (smallest first so that the reported example is readable)
    bad.sort(key=lambda r: len(r["text"]))
    classes = _classify(ctx, bad) if bad else {}
    for rec in bad:
        case = {"config": rec["cfg"], "text": rec["text"], "query": rec.get("q1"), "items": rec["items"]}
        if rec["d1n"] != rec["d2"]:
            sig = "meaning:parser"
        elif rec["d1"] != rec["d1n"]:
            # normalize() changed what the parsed query selects (C15); the known cause is a fielded
            # Every (a lone `*`) that absorbs sibling clauses of other kinds: `foxtrot AND *` becomes
            # Every('t'). Only that shape gets the known signature: the query before normalize()
            # must contain an Every
            # (or the all-stars Wildcard that normalize() turns into one) and the normalized query
            # an Every.
            import re
            q1n = rec.get("q1n") or ""
            has_every = "Every(" in q1n or re.search(r"Wildcard\('[^']*', '\*+'", q1n) is not None
            # The other known cause (C15 findings And-drops-NullQuery-clause / Not-of-NullQuery):
            # a clause that normalize() turns into NullQuery - an empty range such as
            # `k:[juliet TO juliet}` - is dropped from an And, or makes its NOT match nothing.
            # The third (C15 finding And-merges-overlapping-TermRanges): two overlapping text ranges on
            # one field under AND are merged into one range, the outer one when they are nested.
            q1 = rec.get("q1") or ""
            rng_before = re.findall(r"TermRange\('([^']*)'", q1n)
            rng_after = re.findall(r"TermRange\('([^']*)'", q1)
            merged = any(rng_before.count(f) >= 2 and rng_after.count(f) < rng_before.count(f) for f in set(rng_before))
            sig = "meaning:normalize-changes-result:" + (
                "with-Every" if has_every and "Every(" in q1
                else "with-null-clause" if rec.get("nullclause")
                else "with-merged-ranges" if merged else "other")
            case["query_before_normalize"] = rec.get("q1n")
        elif id(rec) in classes:
            shape, sub = classes[id(rec)]
            sig = "meaning:query-layer:" + shape
            case["smallest_failing_subexpression"] = sub
        else:
            sig = "meaning:query-layer:unclassified"
        ctx.stat(sig)
        ctx.violation(sig, case, rec["expected"], rec["d1"],
                      "documents selected by parse(text) differ from the reading of the expression"
                      + (" (the directly built query tree selects the same wrong set: query-layer semantics)"
                         if rec["d1n"] == rec["d2"] else ""))


def _match_paren(s, start):
    depth = 0
    for i in range(start, len(s)):
        if s[i] == "(":
            depth += 1
        elif s[i] == ")":
            depth -= 1
            if depth == 0:
                return i + 1
    raise ValueError(s)


def run(ctx):
    from gen import parser as G
    names = list(G.CONFIGS)
    G.get_index()  # built once here; the forked workers inherit it
    cfgs = {}
    for name in names:
        try:
            cfgs[name] = G.s_cfg(G.get_parser(name))
        except G.Unsupported as e:
            ctx.note("configuration %s is end-to-end only: %s" % (name, e))
    strings = _strings(ctx, ctx.budget(600, 4000), ctx.budget(450, 2500))
    jobs = []
    chunk = 100
    for name in names:
        for a in range(0, len(strings), chunk):
            jobs.append((name, strings[a:a + chunk], name in cfgs))
    import time
    t0 = time.time()
    recs = [r for part in ctx.pmap(_work, jobs) for r in part]
    t1 = time.time()
    _totality(ctx, recs)
    t2 = time.time()
    _correspondence(ctx, recs, cfgs)
    t3 = time.time()
    _wellformed(ctx)
    t4 = time.time()
    _tagstream(ctx, strings)
    t5 = time.time()
    ctx.note("timing: fuzz workers %.1fs, totality+shrinking %.1fs, correspondence %.1fs, well-formed stream %.1fs, "
             "tag stream %.1fs" % (t1 - t0, t2 - t1, t3 - t2, t4 - t3, t5 - t4))


def _tuplify(x):
    if isinstance(x, list):
        if x and x[0] in ("atom", "paren", "not", "op", "field"):
            return tuple(_tuplify(y) for y in x)
        return [_tuplify(y) for y in x]
    return x


def replay(ctx, rec):
    from gen import parser as G
    G.get_index()
    case = rec.get("case", {})
    if "items" in case:   # a well-formed expression whose documents differ from its reading
        items = [_tuplify(e) for e in case["items"]]
        r = _wf_work((case["config"], [items]))[0]
        print({k: r.get(k) for k in ("text", "d1", "d1n", "d2", "q1", "error", "skip")})
        if "perdoc" not in r:
            return "error" in r
        ans = ctx.driver.ask1("c16 eval %s %s %s" % (r["gk"], r["sexp"], r["perdoc"]))
        expected = [d for d, b in zip(r["alldocs"], ans.strip("()").split()) if b == "1"]
        print("reading selects", expected, "parse(text) selects", r["d1"])
        return expected != r["d1"]
    out = _work((case["config"], [case["text"]], False))[0]
    print(out)
    return not (out.get("parse") in ("ok", "qpe") and out.get("search", "ok") in ("ok", "qe"))


EXPLANATION = (
    "Four streams. (0) Tagging: for every configuration the priorized taggers are serialised (brackets, white space "
    "and default-shaped operator taggers structurally, the others as the table of their real match() answers at every "
    "position) and the Lean model of QueryParser.tag() must return the node list and character ranges of the real "
    "tag(). (1) Correspondence: the real tag() output of every generated string is serialised and fed to the "
    "Lean model of the filter pipeline; the model's tree must equal the real filterize() tree, the model's query() "
    "composition must equal the real query() result (leaf queries taken from the real field layer), error kinds "
    "included. (2) Totality end-to-end: every shipped configuration parses every string (Query or QueryParserError "
    "only) and the result is searched on a three-segment index over all field types (Results or QueryError only); "
    "failures are shrunk and keyed by exception type + innermost whoosh function. (3) Well-formed expressions: "
    "generated trees of the documented language are printed; the real tagger must produce the Lean `toksSeq`, the "
    "real filter pipeline the Lean `outSeq`, and the documents found by parse(text) must be the documents the Lean "
    "`evalSeq` selects, the leaves being decided by an oracle that does not use the parser: words, phrases, wildcard "
    "patterns with one or several stars (fnmatch over the stored words), comparisons in all six spellings of "
    "GtLtPlugin, and ranges with the four bracket combinations on date (partial dates = periods), numeric, text and "
    "n-gram fields (NGRAM, NGRAMWORDS with and without at='start': self-parsing field types that leave ranges to the "
    "parser; the oracle cuts the stored values into grams itself), stored values compared directly, with and without a "
    "field prefix, next to other clauses, under NOT and inside field groups, on single-field and Multifield parsers "
    "(one of them with an n-gram field among its default fields)."
)
ASSUMPTIONS = [
    "the taggers that are real regular expressions (everything but brackets, white space and the default-shaped "
    "operator expressions) match a non-empty piece of the string and create a node of their own kind (hypotheses "
    "`Forward`/`Bounded`/`defaultTagger` of tag_total/tag_lossless/total_text; their real answers at every position "
    "are fed to the model of tag() on every run, not proved); total/total_multifield still take the flat node list "
    "as hypothesis `hns`, which total_text discharges for the default plug-in set",
    "a leaf's query() raises at most QueryParserError (hypothesis `leavesOk`; explored by fuzzing every shipped field type)",
    "every leaf of a well-formed expression yields a query (hypothesis of query_meaning/precedence_query; false for "
    "stop words, whose None cases are stated separately)",
    "model mirrors qparser/default.py, plugins.py, syntax.py as far as the differential streams show (sampled, not proved)",
    "leaf layer (field.parse_query/parse_range, analyzers, dateparse grammar, tagger regular expressions) is not modelled: "
    "its totality is exploration by fuzzing",
    "the meaning theorem uses the classical reading of And/Or/Not/AndNot/AndMaybe/Require; that the matchers implement "
    "it is C01's subject (the AndNot matcher currently does not: recorded finding)",
]
TRUSTED = [
    "Python's re module (tagger expressions), str methods",
    "serialisation of syntax nodes / query trees in harness/gen/parser.py",
]

MANIFEST = {
    "level_text": "Lean theorems (no bounds) over an executable model of QueryParser.tag() with the fixed-string "
                  "taggers, of the query parser's filter pipeline and of the "
                  "group nodes' query(): (0) tag() raises nothing but its own 'did not move' exception and not even "
                  "that when every match is non-empty, its nodes' character ranges tile the string, and every node is an "
                  "interstitial word or the answer of the first matching tagger; (a) filterize is total for every configuration and every node list, every "
                  "Python index access of the mirrored code being in bounds; (b) for every well-formed expression of "
                  "the documented language (NOT > AND > OR > ANDNOT > ANDMAYBE > REQUIRE > juxtaposition, parentheses) "
                  "the pipeline builds exactly the intended tree, which selects exactly the documents its reading "
                  "selects; (c) a field prefix scopes over exactly the next node/group; (d) for the default plug-in set, "
                  "MultifieldParser, SimpleParser and DisMaxParser every flat list of taggable nodes yields a tree on which "
                  "query() returns a query or raises QueryParserError (no IndexError/AssertionError/NotImplementedError); (e) on the "
                  "tree of a well-formed expression whose leaves all yield queries the group nodes' query() returns a query "
                  "object that selects exactly the documents of the reading (None cases stated separately); (f) the six "
                  "comparison spellings of GtLtPlugin denote the right half-lines and a wildcard is only rewritten to a prefix "
                  "query when both select the same words. Tied to the code on every run by a differential correspondence "
                  "check on the real tag()/filterize()/query(), plus grammar-aware end-to-end fuzzing of all 49 "
                  "configurations x 20 field types (parse and search) and generated well-formed expressions evaluated "
                  "against the Lean reading.",
    "level_note": "Level `other`: proof for the modelled filter pipeline; the regular expressions of the taggers, the "
                  "field types' own parsing, the analyzers and dateparse's grammar are only fuzzed (exploration). "
                  "total_query is proved for clean trees; that shipped pipelines only produce clean trees is checked at "
                  "run time, not proved. Trusted: Lean kernel + propext/Quot.sound/Classical.choice; the hand-written "
                  "model mirrors the code only as far as the differential run shows; CPython re/str.",
    "technique": "machine-checked proof in Lean 4 over an executable model + differential correspondence check + "
                 "end-to-end fuzzing with the Lean specification as oracle",
}
