"""C08 — stored values and column values come back unchanged for the right document."""
import json
import struct
import zlib

from gen import columns as G

ID = "C08"
LEVEL = "proof"
LEAN_IMPORTS = ["WM.Props.C08", "WM.Props.C08Field", "WM.Props.C08Iter", "WM.Props.C08Block"]
THEOREMS = [
    "WM.C08.varbytes_roundtrip", "WM.C08.fixedbytes_roundtrip", "WM.C08.numeric_roundtrip",
    "WM.C08.refbytes_roundtrip", "WM.C08.bit_roundtrip", "WM.C08.bit_roundtrip_cell",
    "WM.C08.pickled_roundtrip", "WM.C08.stored", "WM.C08.stored_fields", "WM.C08.list_encodings",
    "WM.C08.varbyteslist_roundtrip", "WM.C08.fixedbyteslist_roundtrip",
    "WM.C08.multi", "WM.C08.multi_value", "WM.C08.merge", "WM.C08.merge_model", "WM.C08.merge_varbytes",
    "WM.C08.fixedwidth_roundtrip", "WM.C08.fixedwidth_roundtrip_exact",
    "WM.C08.utf8_roundtrip", "WM.C08.text_field_roundtrip", "WM.C08.int_field_roundtrip",
    "WM.C08.float_field_roundtrip", "WM.C08.datetime_field_roundtrip",
    "WM.C08.varbytes_iter", "WM.C08.multi_iter", "WM.C08.fixed_iter", "WM.C08.numeric_iter",
    "WM.C08.int_sort_key_order", "WM.C08.cblock_find", "WM.C08.cblock_writer_find",
]
# theorem -> what is missing for the full statement of the property
PARTIAL = {
    "WM.C08.fixedwidth_roundtrip":
        "the right-hand side is parametrised by the writer's own `v == default` test, so for float type codes it "
        "contains the -0.0 -> 0.0 elision (-0.0 == 0.0 is taken for the default and not written): this is weaker "
        "than `returned unchanged`. The unconditional statement is fixedwidth_roundtrip_exact, whose hypothesis "
        "(an add taken for the default has the default's bytes) is false exactly for -0.0; the harness reports that "
        "case on the real code (finding NumericColumn.Writer.add:minus-zero-equals-default-and-is-elided)",
    "WM.C08.numeric_roundtrip":
        "integer type codes only; float type codes are covered by fixedwidth_roundtrip(_exact) over packed bytes "
        "with struct packing as an identity parameter",
    "WM.C08.stored_fields":
        "stored values are opaque (pickle is an identity parameter): a stored value is the object that was passed, "
        "no field conversion applies to it; the conversions of *column* values are the *_field_roundtrip theorems",
    "WM.C08.int_field_roundtrip":
        "NUMERIC(int) without decimal_places and with a scalar argument; Decimal fields (prepare_number scaling, C13 "
        "`decimal`) and list/tuple arguments (to_column_value takes x[0]) are covered by the public-API stream only",
    "WM.C08.text_field_roundtrip":
        "the default column (VarBytesColumn) and unicode arguments; a bytes argument is written as is and comes back "
        "decoded (a str, not the bytes object); RefBytes/FixedBytes/Pickle columns passed as sortable= compose with "
        "their own round-trip theorems in the same way but are not restated; BOOLEAN/IDLIST/NGRAM made sortable "
        "through set_sortable() use the same FieldType defaults and are not exercised",
    "WM.C08.datetime_field_roundtrip":
        "a document WITHOUT a date does not read as a default: the column default is 2^64-1 and from_column_value "
        "raises OverflowError (stated in the theorem; recorded finding DATETIME.from_column_value:default-out-of-"
        "datetime-range). Datetimes are (days, seconds, microseconds) since datetime.min; calendar arithmetic and "
        "tzinfo stripping are CPython's; string arguments (parsed dates) are not modelled",
    "WM.C08.float_field_roundtrip":
        "on 64-bit patterns of doubles (struct packing is an identity parameter); the acceptance test prepare_number "
        "is a hypothesis (`prepareFloat signed b = ok b`), discharged for concrete patterns in the example",
    "WM.C08.merge_model":
        "models the column copy of write_per_doc for one column of one old segment, given any reader that shows "
        "`cell` (composed with the VarBytesColumn codec in merge_varbytes); stored fields, lengths and vectors copied "
        "by the same loop, and merging with a docmap over several segments, are covered by the segs / api streams only",
    "WM.C08.multi_value":
        "__getitem__; iteration is multi_iter / varbytes_iter / fixed_iter / numeric_iter and numeric sort keys "
        "int_sort_key_order; ColumnReader.load() (list(self) or array(typecode, self)), BitColumn.__iter__/sort_key and "
        "RefBytes/Pickle/Compressed iteration are not modelled (iter == getitem == load is checked differentially on "
        "the real readers of every type)",
    "WM.C08.cblock_writer_find":
        "CompressedBlockColumn: which block random access lands in (the writer's block table is ordered and disjoint, "
        "_find_block returns the block whose range contains the document, None exactly outside every range). The "
        "value part of the round trip (every add lies in the range of the block that holds its bytes; _get_block "
        "slices the concatenation back by the length entries) is not proved: for a document with a value the row is "
        "compared with the model (cbGet) and Layer S on every run; a document without a value inside a block's range "
        "raises KeyError in the model and in the code (recorded finding), so `default for rows without a value` does "
        "not hold for this column type. zlib and the pickled block header are identity parameters; __iter__ is not "
        "modelled (recorded finding)",
    "WM.C08.bit_roundtrip":
        "one read function for both the in-memory BitSet and the OnDiskBitSet paths (the real code picks by file "
        "size); both real paths are driven by the columns stream",
}
RULE = ("column streams: strictly increasing (docnum, value) adds with gaps and trailing empty rows for every "
        "column type x storage (RAM, file mmap on/off, compound) x non-zero base position; sizes biased to the "
        "type-code thresholds (value length / total size 255|256, 65535|65536; 255|256|257 distinct values; "
        "65535|65536 in thorough), offsets cutoff {0,1,3,2^15}; non-trivial = the case has a row without a "
        "value (default must be synthesised) or crosses a threshold; distinct = distinct (column config, adds); "
        "block-structured column (CompressedBlockColumn): block sizes of 0 / a few bytes / 1 KB / 32 KB so that columns "
        "have 1, 2 and 3+ blocks, every docnum read (block starts and ends, gaps between blocks), also as a sortable "
        "field behind MultiReader over 1-4 segments with and without the column and through the column copy of an "
        "optimize; non-trivial (wrapped) = a row without a value or more than one block; "
        "field stream: NUMERIC int (bits 8..64, signed/unsigned, default None/explicit, values at the range limits), "
        "NUMERIC float (bit patterns incl. -0.0, inf, NaN, subnormals), DATETIME (min/max), TEXT/ID/KEYWORD (code points "
        "at every UTF-8 length boundary, non-BMP), utf8decode on mutated byte strings; malformed sub-stream (invalid "
        "bits/default, out-of-range values, lone surrogates): non-trivial = has a row without a value / a non-empty string; "
        "large-segment stream: 1500-3500 documents of small values through the shared 32 KB staging buffers of the "
        "per-document columns, 3-8 documents at random positions with ONE value of a buffer or more (sortable ID of exactly "
        "32767|32768|32769|32770..41768|65536+ bytes, stored value of 55K-120K characters that stays above 32 KB after zlib), "
        "file and RAM storage, half of the cases followed by a second segment and optimize")
ASSUMPTIONS = [
    "pickle, zlib and struct packing of floats round-trip (identity parameters of the model)",
    "column regions start at base position 0 in the model; the real readers are also run at non-zero base positions",
    "no Lean model of ClampedNumericColumn (marked experimental in columns.py and defective, see the recorded "
    "findings) and StructColumn beyond fixedwidth_roundtrip(_exact): harness-only. CompressedBlockColumn "
    "(experimental, recorded findings) is modelled in WM/Model/ColumnsBlock.lean (writer block splitting, _find_block, "
    "_get_block, __getitem__ incl. the KeyError) and its rows are diffed against the real column on every wrapped "
    "case; as a sortable field it goes through MultiReader / optimize in the segs stream against multiGet / "
    "mergeColumnAdds",
    "field-level value conversion: UTF-8 (strict codec semantics), NUMERIC int/float, DATETIME are modelled "
    "(WM/Model/ColumnsField.lean over WM.Numeric) and diffed against fields.py on every run; Decimal scaling, "
    "list-valued arguments and date strings are compared on opaque values by the public-API stream only",
    "reader load() and the iteration of Bit/Ref/Pickle/Compressed readers are not modelled; the columns stream compares "
    "list(reader) and reader.load() with reader[d] on every case",
]
TRUSTED = []
MANIFEST = {
    "level_text": "Lean theorems over executable byte-level mirrors of the column writers/readers of columns.py and of "
                  "the field <-> column value conversions of fields.py, tied to the code by differential runs (file "
                  "bytes and rows) on every check.",
    "level_note": "pickle/zlib/float packing are identity parameters.",
    "technique": "machine-checked proof in Lean 4 over an executable model + differential correspondence check",
}


def _hex_or_exc(v):
    if isinstance(v, Exception):
        return "!" + G.exc_name(v)
    return G.hexs(v)


# ------------------------------------------------------------------------------------------------
# stream 1: column writers/readers, model <-> real, and spec rows

def _column_of(case):
    from whoosh import columns
    t = case["type"]
    if t == "var":
        return columns.VarBytesColumn(allow_offsets=case["allow"], write_offsets_cutoff=case["cutoff"])
    if t == "fixed":
        return columns.FixedBytesColumn(case["fixedlen"], default=case["default"])
    if t == "num":
        return columns.NumericColumn(case["code"], default=case["default"])
    if t == "ref":
        return columns.RefBytesColumn(case["fixedlen"], default=case["default"])
    if t == "bit":
        return columns.BitColumn(compress_at=case["compress_at"])
    raise ValueError(t)


def _model_line(case):
    t = case["type"]
    n = case["doccount"]
    if t == "var":
        return "c08 var %d %d %d %s" % (int(case["allow"]), case["cutoff"], n, G.adds_sexp(case["adds"], G.hexs))
    if t == "fixed":
        db = case["default"] if case["default"] is not None else b"\x00" * case["fixedlen"]
        return "c08 fixed %d %s %d %s" % (case["fixedlen"], G.hexs(db), n, G.adds_sexp(case["adds"], G.hexs))
    if t == "num":
        return "c08 num %s %d %d %s" % (case["code"], case["default"], n, G.adds_sexp(case["adds"], str))
    if t == "ref":
        db = _ref_default(case)
        return "c08 ref %d %s %d %s" % (case["fixedlen"], G.hexs(db), n, G.adds_sexp(case["adds"], G.hexs))
    if t == "bit":
        return "c08 bit %d %d %s" % (case["compress_at"], n, G.adds_sexp(case["adds"], lambda b: "1" if b else "0"))


def _ref_default(case):
    if case["default"] is not None:
        return case["default"]
    return b"\x00" * case["fixedlen"] if case["fixedlen"] else b""


def _spec_line(case):
    t, n = case["type"], case["doccount"]
    if t == "num":
        return "c08 rows %d %d %s" % (case["default"], n, G.adds_sexp(case["adds"], str))
    if t == "bit":
        # the last add for a document wins only in the sense that True is sticky; adds are unique here
        return "c08 rows 0 %d %s" % (n, G.adds_sexp(case["adds"], lambda b: "1" if b else "0"))
    if t == "fixed":
        db = case["default"] if case["default"] is not None else b"\x00" * case["fixedlen"]
        return "c08 rows %s %d %s" % (G.hexs(db), n, G.adds_sexp(case["adds"], G.hexs))
    if t == "ref":
        return "c08 refrows %s %d %s" % (G.hexs(_ref_default(case)), n, G.adds_sexp(case["adds"], G.hexs))
    return "c08 rows - %d %s" % (n, G.adds_sexp(case["adds"], G.hexs))


def _real_column(arg):
    case, storage, prefix = arg
    import warnings
    warnings.simplefilter("ignore")
    try:
        res = G.run_column(_column_of(case), case["adds"], case["doccount"], storage, prefix)
    except Exception as e:  # noqa
        return "harness-exc %s: %s" % (type(e).__name__, e), None, None
    if res[0] == "err":
        return "err " + res[1], None, None
    _, raw, rows, extra = res
    t = case["type"]
    if t == "bit" and raw and raw[-1:] == b"\x01":
        raw = zlib.decompress(raw[:-1]) + b"\x01"      # zlib is an identity parameter of the model
    if isinstance(rows, str):
        return "ok %s %s" % (G.hexs(raw), rows), None, None
    if t == "num":
        shown = [("!" + G.exc_name(v)) if isinstance(v, Exception) else "%d" % v for v in rows]
    elif t == "bit":
        shown = [("!" + G.exc_name(v)) if isinstance(v, Exception) else ("1" if v else "0") for v in rows]
    else:
        shown = [_hex_or_exc(v) for v in rows]
    head = "ok %s " % G.hexs(raw)
    if t == "var":
        head += "%d " % int(bool(extra["had_stored_offsets"]))
    it = extra["iter"]
    it_ok = (not isinstance(it, Exception)) and len(it) == len(rows) and all(
        (a == b) or (isinstance(b, Exception)) for a, b in zip(it, rows))
    problem = None if it_ok else repr(it)[:200]
    ld = extra.get("load")
    if it_ok and ld is not None:
        ld_ok = (not isinstance(ld, Exception)) and len(ld) == len(rows) and all(
            (a == b) or (isinstance(b, Exception)) for a, b in zip(ld, rows))
        if not ld_ok:
            problem = "load(): " + repr(ld)[:200]
    return head + G.lst(shown), problem, _iter_text(t, extra)


def _iter_text(t, extra):
    """list(reader) — and for numeric columns sort_key plain / after set_reverse() — in the notation of
    `c08 variter` / `c08 numiter`."""
    def show(vs, f):
        if isinstance(vs, Exception):
            return "!" + G.exc_name(vs)
        return G.lst([f(v) for v in vs])
    if t == "var":
        return show(extra["iter"], G.hexs)
    if t == "num":
        return "%s %s %s" % (show(extra["iter"], lambda v: "%d" % v), show(extra["sort_keys"], lambda v: "%d" % v),
                             show(extra["rev_keys"], lambda v: "%d" % v))
    return None


def _ranks(xs):
    order = {v: k for k, v in enumerate(sorted(set(xs)))}
    return [order[x] for x in xs]


def _iter_canon(t, text):
    """Iteration rows verbatim; sort keys only through the order they induce."""
    if t != "num" or "!" in text:
        return text
    from vcheck import parse_sexp
    it, ks, rs = parse_sexp(text)
    return (tuple(it), tuple(_ranks([int(x) for x in ks])), tuple(_ranks([int(x) for x in rs])))


def _iter_line(case):
    t, n = case["type"], case["doccount"]
    if t == "var":
        return "c08 variter %d %d %d %s" % (int(case["allow"]), case["cutoff"], n, G.adds_sexp(case["adds"], G.hexs))
    if t == "num":
        return "c08 numiter %s %d %d %s" % (case["code"], case["default"], n, G.adds_sexp(case["adds"], str))
    return "ping"


def _pack(obj):
    import base64
    import pickle
    return base64.b64encode(pickle.dumps(obj, 2)).decode("ascii")


def _unpack(text):
    import base64
    import pickle
    return pickle.loads(base64.b64decode(text))


def _case_json(case, storage=None, prefix=b""):
    d = dict(case)
    d["_stream"] = "columns"
    d["_pickle"] = _pack((case, storage, prefix)) if len(case["adds"]) <= 5000 else None
    d["adds"] = [[a, (b.hex() if isinstance(b, bytes) else b)] for a, b in case["adds"][:400]]
    if len(case["adds"]) > 400:
        d["adds_truncated_from"] = len(case["adds"])
    if isinstance(d.get("default"), bytes):
        d["default"] = d["default"].hex()
    d["storage"] = storage
    d["prefix_len"] = len(prefix)
    return d


def _nontrivial(case):
    added = {d for d, _ in case["adds"]}
    gaps = len(added) < case["doccount"]
    t = case["type"]
    if t == "var":
        total = sum(len(v) for _, v in case["adds"])
        return gaps or total > 255 or any(len(v) > 255 for _, v in case["adds"])
    if t == "ref":
        return gaps or case["nuniq"] >= 255
    return gaps


def stream_columns(ctx, n, args=None):
    rng = ctx.rng("columns")
    gens = [G.gen_var_case] * 5 + [G.gen_fixed_case] * 2 + [G.gen_num_case] * 3 + [G.gen_ref_case] * 3 + [G.gen_bit_case] * 2
    if args is None:
        cases = []
        for _ in range(n):
            g = rng.choice(gens)
            cases.append(g(rng, ctx.tier))
        for _ in range(max(4, n // 20)):
            cases.append(G.gen_num_case(rng, ctx.tier, out_of_range=True))       # malformed stream
        args = []
        for c in cases:
            storage = rng.choice(G.STORAGES)
            prefix = rng.choice([b"", b"", b"junk", b"X" * 17])
            args.append((c, storage, prefix))
    cases = [a[0] for a in args]
    lines = []
    for c in cases:
        lines.append(_model_line(c))
        lines.append(_spec_line(c))
        lines.append(_iter_line(c))
    model = ctx.driver.ask(lines)
    real = ctx.pmap(_real_column, args, chunksize=8)
    for k, (c, storage, prefix) in enumerate(args):
        m, spec, mit = model[3 * k], model[3 * k + 1], model[3 * k + 2]
        r, iter_problem, rit = real[k]
        if rit is not None and m == r and m.startswith("ok") and "open-err" not in m:
            ctx.stat("columns:iter-model=" + c["type"])
            if _iter_canon(c["type"], mit) != _iter_canon(c["type"], rit):
                ctx.divergence("columns.iter." + c["type"], _case_json(c, storage, prefix), mit[:1200], rit[:1200])
            if c["type"] == "num" and "!" not in rit:
                from vcheck import parse_sexp
                it, ks, rs = [[int(x) for x in part] for part in parse_sexp(rit)]
                # sort keys are compared through the order they induce (any order-equivalent key is as good)
                if _ranks(ks) != _ranks(it) or _ranks(rs) != _ranks([-x for x in it]):
                    ctx.violation("NumericColumn.Reader.sort_key:order-differs-from-value-order", _case_json(c, storage, prefix),
                                  "sort_key orders documents like reader[d], and the other way round after set_reverse()",
                                  rit[:300], "sort keys of a numeric column")
        ctx.case((c["type"], repr(sorted(_case_json(c).items()))), nontrivial=_nontrivial(c))
        ctx.stat("columns:type=" + c["type"])
        ctx.stat("columns:storage=" + storage)
        if c["type"] == "var":
            ctx.stat("columns:var-mode=" + c["mode"])
            ctx.stat("columns:var-cutoff=%d" % c["cutoff"])
            if m.startswith("ok") and m.split(" ")[2] == "1":
                ctx.stat("columns:var-stored-offsets")
        if c["type"] == "ref":
            ctx.stat("columns:ref-uniques=%s" % (c["nuniq"] if c["nuniq"] > 250 else "small"))
        ctx.stat("columns:outcome=" + m.split(" ")[0] + ("" if m.startswith("ok") else " " + m.split(" ")[1]))
        if m != r:
            if c["type"] == "var" and _stale_offsets_signature(c, m, r):
                ctx.violation("VarBytesColumn.Writer.finish:stale-arrays-after-final-fill", _case_json(c, storage, prefix),
                              m[:300], r[:300], "finish() wrote the length/offset arrays it had fetched before the "
                              "final fill(); the padding made the offsets array change its type code")
            else:
                ctx.divergence("columns." + c["type"], _case_json(c, storage, prefix), m[:1500], r[:1500])
        if iter_problem and iter_problem.startswith("load(): "):
            ctx.violation("ColumnReader.load:differs-from-getitem:" + c["type"], _case_json(c, storage, prefix),
                          "load() gives the rows", iter_problem, "reader.load()[d] != reader[d] for some d")
        elif iter_problem:
            ctx.violation("ColumnReader.__iter__:differs-from-getitem:" + c["type"], _case_json(c, storage, prefix),
                          "iteration yields the rows", iter_problem, "list(reader) != [reader[d] for d in range(n)]")
        # the Python transcription of Layer S used by the big-size stream must agree with Lean
        if c["type"] in ("var", "ref", "fixed"):
            dflt = _ref_default(c) if c["type"] == "ref" else (b"" if c["type"] == "var" else (
                c["default"] if c["default"] is not None else b"\x00" * c["fixedlen"]))
            pr = G.lst([G.hexs(v) for v in py_rows(dflt, c["adds"], c["doccount"], ref=(c["type"] == "ref"))])
            if pr != spec:
                ctx.divergence("oracle.py_rows", _case_json(c, storage, prefix), spec[:600], pr[:600])
        # end-to-end against Layer S
        if m.startswith("ok") and not r.startswith("ok"):
            ctx.violation("column-roundtrip:%s:exception:%s" % (c["type"], r.split(" ")[-1]),
                          _case_json(c, storage, prefix), spec[:300], r[:300],
                          "writing / reading admissible adds raised")
        if r.startswith("ok") and "open-err" not in r:
            rows = r.rsplit(" (", 1)[1].rstrip(")")
            if "(" + rows + ")" != spec:
                ctx.violation("column-roundtrip:%s:row-mismatch" % c["type"], _case_json(c, storage, prefix),
                              spec[:400], ("(" + rows + ")")[:400], "a row differs from the supplied value / default")
    if cases:
        ctx.sample({"column_case": _case_json(cases[0]), "model": model[0][:300], "spec": model[1][:200]})


def _stale_offsets_signature(c, m, r):
    """The known defect: stored offsets, trailing rows without value, and the final padding value
    (total size) does not fit the type code of the offsets seen so far."""
    if not (c["allow"] and c["doccount"] > c["cutoff"]) or not c["adds"]:
        return False
    last = c["adds"][-1][0]
    if c["doccount"] <= last + 1:
        return False
    total = sum(len(v) for _, v in c["adds"])
    maxoff = total - len(c["adds"][-1][1])

    def tc(x):
        return 0 if x < 256 else 1 if x < 65536 else 2 if x < 2 ** 31 else 3
    return tc(total) > tc(maxoff)


# ------------------------------------------------------------------------------------------------
# stream 2: wrapped / experimental columns, end to end against the spec rows

def _real_wrapped(arg):
    case, storage = arg
    import warnings
    warnings.simplefilter("ignore")
    try:
        col, _ = G.wrapped_column(case)
        res = G.run_column(col, case["adds"], case["doccount"], storage, b"")
    except Exception as e:  # noqa
        return "exc %s" % type(e).__name__, None
    if res[0] == "err":
        return "err " + res[1], None
    _, raw, rows, extra = res
    if isinstance(rows, str):
        return rows, None
    norm = []
    for v in rows:
        if case["type"] == "struct" and isinstance(v, tuple):
            v = tuple(v)
        norm.append(G.atom(v))
    it = extra["iter"]
    it_txt = None
    if isinstance(it, Exception):
        it_txt = "iter raised " + type(it).__name__
    elif [G.atom(x) for x in it] != norm and not any(a.startswith("!") for a in norm):
        it_txt = "iter %s" % [G.atom(x) for x in it][:8]
    return G.lst(norm), it_txt


def stream_wrapped(ctx, n, args=None):
    rng = ctx.rng("wrapped")
    if args is None:
        cases = [G.gen_wrapped_case(rng, ctx.tier) for _ in range(n)]
        args = [(c, rng.choice(G.STORAGES)) for c in cases]
    cases = [a[0] for a in args]
    lines = []
    for c in cases:
        _, default = G.wrapped_column(c)
        lines.append("c08 rows %s %d %s" % (G.atom(default), c["doccount"], G.adds_sexp(c["adds"], G.atom)))
    spec = ctx.driver.ask(lines)
    real = ctx.pmap(_real_wrapped, args, chunksize=16)
    # CompressedBlockColumn: the Lean model of the writer's block splitting and the reader's _find_block /
    # _get_block / __getitem__ (WM/Model/ColumnsBlock.lean), rows only (KeyError included)
    cb = [i for i, (c, _) in enumerate(args) if c["type"] == "cblock"]
    cbmodel = dict(zip(cb, ctx.driver.ask(["c08 cblock %d %d %s" % (args[i][0].get("blockbytes", 32 * 1024), args[i][0]["doccount"],
                                                                   G.adds_sexp(args[i][0]["adds"], G.hexs)) for i in cb])))
    for idx, ((c, storage), sp, (r, it)) in enumerate(zip(args, spec, real)):
        k = c["type"]
        if idx in cbmodel and r.startswith("("):
            nblocks, _, mrows = cbmodel[idx].partition(" ")
            want = G.lst([x if x.startswith("!") else G.atom(bytes.fromhex(x if x != "-" else "")) for x in mrows.strip("()").split()])
            ctx.stat("wrapped:cblock-model-rows")
            if int(nblocks) != _cblock_blocks(c):
                ctx.divergence("oracle._cblock_blocks", {"adds": repr(c["adds"])[:300], "blockbytes": c.get("blockbytes")},
                               nblocks, str(_cblock_blocks(c)))
            if want != r:
                ctx.divergence("columns.cblock", {"_stream": "wrapped", "_pickle": _pack((c, storage)), "type": k,
                                                  "adds": [[d, repr(v)[:80]] for d, v in c["adds"]], "doccount": c["doccount"],
                                                  "blockbytes": c.get("blockbytes"), "storage": storage}, want[:1200], r[:1200])
        gaps = len({d for d, _ in c["adds"]}) < c["doccount"]
        ctx.case(("wrapped", k, repr(c["adds"]), c["doccount"], c.get("blockbytes")),
                 nontrivial=gaps or (k == "cblock" and _cblock_blocks(c) > 1))
        ctx.stat("wrapped:type=" + k)
        if k == "cblock":
            ctx.stat("wrapped:cblock-blocks=%s" % min(4, _cblock_blocks(c)))
        cj = {"_stream": "wrapped", "_pickle": _pack((c, storage)), "type": k,
              "adds": [[d, repr(v)[:80]] for d, v in c["adds"]], "doccount": c["doccount"], "storage": storage}
        if k == "cblock":
            cj["blockbytes"] = c.get("blockbytes")
        if r != sp:
            sig = "column-roundtrip:%s:row-mismatch" % k
            if k == "clamped" and "AttributeError" in r:
                sig = "ClampedNumericColumn.Writer.__init__:AttributeError-child-has-no-_typecode"
            elif k == "cblock" and _only_keyerror_gaps(c, sp, r):
                sig = "CompressedBlockColumn.Reader.__getitem__:KeyError-for-row-without-value-inside-a-block"
            elif k.startswith("float") and _only_minus_zero(sp, r):
                sig = "NumericColumn.Writer.add:minus-zero-equals-default-and-is-elided"
            ctx.violation(sig, cj, sp[:300], r[:300], "a row differs from the supplied value / default")
        elif it:
            sig = "ColumnReader.__iter__:differs-from-getitem:" + k
            ctx.violation(sig, cj, sp[:300], it[:300], "list(reader) != [reader[d] for d in range(n)]")
    if cases:
        ctx.sample({"wrapped_case": {"type": cases[0]["type"], "adds": repr(cases[0]["adds"])[:200]}, "spec": spec[0][:200]})


def _cblock_blocks(c):
    """Number of blocks the CompressedBlockColumn writer emits for the case (a block closes as soon as the
    pending bytes reach the block size)."""
    n, pending, open_ = 0, 0, False
    for _, v in c["adds"]:
        pending += len(v)
        open_ = True
        if pending >= c.get("blockbytes", 32 * 1024):
            n, pending, open_ = n + 1, 0, False
    return n + (1 if open_ else 0)


def _only_keyerror_gaps(c, spec, real):
    """The recorded CompressedBlockColumn defect and nothing else: every differing row is a KeyError for a
    document that has no value and lies between two documents with values; every other row is right."""
    a, b = spec.strip("()").split(), real.strip("()").split()
    if len(a) != len(b) or not c["adds"]:
        return False
    have = {d for d, _ in c["adds"]}
    lo, hi = min(have), max(have)
    diff = [d for d, (x, y) in enumerate(zip(a, b)) if x != y]
    return bool(diff) and all(b[d] == "!KeyError" and d not in have and lo < d < hi for d in diff)


def _only_minus_zero(spec, real):
    a, b = spec.strip("()").split(), real.strip("()").split()
    if len(a) != len(b):
        return False
    mz, z = "f:" + G.fbits(-0.0), "f:" + G.fbits(0.0)
    diff = [(x, y) for x, y in zip(a, b) if x != y]
    return bool(diff) and all(x == mz and y == z for x, y in diff)


# ------------------------------------------------------------------------------------------------
# stream 3: list row encodings and MultiColumnReader location (model <-> real)

def _real_lists(arg):
    kind, payload = arg
    from whoosh import columns
    from whoosh.filedb.filestore import RamStorage
    if kind == "multi":
        offsets, docs = payload

        class R(object):
            def __init__(self, n):
                self.n = n

            def __len__(self):
                return self.n
        mr = columns.MultiColumnReader([R(0) for _ in offsets], list(offsets))
        out = []
        for d in docs:
            x, y = mr._reader_and_docnum(d)
            out.append("(%d %d)" % (x, y))
        return G.lst(out)
    ls = payload
    col = columns.VarBytesListColumn() if kind == "varlist" else columns.FixedBytesListColumn(3)
    st = RamStorage()
    f = st.create_file("c")
    w = col.writer(f)
    w.add(0, ls)
    w.finish(1)
    f.close()
    length = st.file_length("c")
    f = st.open_file("c")
    raw = columns.VarBytesColumn().reader(f, 0, length, 1)[0]
    back = col.reader(f, 0, length, 1)[0]
    if kind == "varlist":
        return "%s %s" % (G.hexs(raw), G.lst([G.hexs(v) for v in back]))
    return "%s %s" % (G.hexs(raw), G.lst([G.hexs(v) for v in back]))


def stream_lists(ctx, n):
    rng = ctx.rng("lists")
    args, lines = [], []
    for _ in range(n):
        r = rng.random()
        if r < 0.4:
            ls = [G.gen_bytes(rng, 200 if rng.random() < 0.1 else 6) for _ in range(rng.choice([0, 1, 2, 5, 130]))]
            args.append(("varlist", ls))
            lines.append("c08 varlist %s" % G.lst([G.hexs(v) for v in ls]))
        elif r < 0.7:
            ls = [bytes(rng.randrange(256) for _ in range(3)) for _ in range(rng.choice([0, 1, 2, 5, 40]))]
            args.append(("fixlist", ls))
            lines.append("c08 fixlist 3 %s" % G.lst([G.hexs(v) for v in ls]))
        else:
            counts = [rng.choice([0, 0, 1, 2, 3, 10]) for _ in range(rng.randint(1, 6))]
            offsets, base = [], 0
            for c in counts:
                offsets.append(base)
                base += c
            docs = list(range(base)) if base else []
            if not docs:
                continue
            args.append(("multi", (offsets, docs)))
            lines.append("c08 multi %s %s" % (G.lst(map(str, offsets)), G.lst(map(str, docs))))
    model = ctx.driver.ask(lines)
    real = ctx.pmap(_real_lists, args, chunksize=32)
    for (kind, payload), m, r in zip(args, model, real):
        ctx.case(("lists", kind, repr(payload)), nontrivial=bool(payload) and (kind != "multi" or 0 in payload[0][1:] or len(payload[0]) > 1))
        ctx.stat("lists:" + kind)
        if kind == "varlist":
            m = m.replace(" none", " ()") if m.endswith("none") else m
        if m != r:
            ctx.divergence("columns." + kind, {"kind": kind, "payload": repr(payload)[:500]}, m[:600], r[:600])


# ------------------------------------------------------------------------------------------------
# stream 4: public API end to end (stored + sortable fields, commits, merges, storages)

def stream_api(ctx, n, cases=None):
    rng = ctx.rng("api")
    if cases is None:
        cases = [G.gen_api_case(rng, ctx.tier) for _ in range(n)]
    lines, spans = [], []
    for c in cases:
        ls = G.api_expected_lines(c)
        spans.append((len(lines), len(lines) + len(ls)))
        lines.extend(ls)
    spec = ctx.driver.ask(lines)
    results = ctx.pmap(G.run_api_case, [(c, spec[a:b]) for c, (a, b) in zip(cases, spans)], chunksize=4)
    for c, (viol, stats) in zip(cases, results):
        sparse = any(len(doc) < 4 for doc in c["docs"])
        ctx.case(("api", repr(G.api_case_json(c))), nontrivial=sparse and (stats.get("segments", 1) > 1 or c["final"] != "none"))
        ctx.stat("api:storage=" + c["storage"])
        ctx.stat("api:final=" + c["final"])
        ctx.stat("api:segments=%s" % stats.get("segments", "?"))
        for lst_ in c.get("rejects", {}).values():
            for kind, _ in lst_:
                ctx.stat("api:rejected-document=" + kind)
        for sig, exp, obs, desc in viol:
            ctx.violation(sig, dict(G.api_case_json(c), _stream="api", _pickle=_pack(c)), exp, obs, desc)
    if cases:
        ctx.sample({"api_case": G.api_case_json(cases[0])})


# ------------------------------------------------------------------------------------------------
# stream 4b: segments with and without the column file behind a MultiReader, then merged into one
# segment — the real rows against the model's `multiGet` and `mergeColumnAdds` (which the driver
# also compares with Layer S: `(model 1)`)

def stream_segs(ctx, n, cases=None):
    rng = ctx.rng("segs")
    if cases is None:
        cases = [G.gen_seg_case(rng, ctx.tier) for _ in range(n)]
    results = ctx.pmap(G.run_seg_case, cases, chunksize=4)
    lines = []
    for c, res in zip(cases, results):
        hascols = res[0] if not isinstance(res, str) else [any(v is not None for v in s) for s in c["segs"]]
        lines.append(G.seg_line(c, hascols))
    model = ctx.driver.ask(lines)
    for c, res, m in zip(cases, results, model):
        case = dict(c, _stream="segs", _pickle=_pack(c))
        case["segs"] = repr(c["segs"])
        nocol = isinstance(res, str) or not all(res[0])
        ctx.case(("segs", repr(c)), nontrivial=len(c["segs"]) > 1 and (nocol or bool(c["deletes"])))
        ctx.stat("segs:kind=" + c["kind"])
        if isinstance(res, str):
            sig = "segments:index-build:" + res.split(":")[0].replace(" ", "-")
            if (c["kind"].startswith("cblock") and res.startswith("AttributeError") and "'_default'" in res
                    and any(all(v is None for v in s_) for s_ in c["segs"])):
                # repaired (findings/C08.json): the column type declared no default for a segment without the column file
                sig = "CompressedBlockColumn.default_value:AttributeError-no-_default-for-segment-without-the-column"
            ctx.violation(sig, case, "index builds and reads", res,
                          "building / reading / merging the segments raised")
            continue
        hascols, multi, merged, ids, multi_iter = res
        ctx.stat("segs:without-column=%s" % (not all(hascols)))
        if not m.endswith("(model 1)"):
            ctx.divergence("multiGet/mergeColumnAdds-vs-spec", case, m[:400], "(model 1)")
            continue
        from vcheck import parse_sexp
        mm = parse_sexp("(" + m + ")")[0]
        if list(mm[0]) != multi:
            ctx.violation("MultiReader.column_reader:rows", case, " ".join(mm[0]), " ".join(multi),
                          "rows of the column through a reader over %d segments (has_column %r)" % (len(hascols), hascols))
            continue
        if list(mm[2]) != multi_iter and not any(x.startswith("!") for x in multi):
            sig = "MultiColumnReader.__iter__:differs-from-getitem"
            if c["kind"].startswith("cblock") and any(None in s_ and any(v is not None for v in s_) for s_ in c["segs"]):
                # recorded: CompressedBlockColumn.Reader.__iter__ pads a gap before / after a block with one row too many
                sig = "ColumnReader.__iter__:differs-from-getitem:cblock"
            ctx.violation(sig, case, " ".join(mm[2]), " ".join(multi_iter),
                          "list(column_reader) over %d segments (has_column %r)" % (len(hascols), hascols))
            continue
        dels = set(c["deletes"])
        live_ids = [u"%d" % g for g in range(sum(len(s) for s in c["segs"])) if g not in dels]
        if ids != live_ids:
            ctx.violation("optimize:document-order", case, live_ids, ids, "documents after delete + optimize")
            continue
        if list(mm[1]) != merged:
            sig = "SegmentWriter.write_per_doc:column-copy"
            if c["kind"].startswith("cblock") and len(merged) == len(mm[1]) and all(
                    b == "!KeyError" and a == G.atom(u"") for a, b in zip(mm[1], merged) if a != b):
                # recorded: after the merge the documents of a segment without values lie inside a block that was
                # still open when their segment began; every other row is right
                sig = "CompressedBlockColumn.Reader.__getitem__:KeyError-for-row-without-value-inside-a-block"
            ctx.violation(sig, case, " ".join(mm[1]), " ".join(merged),
                          "rows of the column after delete %r + optimize" % (c["deletes"],))


# ------------------------------------------------------------------------------------------------
# stream 5 (thorough): sizes beyond what the list-based Lean model evaluates in reasonable time
# (65 535 / 65 536 / 65 537 distinct values, 2^15 / 2^16 rows).  The oracle is `py_rows`, a Python
# transcription of Layer S (`cell` / `refCell`) that stream 1 cross-checks against the Lean
# evaluation of the same definitions on every small case.

def py_rows(default, adds, n, ref=False):
    table = {}
    for d, v in adds:
        table.setdefault(d, v)
    if not ref:
        return [table.get(d, default) for d in range(n)]
    pos = {default: 0}
    for _, v in adds:
        if v not in pos:
            pos[v] = len(pos)
    return [(default if pos[table[d]] > 65535 else table[d]) if d in table else default for d in range(n)]


def _real_big(case):
    import warnings
    warnings.simplefilter("ignore")
    t = case["type"]
    res = G.run_column(_column_of(case), case["adds"], case["doccount"], case.get("storage", "ram"), b"",
                       reads=case["reads"])
    if res[0] == "err":
        return "err " + res[1]
    _, raw, rows, extra = res
    if isinstance(rows, str):
        return rows
    default = _ref_default(case) if t == "ref" else (case["default"] if t == "num" else b"")
    exp = py_rows(default, case["adds"], case["doccount"], ref=(t == "ref"))
    bad = [(d, exp[d], rows[k]) for k, d in enumerate(case["reads"]) if rows[k] != exp[d]]
    return bad[:3]


def stream_big(ctx):
    rng = ctx.rng("big")
    cases = []
    for big in (65535, 65536, 65537, 65600):
        c = G.gen_ref_case(rng, "thorough", big=big)
        cases.append(c)
    for rowsn in (2 ** 15 - 1, 2 ** 15, 2 ** 15 + 1, 2 ** 16 + 1):
        vals = [bytes([k % 251, k % 7]) * (k % 3) for k in range(rowsn)]
        ds = list(range(rowsn))
        if rng.random() < 0.5:
            ds = [d * 2 for d in ds]
        cases.append({"type": "var", "allow": True, "cutoff": 2 ** 15, "adds": list(zip(ds, vals)),
                      "doccount": ds[-1] + 1 + rng.choice([0, 3]), "mode": "rows%d" % rowsn})
        cases.append({"type": "num", "code": rng.choice(["H", "i", "q"]), "default": 7,
                      "adds": [(d, (d * 37) % 60000) for d in ds], "doccount": ds[-1] + 2})
    for c in cases:
        n = c["doccount"]
        c["reads"] = sorted(set([0, 1, n - 1, n // 2] + [rng.randrange(n) for _ in range(3000)] +
                                [d for d, _ in c["adds"][-200:]]))
        c["storage"] = rng.choice(G.STORAGES)
    for c, res in zip(cases, ctx.pmap(_real_big, cases)):
        ctx.case(("big", c["type"], c.get("nuniq"), c["doccount"]), nontrivial=True)
        ctx.stat("big:%s" % c["type"])
        small = {"type": c["type"], "doccount": c["doccount"], "adds": len(c["adds"]), "nuniq": c.get("nuniq"),
                 "storage": c["storage"]}
        if isinstance(res, str):
            ctx.violation("column-roundtrip:%s:big:exception" % c["type"], small, "rows", res[:200], "big column raised")
        elif res:
            ctx.violation("column-roundtrip:%s:big:row-mismatch" % c["type"], small,
                          [repr(r[1])[:60] for r in res], [repr(r[2])[:60] for r in res],
                          "rows %s differ from the supplied value / default" % [r[0] for r in res])


# ------------------------------------------------------------------------------------------------
# stream 6: one large segment.  While a segment is written, all per-document columns share one
# CompoundWriter whose sub-streams stage data in a 32 KB buffer; only a segment whose column data
# crosses that buffer several times (with buffered lengths going up and down) exercises the flush
# path.  The sizes of the single writes are part of the input space as well: most documents have small
# values (many writes per buffer), and a few documents at random positions carry ONE value whose single
# write is about as large as / larger than the staging buffer (VarBytes column value of exactly
# buffer-1 / buffer / buffer+1 / >2*buffer bytes; a stored dict that is still larger than the buffer
# after zlib), so that a write meets a buffer that is empty, partly filled and nearly full.  Half of
# the cases then add a second small segment and optimize (the column copy of a merge goes through a
# new sub-stream).  Oracle = the supplied values themselves (Layer S `cell`: the value added for that row).

_LARGE_BUF = 32 * 1024        # CompoundWriter's default buffersize
_LARGE_ALPHA = u"0123456789abcdefghijklmnopqrstuvwxyz\u00e9\u4e2d"


def _large_docs(rnd, ndocs, nbig, first=0):
    docs = []
    for i in range(first, first + ndocs):
        body = u"".join(rnd.choice(_LARGE_ALPHA) for _ in range(rnd.randint(0, 700)))
        d = {"k": u"k%06d" % i}
        if rnd.random() < 0.9:
            d["body"] = body
        if rnd.random() < 0.85:
            d["tag"] = u"t%d-%s" % (i, body[:rnd.randint(0, 60)])
        if rnd.random() < 0.7:
            d["n"] = rnd.randint(-2 ** 31, 2 ** 31 - 1)
        docs.append(d)
    # documents with one value of about / more than one staging buffer, anywhere in the segment
    sizes = [_LARGE_BUF - 1, _LARGE_BUF, _LARGE_BUF + 1, _LARGE_BUF + rnd.randint(2, 9000), 2 * _LARGE_BUF + rnd.randint(0, 5000)]
    for _ in range(min(nbig, ndocs)):
        d = docs[rnd.randrange(ndocs)]
        which = rnd.choice(["tag", "body", "both"])
        if which in ("tag", "both"):
            head = u"T%s-" % d["k"]
            d["tag"] = head + u"".join(rnd.choices(_LARGE_ALPHA[:36], k=rnd.choice(sizes) - len(head)))   # ASCII: bytes == chars
        if which in ("body", "both"):
            # ~5.3 bits per character after zlib: 55K+ characters stay above the buffer size compressed
            d["body"] = u"".join(rnd.choices(_LARGE_ALPHA, k=rnd.choice([55000, 70000, 120000]) + rnd.randint(0, 999)))
    return docs


def _large_compare(ix, schema, docs, bad, label):
    with ix.searcher() as s:
        r = s.reader()
        if r.doc_count_all() != len(docs):
            bad.append(("doc count" + label, 0, len(docs), r.doc_count_all()))
            return
        tag, num = r.column_reader("tag"), r.column_reader("n")
        for docnum, d in enumerate(docs):
            want = {k: v for k, v in d.items() if k in ("k", "body")}
            try:
                got = r.stored_fields(docnum)
            except Exception as e:  # noqa
                got = "!" + type(e).__name__
            if got != want:
                bad.append(("stored_fields" + label, docnum, str(want)[:80], str(got)[:80]))
            try:
                gt = tag[docnum]
            except Exception as e:  # noqa
                gt = "!" + type(e).__name__
            if gt != d.get("tag", u""):
                bad.append(("column tag" + label, docnum, "len %d %s" % (len(d.get("tag", u"")), d.get("tag", u"")[:60]),
                            "len %d %s" % (len(gt), gt[:60])))
            try:
                gn = num[docnum]
            except Exception as e:  # noqa
                gn = "!" + type(e).__name__
            if "n" in d and gn != d["n"]:
                bad.append(("column n" + label, docnum, d["n"], gn))


def _real_large(arg):
    import random
    import shutil
    import tempfile
    from whoosh import fields, index
    seed, ndocs, storage, nbig, merge = arg
    rnd = random.Random(seed)
    schema = fields.Schema(k=fields.ID(stored=True), body=fields.STORED, tag=fields.ID(sortable=True),
                           n=fields.NUMERIC(int, 32, sortable=True), flag=fields.BOOLEAN(stored=True))
    docs = _large_docs(rnd, ndocs, nbig)
    tmp = tempfile.mkdtemp(prefix="wverif-c08large-")
    bad = []
    try:
        if storage == "ram":
            from whoosh.filedb.filestore import RamStorage
            ix = RamStorage().create_index(schema, indexname="large%d" % seed)
        else:
            ix = index.create_in(tmp, schema)
        with ix.writer() as w:
            for d in docs:
                w.add_document(**d)
        _large_compare(ix, schema, docs, bad, "")
        if merge and not bad:
            # a second segment, then everything merged into one: the optimizing writer numbers its own
            # documents first, then the documents of the segment it merges in
            more = _large_docs(rnd, merge, 1 if merge > 3 else 0, first=ndocs)
            w = ix.writer()
            for d in more:
                w.add_document(**d)
            w.commit(optimize=True)
            _large_compare(ix, schema, more + docs, bad, " after optimize")
            docs = more + docs
    except Exception as e:  # noqa
        bad.append(("index build", 0, "builds and reads", "%s: %s" % (type(e).__name__, str(e)[:120])))
    finally:
        shutil.rmtree(tmp, ignore_errors=True)
    nlarge = sum(1 for d in docs if len(d.get("tag", u"")) >= _LARGE_BUF - 1 or len(d.get("body", u"")) >= _LARGE_BUF)
    return ndocs, sum(len(d.get("body", "")) for d in docs), bad[:5], len(bad), nlarge


def stream_large(ctx, args=None):
    rng = ctx.rng("large")
    if args is None:
        args = []
        for k, st in enumerate(["file", "ram"] * ctx.budget(2, 8)):
            merge = rng.choice([2, 40]) if k % 4 in (1, 2) else 0
            args.append((rng.randrange(1 << 30), rng.choice([1500, 2500] if merge else [1500, 2500, 3500]), st,
                         rng.choice([3, 5, 8]), merge))
    for (seed, ndocs, storage, nbig, merge), (n, size, bad, nbad, nlarge) in zip(args, ctx.pmap(_real_large, args)):
        ctx.case(("large", seed, ndocs, storage, nbig, merge), nontrivial=size > 3 * 32768)
        ctx.stat("large:storage=" + storage)
        ctx.stat("large:merged=%s" % bool(merge))
        ctx.stat("large:docs-with-a-value-of-a-buffer-or-more=%s" % ("0" if not nlarge else "1+"))
        if nbad:
            ctx.violation("large-segment:%s!=supplied-value" % bad[0][0].replace(" ", "-"),
                          {"_stream": "large", "_pickle": _pack((seed, ndocs, storage, nbig, merge)), "seed": seed,
                           "ndocs": ndocs, "storage": storage, "big_values": nbig, "merge": merge, "first_bad": bad},
                          "every row returns the value supplied for it", "%d rows differ" % nbad,
                          "stored/column values of a segment large enough to flush the column staging buffer "
                          "several times, with a few single values of about / more than one buffer (32 KB)")


# ------------------------------------------------------------------------------------------------
# stream 7: field level.  field.to_column_value -> the field's own column -> a TranslatingColumnReader
# with field.from_column_value, for NUMERIC int (every bits/signed/default), NUMERIC float (on bit
# patterns), DATETIME and TEXT/ID/KEYWORD (UTF-8), plus utf8encode/utf8decode on their own with a
# malformed sub-stream.  Model = WM/Model/ColumnsField.lean (file bytes and rows compared);
# end to end = Layer S rows over the supplied field values.

def stream_fields(ctx, n, cases=None):
    rng = ctx.rng("fields")
    if cases is None:
        cases = [G.gen_field_case(rng, ctx.tier) for _ in range(n)]
    lines = []
    for c in cases:
        lines.append(G.field_model_line(c))
        lines.append(G.field_spec_line(c) if "adds" in c else "c08 rows - 0 ()")
    model = ctx.driver.ask(lines)
    real = ctx.pmap(G.run_field_case, cases, chunksize=16)
    for k, c in enumerate(cases):
        m, spec = model[2 * k], model[2 * k + 1]
        r, problem = real[k]
        kind = c["kind"]
        cj = dict(c, _stream="fields", _pickle=_pack(c))
        if "bytes" in cj:
            cj["bytes"] = cj["bytes"].hex()
        if "adds" in cj:
            cj["adds"] = repr(c["adds"][:40])
        gaps = "adds" in c and len(c["adds"]) < c["doccount"]
        ctx.case(("fields", repr(sorted((a, repr(b)) for a, b in c.items() if a != "storage"))),
                 nontrivial=gaps or (kind.startswith("utf8") and m.startswith("ok") and len(m) > 5))
        ctx.stat("fields:kind=" + kind)
        ctx.stat("fields:outcome=" + " ".join(m.split(" ")[:1] + ([m.split(" ")[1]] if m.startswith("err") else [])))
        if m != r:
            ctx.divergence("fields." + kind, cj, m[:1200], r[:1200])
            continue
        if problem and problem.startswith("sortkey"):
            ctx.violation("ColumnReader.sort_key:order-differs-from-value-order:" + kind, cj,
                          "x < y implies sort_key(x) < sort_key(y) (> after set_reverse)", problem,
                          "sort keys of the field's column do not order documents like the field values")
        elif problem:
            ctx.violation("TranslatingColumnReader.__iter__:differs-from-getitem:" + kind, cj, "iteration yields the rows",
                          problem, "list(reader) / len(reader) disagree with reader[d]")
        if "adds" in c and r.startswith("ok"):
            rows = "(" + r.split(" (", 1)[1]
            got = G.field_rows_as_spec(c, rows)
            if got != spec:
                ctx.violation("field-column-roundtrip:%s:row-mismatch" % kind, cj, spec[:400], got[:400],
                              "column_reader(f)[d] differs from the supplied field value / field default")
    if cases:
        ctx.sample({"field_case": {a: repr(b)[:120] for a, b in cases[0].items()}, "model": model[0][:200]})


def run(ctx):
    _corpus(ctx)
    stream_fields(ctx, ctx.budget(1500, 12000))
    stream_columns(ctx, ctx.budget(1500, 12000))
    stream_wrapped(ctx, ctx.budget(600, 4000))
    stream_lists(ctx, ctx.budget(600, 4000))
    stream_api(ctx, ctx.budget(200, 1500))
    stream_segs(ctx, ctx.budget(150, 1200))
    stream_large(ctx)
    if ctx.tier == "thorough":
        stream_big(ctx)


def _dispatch(ctx, by):
    if by.get("columns"):
        stream_columns(ctx, 0, by["columns"])
    if by.get("wrapped"):
        stream_wrapped(ctx, 0, by["wrapped"])
    if by.get("api"):
        stream_api(ctx, 0, by["api"])
    if by.get("segs"):
        stream_segs(ctx, 0, by["segs"])
    if by.get("fields"):
        stream_fields(ctx, 0, by["fields"])
    if by.get("large"):
        stream_large(ctx, by["large"])


def _corpus(ctx):
    """Replay the stored minimised cases first (corpus/C08/*.json: {"_stream", "_pickle", ...})."""
    import os
    cdir = os.path.join(os.path.dirname(os.path.dirname(os.path.dirname(os.path.abspath(__file__)))), "corpus", ID)
    if not os.path.isdir(cdir):
        return
    by = {}
    for name in sorted(os.listdir(cdir)):
        if name.endswith(".json"):
            rec = json.load(open(os.path.join(cdir, name)))
            by.setdefault(rec["_stream"], []).append(_unpack(rec["_pickle"]))
            ctx.stat("corpus:" + rec["_stream"])
    _dispatch(ctx, by)


def replay(ctx, rec):
    """Re-run one stored failing input against the current tree; True if it still fails."""
    case = rec.get("case") or rec
    if not case.get("_pickle"):
        print("replay record carries no case to re-run")
        return False
    _dispatch(ctx, {case["_stream"]: [_unpack(case["_pickle"])]})
    sig = rec.get("signature")
    hits = [v for v in ctx.violations if sig is None or v["signature"] == sig] or ctx.violations
    for v in hits[:3]:
        print("signature:", v["signature"])
        print("expected :", str(v["expected"])[:400])
        print("observed :", str(v["observed"])[:400])
    for d in ctx.divergences[:2]:
        print("divergence:", d["component"], "model", d["model"][:200], "impl", d["impl"][:200])
    return bool(hits or ctx.divergences)
