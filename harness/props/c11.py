"""C11 — every matcher is a faithful forward cursor over its result list."""
import random

from vcheck import parse_sexp
from gen import matcher as G

ID = "C11"
LEVEL = "proof"
LEAN_IMPORTS = ["WM.Props.C11"]
THEOREMS = ["WM.C11.sorted", "WM.C11.active_iff", "WM.C11.refine_next", "WM.C11.refine_skipTo", "WM.C11.skipTo_noop",
            "WM.C11.reset", "WM.C11.wf_preserved", "WM.C11.constructors_wf", "WM.C11.multi_constructor_wf",
            "WM.C11.aunion_constructor_wf",
            "WM.C11.replace0", "WM.C11.all_ids_base", "WM.C11.all_ids", "WM.C11.all_ids_fresh",
            "WM.C11.all_ids_pre_preserved", "WM.C11.program", "WM.C11.program_replace",
            "WM.C11.reads_move_alike", "WM.C11.reads_wf", "WM.C11.read_next", "WM.C11.read_skipTo", "WM.C11.program_reads"]
PARTIAL = {"WM.C11.all_ids": "the overriding all_ids() of ListMatcher, IntersectionMatcher (also behind RequireMatcher), "
                             "WrappingMatcher/ConstantScoreWrapperMatcher, FilterMatcher, MultiMatcher are modelled (allIdsO) and "
                             "proved to yield, in any state, an ascending list between the remaining and the complete ids, "
                             "and exactly the stepping result on a matcher at its start (all_ids_fresh). Hypothesis AllIdsPre: at "
                             "the sub-matchers that use the base generator (leaf, Union, DisjunctionMax, AndNot, AndMaybe, "
                             "Inverse, and ArrayUnion whose all_ids walks its buffered parts) the remaining list is part of the complete list - preserved by next/skip_to/reset "
                             "(all_ids_pre_preserved) but not proved through the alignment loops of an enclosing "
                             "Intersection/Filter constructor; PreloadedUnion all_ids is modelled, not proved",
           "WM.C11.program": "narrower than 'every matcher class, every read': (1) classes - Shape covers ListMatcher, W3 leaf, Null, "
                             "Union, DisjunctionMax, Intersection, AndNot, AndMaybe, Require, boost, Filter, Inverse, ConstantScore, "
                             "MultiMatcher (sub-matchers of one class) and ArrayUnionMatcher (sub-matchers of one class, positive "
                             "scores); PreloadedUnionMatcher is modelled and differentially tested only; span matchers, "
                             "SingleTermMatcher, CoordMatcher, nested-document matchers are not modelled; (2) reads - id(), score(), "
                             "is_active(), and since round 3 weight() and the number of matching_terms() (program_reads: every "
                             "shape without ArrayUnion nodes, which support neither read; the reads' invariant WFR is derived from WF "
                             "for shapes without MultiMatcher nodes - reads_wf - and is an assumption for a MultiMatcher) are proved "
                             "to depend on the list position only; value(), spans() and the *set* of matching terms are not in the "
                             "model: the harness compares them between visits of the same entry on the real objects; (3) commands - "
                             "next/skip_to/reset here, next/skip_to/replace() in program_replace; skip_to_quality(0) and copy() are "
                             "not commands of the path-independence theorems (copy is the identity on model values); (4) "
                             "ListMatcher without weights (weights=None) and a W3 posting list with no block are outside WF"}
RULE = ("reads stream: programs of 14 next/skip_to/reset calls, (id, weight, number of matching terms) after every call against "
        "the Lean reads model, value()/spans()/matching terms compared between visits of an entry; "
        "matcher trees (depth <= 3, MultiMatcher nodes included, DisjunctionMaxMatcher with tiebreak 0 and > 0) over ListMatchers and over real W3LeafMatchers written with "
        "W3Codec(blocklimit 1..4), ArrayUnion/PreloadedUnion roots; adaptive programs of <= 60 operations; non-trivial = the tree has a "
        "composite node and the program contains a skip_to/skip_to_quality/replace that moved the matcher, "
        "or (error stream) an operation on an exhausted matcher; distinct = distinct (tree, program)")
ASSUMPTIONS = ["matching_terms(): the ListMatchers of the streams carry a term (ListMatcher(term=None) yields nothing)",
               "Python float arithmetic on the dyadic weights/boosts used by the exact streams is exact",
               "MultiMatcher: all sub-matchers of one class; its score() (global scorer on the current weight) equals the "
               "current sub-matcher's score (WeightScorer/Frequency in the streams)",
               "UnionMatcher._id is a pure memo of id() (not modelled; a stale memo shows as a divergence)"]
TRUSTED = ["the W3 block layout handed to the model is read from the real W3LeafMatcher (block statistics, "
           "float32 weights, field lengths); that the writer stores true aggregates is C10's claim"]

KINDS_ALL = list(G.BIN) + list(G.UN) + ["multi"]


# ------------------------------------------------------------------------------------------------
# worker: one case = tree + adaptive program on the real code; returns protocol text + transcript

def _case(args):
    (seed, mode, kinds, depth, nops, error_stream, qbias) = args
    rng = random.Random(seed)
    rix = None
    try:
        if mode == "list":
            t = G.gen_tree(rng, depth, kinds, G.gen_list, boosts=G.CORR_BOOSTS)
            scores = sorted(set(w for w in _leaf_weights(t)))
        else:
            spec = G.gen_index_spec(rng, 4, deleted=(rng.random() < 0.25))
            rix = G.RealIndex(spec)
            t = G.gen_tree(rng, depth, kinds, _leaf_gen(mode, spec), boosts=G.CORR_BOOSTS)
            scores = [float(f) for _, fs in spec.lists for f in fs] + _leaf_weights(t)
        text = G.tree_sexp(t, rix)
        try:
            m = G.build_real(t, rix)
        except Exception as e:  # noqa
            return dict(seed=seed, mode=mode, tree=text, ops=[], impl=["(%s)" % G.err_name(e)], kinds=sorted(G.tree_kinds(t)),
                        size=G.tree_size(t))
        ops, out = G.run_program(rng, m, nops, scores, allow_copy=True, error_stream=error_stream, qbias=qbias,
                                 semantic=G.unit_boosts(t))
        return dict(seed=seed, mode=mode, tree=text, ops=[G.op_sexp(o) for o in ops], impl=out,
                    kinds=sorted(G.tree_kinds(t)), size=G.tree_size(t))
    finally:
        if rix is not None:
            rix.close()


def _combo_case(seed):
    """ArrayUnionMatcher / PreloadedUnionMatcher at the root, over ListMatchers or real posting lists"""
    rng = random.Random(seed)
    rix = None
    try:
        if rng.random() < 0.6:
            t = G.gen_combo(rng)
            mode = "list"
        else:
            spec = G.gen_index_spec(rng, 4)
            rix = G.RealIndex(spec)
            nonempty = [j for j, l in enumerate(spec.lists) if l[0]] or [0]
            t = G.gen_combo(rng, lambda r: ("term", r.choice(nonempty)))
            mode = "w3"
        kids = t[4] if t[0] == "aunion" else t[3]
        if any(G.tree_sexp(k, rix) == "(null)" for k in kids):
            return None
        text = G.tree_sexp(t, rix)
        scores = [w * t[2] for k in kids for w in _leaf_weights(k)] or [1.0]
        try:
            m = G.build_real(t, rix)
        except Exception as e:  # noqa
            return dict(seed=seed, mode=mode, tree=text, ops=[], impl=["(%s)" % G.err_name(e)], kinds=[t[0]], size=2)
        rewinds = t[0] == "aunion" and G.aunion_rewinds()
        ops, out = G.run_program(rng, m, 30, scores, allow_copy=rewinds, allow_reset=rewinds, qbias=2,
                                 maxid=G.NDOCS + 8)
        return dict(seed=seed, mode=mode, tree=text, ops=[G.op_sexp(o) for o in ops], impl=out, kinds=[t[0]], size=2)
    finally:
        if rix is not None:
            rix.close()


def combo_correspondence(ctx, n):
    rng = ctx.rng("corr:combo")
    cases = [c for c in ctx.pmap(_combo_case, [rng.getrandbits(48) for _ in range(n)], chunksize=max(1, n // 64)) if c]
    replies = ctx.driver.ask(["c11 run %s (%s)" % (c["tree"], " ".join(c["ops"])) for c in cases])
    for c, rep in zip(cases, replies):
        impl = "(" + " ".join(c["impl"]) + ")"
        ctx.case((c["tree"], tuple(c["ops"])), nontrivial=_moved(c["impl"]))
        ctx.stat("corr:combo:" + c["kinds"][0])
        for o in c["ops"]:
            ctx.stat("op:" + o.strip("(").split(" ")[0])
        if rep != impl:
            ctx.divergence("matcher-program:combo", {"tree": c["tree"], "ops": c["ops"], "seed": c["seed"]}, rep, impl)


def _leaf_gen(mode, spec):
    """leaves of a tree: real posting lists (`w3`) or a mixture of those and ListMatchers (`mixed`)"""
    def leaf(r):
        if mode == "mixed" and r.random() < 0.4:
            return G.gen_list(r)
        return ("term", r.randrange(len(spec.lists)))
    return leaf


def _leaf_weights(t):
    if t[0] == "list":
        return list(t[2])
    if t[0] == "multi":
        return [w for c in t[2] for w in _leaf_weights(c)]
    res = []
    for x in t[1:]:
        if isinstance(x, tuple) and x and isinstance(x[0], str):
            res += _leaf_weights(x)
    return res


def _moved(impl):
    """did some operation change the observable position?"""
    return len(set(impl)) > 2


def correspondence(ctx, name, mode, n, kinds, depth, nops, error_stream=False, qbias=1):
    rng = ctx.rng("corr:" + name)
    jobs = [(rng.getrandbits(48), mode, kinds, depth, nops, error_stream, qbias) for _ in range(n)]
    cases = ctx.pmap(_case, jobs, chunksize=max(1, n // 64))
    lines = ["c11 run %s (%s)" % (c["tree"], " ".join(c["ops"])) for c in cases]
    replies = ctx.driver.ask(lines)
    for c, rep in zip(cases, replies):
        impl = "(" + " ".join(c["impl"]) + ")"
        composite = c["size"] > 1
        raised = c["impl"][-1].startswith("(!")
        ctx.case((c["tree"], tuple(c["ops"])), nontrivial=composite and (_moved(c["impl"]) or raised))
        ctx.stat("corr:%s:cases" % name)
        for k in c["kinds"]:
            ctx.stat("node:" + k)
        for o in c["ops"]:
            ctx.stat("op:" + o.strip("(").split(" ")[0])
        if raised:
            ctx.stat("raised:" + c["impl"][-1])
        if rep != impl:
            ctx.divergence("matcher-program:" + name, {"tree": c["tree"], "ops": c["ops"], "seed": c["seed"]}, rep, impl)
        elif len(ctx.samples) < 3 and composite and len(c["ops"]) > 3:
            ctx.sample({"tree": c["tree"], "ops": c["ops"][:8], "transcript": c["impl"][:9]})
    return cases


# ------------------------------------------------------------------------------------------------
# end-to-end: the real classes against the Lean *specification* (`den`, Layer S)

def make_case(seed, mode, kinds, depth, weighting=("freq",)):
    """deterministic (tree, index spec) of a seed"""
    rng = random.Random(seed)
    if mode == "list":
        return G.gen_tree(rng, depth, kinds, G.gen_list), None
    spec = G.gen_index_spec(rng, 4, weighting=weighting, deleted=(rng.random() < 0.25))
    t = G.gen_tree(rng, depth, kinds, _leaf_gen(mode, spec))
    return t, spec


def _e2e_prepare(args):
    seed, mode, kinds, depth = args
    t, spec = make_case(seed, mode, kinds, depth)
    rix = G.RealIndex(spec) if spec else None
    try:
        return G.tree_sexp(t, rix)
    finally:
        if rix:
            rix.close()


def _e2e_run(args):
    seed, mode, kinds, depth, den_text = args
    t, spec = make_case(seed, mode, kinds, depth)
    rix = G.RealIndex(spec) if spec else None
    try:
        if den_text.startswith("!"):
            try:
                G.build_real(t, rix)
            except Exception as e:  # noqa
                return None if G.err_name(e) == den_text else ("constructor", {"model": den_text, "impl": G.err_name(e)})
            return ("constructor", {"model": den_text, "impl": "no error"})
        den = [(i, float(s)) for i, s in G.parse_den(den_text)]
        rng = random.Random(seed ^ 0x5EED)
        try:
            res = G.e2e_cursor(rng, lambda: G.build_real(t, rix), den, allow_copy=(mode == "list"))
        except G.Hang:
            res = ("does not terminate", {})
        except Exception as e:  # noqa
            res = ("raises " + G.err_name(e), {})
        if res is None:
            return None
        return (res[0], dict(res[1], root=t[0], kinds=sorted(G.tree_kinds(t))))
    finally:
        if rix:
            rix.close()


def end_to_end(ctx, name, mode, n, kinds, depth):
    rng = ctx.rng("e2e:" + name)
    seeds = [rng.getrandbits(48) for _ in range(n)]
    texts = ctx.pmap(_e2e_prepare, [(s, mode, kinds, depth) for s in seeds], chunksize=max(1, n // 64))
    dens = ctx.driver.ask(["c11 den " + t for t in texts])
    results = ctx.pmap(_e2e_run, [(s, mode, kinds, depth, d) for s, d in zip(seeds, dens)], chunksize=max(1, n // 64))
    for s, text, d, res in zip(seeds, texts, dens, results):
        ctx.case(("e2e", text), nontrivial=text.count("(") > 3 and d not in ("()", ""))
        ctx.stat("e2e:%s:cases" % name)
        if res is not None:
            ctx.violation("C11:%s:%s" % (res[0], res[1].get("root", "?")),
                          {"stream": name, "seed": s, "mode": mode, "kinds": kinds, "depth": depth, "tree": text},
                          d, res[1], "real matcher contradicts the list model: " + res[0])


# ------------------------------------------------------------------------------------------------
# corpus: minimised inputs of past defects, replayed first on every run (program vs. model, and the
# semantic check against the Lean list model)

def _tuplify(x):
    if isinstance(x, list) and x and isinstance(x[0], str):
        return tuple(_tuplify(y) for y in x)
    return x


def _corpus_spec(rec):
    if not rec.get("index"):
        return None
    ix = rec["index"]
    return G.IndexSpec([tuple(l) for l in ix["lists"]], ix["blocklimit"], ix.get("filler"),
                       tuple(ix.get("weighting", ["freq"])), ix.get("deleted", ()))


def _corpus_one(rec):
    spec = _corpus_spec(rec)
    t = _tuplify(rec["tree"])
    ops = [tuple(o) for o in rec["ops"]]
    rix = G.RealIndex(spec) if spec else None
    try:
        text = G.tree_sexp(t, rix)
        out = []
        try:
            m = G.build_real(t, rix)
            out.append(G.observe(m))
            regs = {}
            for op in ops:
                try:
                    with G.watchdog():
                        m = G.apply_real(m, regs, op)
                except G.Hang:
                    out.append("(!HANG)")
                    break
                except Exception as e:  # noqa
                    out.append("(%s)" % G.err_name(e))
                    break
                out.append(G.observe(m))
        except Exception as e:  # noqa
            out = ["(%s)" % G.err_name(e)]
        return dict(name=rec["name"], tree=text, ops=[G.op_sexp(o) for o in ops], impl=out, rec=rec)
    finally:
        if rix:
            rix.close()


def _corpus_semantic(args):
    rec, den_text = args
    if den_text.startswith("!"):
        return None
    spec = _corpus_spec(rec)
    t = _tuplify(rec["tree"])
    ops = [tuple(o) for o in rec["ops"] if o[0] in ("next", "skip", "skipq", "replace")]
    rix = G.RealIndex(spec) if spec else None
    try:
        den = [(i, float(s)) for i, s in G.parse_den(den_text)]
        try:
            got = G.drain(G.build_real(t, rix))
            if got != den:
                return ("next-until-done differs from the expected list", {"expected": den, "got": got})
            res = G.e2e_quality(random.Random(0), G.build_real(t, rix), den, fixed_ops=ops)
        except G.Hang:
            return ("does-not-terminate", {})
        except Exception as e:  # noqa
            return ("raises " + G.err_name(e), {})
        return None if res is None else (res[0], res[1])
    finally:
        if rix:
            rix.close()


def corpus_replay(ctx, pid):
    import glob
    import json
    import os
    from vcheck import ROOT
    recs = []
    for f in sorted(glob.glob(os.path.join(ROOT, "corpus", pid, "*.json"))):
        recs.extend(json.load(open(f)))
    if not recs:
        return
    cases = ctx.pmap(_corpus_one, recs)
    replies = ctx.driver.ask(["c11 run %s (%s)" % (c["tree"], " ".join(c["ops"])) for c in cases])
    dens = ctx.driver.ask(["c11 den %s" % c["tree"] for c in cases])
    sems = ctx.pmap(_corpus_semantic, [(c["rec"], d) for c, d in zip(cases, dens)])
    for c, rep, d, sem in zip(cases, replies, dens, sems):
        ctx.case(("corpus", c["name"]), nontrivial=True)
        ctx.stat("corpus:cases")
        impl = "(" + " ".join(c["impl"]) + ")"
        if sem is not None and not c["rec"].get("semantic_skip"):
            ctx.violation("%s:corpus:%s:%s" % (pid, c["name"], sem[0]),
                          {"corpus": c["name"], "tree": c["tree"], "ops": c["ops"]}, d, sem[1],
                          "regression of a repaired defect: " + c["rec"].get("what", c["name"]))
        if rep != impl:
            ctx.divergence("corpus:" + c["name"], {"tree": c["tree"], "ops": c["ops"]}, rep, impl)


# ------------------------------------------------------------------------------------------------
# classes outside the Lean model: MultiMatcher and ArrayUnionMatcher over modelled sub-matchers

def _extra_prepare(seed):
    t = G.gen_extra(random.Random(seed))
    kids = t[2] if t[0] == "multi" else t[4]
    return [G.tree_sexp(k) for k in kids]


def _extra_run(args):
    seed, dens, quality = args
    t = G.gen_extra(random.Random(seed))
    if any(d.startswith("!") for d in dens):
        return None
    den = [(i, float(s)) for i, s in G.compose_den(t, [G.parse_den(d) for d in dens])]
    rng = random.Random(seed ^ 0xE)
    try:
        if quality:
            res = G.e2e_quality(rng, G.build_real(t), den)
            res = None if res is None else (res[0], dict(res[1], ops=[G.op_sexp(o) for o in res[2]]))
        else:
            res = G.e2e_cursor(rng, lambda: G.build_real(t), den, allow_copy=True)
    except G.Hang:
        res = ("does not terminate", {})
    except Exception as e:  # noqa
        res = ("raises " + G.err_name(e), {})
    return None if res is None else (res[0], dict(res[1], tree=repr(t)), t[0])


def extra_stream(ctx, pid, n, quality):
    rng = ctx.rng("extra")
    seeds = [rng.getrandbits(48) for _ in range(n)]
    texts = ctx.pmap(_extra_prepare, seeds, chunksize=max(1, n // 64))
    flat = [t for ts in texts for t in ts]
    replies = ctx.driver.ask(["c11 den " + t for t in flat])
    dens, k = [], 0
    for ts in texts:
        dens.append(replies[k:k + len(ts)])
        k += len(ts)
    for s, ds, res in zip(seeds, dens, ctx.pmap(_extra_run, [(s, d, quality) for s, d in zip(seeds, dens)],
                                                 chunksize=max(1, n // 64))):
        ctx.case(("extra", s, quality), nontrivial=any(d != "()" for d in ds))
        ctx.stat("e2e:extra:cases")
        if res is not None:
            ctx.violation("%s:%s:%s" % (pid, res[0], res[2]), {"stream": "extra", "seed": s, "quality": quality}, ds, res[1],
                          "MultiMatcher/ArrayUnionMatcher contradicts the list model: " + res[0])


# ArrayUnionMatcher against its Lean list model (`den` of the aunion node: boosted union below doccount)

def _combo_e2e_tree(seed):
    rng = random.Random(seed)
    while True:
        t = G.gen_combo(rng)
        if t[0] == "aunion":
            return t


def _combo_e2e_prepare(seed):
    return G.tree_sexp(_combo_e2e_tree(seed))


def _combo_e2e_run(args):
    seed, den_text, quality = args
    t = _combo_e2e_tree(seed)
    if den_text.startswith("!"):
        return None
    den = [(i, float(s)) for i, s in G.parse_den(den_text)]
    rng = random.Random(seed ^ 0xA)
    try:
        if quality:
            res = G.e2e_quality(rng, G.build_real(t), den)
            res = None if res is None else (res[0], dict(res[1], ops=[G.op_sexp(o) for o in res[2]]))
        else:
            res = G.e2e_cursor(rng, lambda: G.build_real(t), den, allow_copy=True)
    except G.Hang:
        res = ("does not terminate", {})
    except Exception as e:  # noqa
        res = ("raises " + G.err_name(e), {})
    return None if res is None else (res[0], dict(res[1], tree=repr(t)), t[0])


def combo_e2e(ctx, pid, n, quality):
    rng = ctx.rng("e2e:combo")
    seeds = [rng.getrandbits(48) for _ in range(n)]
    texts = ctx.pmap(_combo_e2e_prepare, seeds, chunksize=max(1, n // 64))
    dens = ctx.driver.ask(["c11 den " + t for t in texts])
    for s, text, d, res in zip(seeds, texts, dens, ctx.pmap(_combo_e2e_run, [(s, d, quality) for s, d in zip(seeds, dens)],
                                                            chunksize=max(1, n // 64))):
        ctx.case(("combo-e2e", s, quality), nontrivial=d not in ("()", ""))
        ctx.stat("e2e:combo:cases")
        if res is not None:
            ctx.violation("%s:%s:%s" % (pid, res[0], res[2]), {"stream": "combo-e2e", "seed": s, "quality": quality, "tree": text},
                          d, res[1], "ArrayUnionMatcher contradicts the list model: " + res[0])


# ------------------------------------------------------------------------------------------------
# the other reads of an entry: weight() and matching_terms() against the Lean model (`c11 reads`, theorems
# reads_* / program_reads: they are functions of the list position); value(), spans() and the *set* of matching
# terms are outside the model and are compared for path independence on the real object

SIG_INVERSE_VALUE = "InverseMatcher.value()/spans():reads-the-child-which-is-never-on-the-document"
SIG_READS = {"weight": "Matcher.weight()", "terms": "Matcher.matching_terms()"}


def _read_obs(m):
    if not m.is_active():
        return "(0)"
    try:
        nt = str(len(list(m.matching_terms())))
    except Exception as e:  # noqa
        nt = G.err_name(e)
    return "(%s %s %s)" % (G.guarded(m.id), G.guarded(m.weight), nt)


def _aux_reads(m):
    def val():
        v = m.value()
        return v.hex() if isinstance(v, bytes) else repr(v)
    return (G.guarded(val, conv=str), G.guarded(lambda: repr(m.spans()), conv=str),
            G.guarded(lambda: repr(sorted(m.matching_terms())), conv=str))


def _reads_case(args):
    seed, mode, kinds, depth, nops = args
    t, spec = make_case(seed, mode, kinds, depth)
    rix = G.RealIndex(spec) if spec else None
    try:
        text = G.tree_sexp(t, rix)
        base = dict(seed=seed, mode=mode, kinds=kinds, depth=depth, nops=nops, tree=text, root=t[0],
                    nodes=sorted(G.tree_kinds(t)), size=G.tree_size(t), aux=None)
        try:
            m = G.build_real(t, rix)
        except Exception as e:  # noqa
            return dict(base, ops=[], impl=["(%s)" % G.err_name(e)])
        rng = random.Random(seed ^ 0x7EAD)
        ops, out, seen, aux = [], [_read_obs(m)], {}, None

        def look():
            if m.is_active():
                a, i = _aux_reads(m), m.id()
                if seen.setdefault(i, a) != a:
                    return {"id": i, "first": seen[i], "now": a}
            return None
        aux = look()
        for _ in range(nops):
            if m.is_active():
                k = rng.random()
                if k < 0.5:
                    op = ("next",)
                elif k < 0.85:
                    op = ("skip", max(0, m.id() + rng.choice([-2, 0, 1, 2, 3, 6])))
                else:
                    op = ("reset",)
            else:
                op = ("reset",)
            ops.append(op)
            try:
                with G.watchdog():
                    m = G.apply_real(m, {}, op)
            except G.Hang:
                out.append("(!HANG)")
                break
            except Exception as e:  # noqa
                out.append("(%s)" % G.err_name(e))
                break
            out.append(_read_obs(m))
            aux = aux or look()
        return dict(base, ops=[G.op_sexp(o) for o in ops], impl=out, aux=aux)
    finally:
        if rix:
            rix.close()


def _reads_mismatch(model, impl):
    """first differing observation and which read differs"""
    for j, (a, b) in enumerate(zip(model, impl)):
        if a != b:
            fa, fb = a.strip("()").split(" "), b.strip("()").split(" ")
            if len(fa) == 3 and len(fb) == 3 and fa[0] == fb[0]:
                which = "weight" if fa[1] != fb[1] else "terms"
                how = "raises " + fb[1 if which == "weight" else 2] if "!" in fb[1 if which == "weight" else 2] else "wrong value"
                return j, which, how
            return j, "cursor", "position"
    return min(len(model), len(impl)), "cursor", "length"


def reads_stream(ctx, name, mode, n, kinds, depth, nops=14):
    rng = ctx.rng("reads:" + name)
    jobs = [(rng.getrandbits(48), mode, kinds, depth, nops) for _ in range(n)]
    cases = ctx.pmap(_reads_case, jobs, chunksize=max(1, n // 64))
    replies = ctx.driver.ask(["c11 reads %s (%s)" % (c["tree"], " ".join(c["ops"])) for c in cases])
    for c, rep in zip(cases, replies):
        impl = "(" + " ".join(c["impl"]) + ")"
        ctx.case(("reads", c["tree"], tuple(c["ops"])), nontrivial=c["size"] > 1 and len(set(c["impl"])) > 2)
        ctx.stat("reads:%s:cases" % name)
        for k in c["nodes"]:
            ctx.stat("reads:node:" + k)
        case = {"stream": "reads", "seed": c["seed"], "mode": c["mode"], "kinds": c["kinds"], "depth": c["depth"],
                "nops": c["nops"], "tree": c["tree"], "ops": c["ops"]}
        if c["aux"] is not None:
            a, b = c["aux"]["first"], c["aux"]["now"]
            # classified: an InverseMatcher hands value()/spans() to its child, which is never on the document
            leak = "inverse" in c["nodes"] and a[2] == b[2] and (a[0] != b[0] or a[1] != b[1])
            ctx.violation(SIG_INVERSE_VALUE if leak else
                          "C11:value()/spans()/matching_terms() depend on the path:%s" % c["root"], case,
                          c["aux"]["first"], c["aux"]["now"], "a read of the entry %d differs between two visits" % c["aux"]["id"])
        if rep != impl:
            if rep == "bad-op" or "NotImplementedError" in rep:
                ctx.stat("reads:unsupported-by-model")       # ArrayUnion below a MultiMatcher etc.: not covered
                continue
            j, which, how = _reads_mismatch(rep[1:-1].replace(") (", ")|(").split("|"), c["impl"])
            if which == "cursor":
                ctx.divergence("matcher-reads:" + name, case, rep, impl)
            else:
                ctx.violation("C11:%s %s:%s" % (SIG_READS[which], how, "+".join(c["nodes"][:4])), dict(case, at=j), rep, impl,
                              "%s on an entry contradicts the list of (id, read) entries (Lean denR)" % SIG_READS[which])


def replay_reads(ctx, case):
    c = _reads_case((case["seed"], case["mode"], case["kinds"], case["depth"], case.get("nops", 14)))
    rep = ctx.driver.ask1("c11 reads %s (%s)" % (c["tree"], " ".join(c["ops"])))
    impl = "(" + " ".join(c["impl"]) + ")"
    if c["aux"] is not None:
        return ("reads depend on the path", c["aux"])
    return None if rep == impl else ("reads differ from the model", {"model": rep, "impl": impl})


def run(ctx):
    corpus_replay(ctx, "C11")
    n = ctx.budget(3000, 36000)
    correspondence(ctx, "list", "list", n, KINDS_ALL, 3, 40)
    correspondence(ctx, "list-errors", "list", n // 3, KINDS_ALL, 2, 25, error_stream=True)
    correspondence(ctx, "w3", "w3", n // 3, KINDS_ALL, 3, 40)
    correspondence(ctx, "mixed", "mixed", n // 3, KINDS_ALL, 3, 40)
    correspondence(ctx, "w3-errors", "w3", n // 10, KINDS_ALL, 2, 25, error_stream=True)
    correspondence(ctx, "multi", "mixed", n // 6, ["multi", "multi", "multi", "union", "inter", "filter"], 2, 40)
    combo_correspondence(ctx, n // 3)
    end_to_end(ctx, "list", "list", n // 2, KINDS_ALL, 3)
    end_to_end(ctx, "w3", "w3", n // 4, KINDS_ALL, 3)
    end_to_end(ctx, "mixed", "mixed", n // 4, KINDS_ALL, 3)
    extra_stream(ctx, "C11", n // 4, quality=False)
    combo_e2e(ctx, "C11", n // 6, quality=False)
    reads_kinds = [k for k in KINDS_ALL]
    reads_stream(ctx, "list", "list", n // 3, reads_kinds, 3)
    reads_stream(ctx, "w3", "w3", n // 8, reads_kinds, 3)
    reads_stream(ctx, "mixed", "mixed", n // 8, reads_kinds, 2)
    reads_stream(ctx, "multi", "mixed", n // 12, ["multi", "multi", "andmaybe", "union", "inter"], 2)
    if ctx.divergences:
        # a broken correspondence: spend more of the budget looking for a failing input
        end_to_end(ctx, "list-extra", "list", n // 2, KINDS_ALL, 3)
        end_to_end(ctx, "w3-extra", "w3", n // 4, KINDS_ALL, 3)
    G.cleanup_tmp()


def replay_common(ctx, rec, quality):
    """re-execute one stored case (streams shared by C11 and C12); returns the failure found now, or None"""
    case = rec.get("case", {})
    stream = case.get("stream")
    if "corpus" in case:
        import glob
        import json
        import os
        from vcheck import ROOT
        for f in glob.glob(os.path.join(ROOT, "corpus", "*", "*.json")):
            for r in json.load(open(f)):
                if r["name"] == case["corpus"]:
                    c = _corpus_one(r)
                    d = ctx.driver.ask1("c11 den %s" % c["tree"])
                    rep = ctx.driver.ask1("c11 run %s (%s)" % (c["tree"], " ".join(c["ops"])))
                    sem = _corpus_semantic((r, d))
                    if sem is not None:
                        return sem
                    if rep != "(" + " ".join(c["impl"]) + ")":
                        return ("model/implementation transcripts differ", {"model": rep, "impl": c["impl"]})
        return None
    if stream == "combo-e2e":
        text = _combo_e2e_prepare(case["seed"])
        return _combo_e2e_run((case["seed"], ctx.driver.ask1("c11 den " + text), case.get("quality", quality)))
    if stream == "extra":
        texts = _extra_prepare(case["seed"])
        return _extra_run((case["seed"], ctx.driver.ask(["c11 den " + t for t in texts]), case.get("quality", quality)))
    return "other"


def replay(ctx, rec):
    case = rec.get("case", {})
    res = replay_common(ctx, rec, False)
    if res == "other" and case.get("stream") == "reads":
        res = replay_reads(ctx, case)
    elif res == "other":
        if "mode" in case and "seed" in case:
            text = _e2e_prepare((case["seed"], case["mode"], case["kinds"], case["depth"]))
            res = _e2e_run((case["seed"], case["mode"], case["kinds"], case["depth"], ctx.driver.ask1("c11 den " + text)))
        else:
            res = None
    print("expected:", rec.get("expected"))
    print("observed now:", res)
    return res is not None


MANIFEST = {
    "level_text": "Lean 4 theorems, unbounded (every tree shape over ListMatcher, W3 block leaf, Null, Union, DisjunctionMax, "
                  "Intersection, AndNot, AndMaybe, Require, boost, Filter, Inverse, ConstantScore, MultiMatcher and "
                  "ArrayUnionMatcher (positive scores and boost); every state, "
                  "argument and program of next/skip_to/reset): the executable model of matching/mcore.py, binary.py, wrappers.py "
                  "and W3LeafMatcher is a faithful cursor over the Layer-S result list (sorted, refine_next, refine_skipTo, "
                  "skipTo_noop, reset, wf_preserved, constructors_wf, multi_constructor_wf, aunion_constructor_wf, replace0, program = path "
                  "independence; all_ids: the base-class generator in every state, the overrides of ListMatcher, "
                  "IntersectionMatcher, WrappingMatcher, FilterMatcher, MultiMatcher, ArrayUnionMatcher between the remaining and the complete ids "
                  "and equal to stepping at the start). The model is tied to the code on every run by differential matcher "
                  "programs (ListMatcher trees, real W3LeafMatchers with blocklimit 1-4, mixed; valid and error streams; "
                  "next/skip_to/skip_to_quality/replace/reset/copy/all_ids; after a reshaping replace(q) the comparison goes on "
                  "semantically on the entries above q) and the real classes are run end-to-end against the Lean list model "
                  "(stepping, all_ids, skip_to, copy, reset, replace(0)). PreloadedUnionMatcher (matching/combo.py) has an "
                  "executable Lean model compared by the same differential programs at the root of a tree; no theorems "
                  "about it.",
    "level_note": "Partial: all_ids carries the hypothesis AllIdsPre (see the theorem); PreloadedUnion is modelled and "
                  "differentially tested but not proved; ArrayUnionMatcher: sub-matchers of one class, scored=True, positive "
                  "scores and boost (otherwise the class drops documents), float accumulation not modelled; span and nested matchers and CoordMatcher are not in the Lean model "
                  "(CoordMatcher is walked end-to-end in C12); MultiMatcher: sub-matchers of one class, score() = the current "
                  "sub-matcher's score (global and per-segment scorer agree); copy() is the identity on model values, "
                  "independence of copies is checked on the real objects; UnionMatcher._id memo not modelled; weight() and the number "
                  "of matching_terms() are modelled (WM/Model/MatcherReads.lean), proved position-dependent only (program_reads) and "
                  "compared after every operation of the reads stream; value(), spans() and the set of matching terms are compared "
                  "between visits of the same entry on the real objects only; term_matchers() and the Boolean results of "
                  "next()/skip_to() are neither modelled nor compared (compared after every operation of the cursor programs: is_active, id, score, supports_block_quality, block_quality, "
                  "max_quality; on request all_ids); path independence (program, program_replace) covers next/skip_to/reset and "
                  "next/skip_to/replace() - skip_to_quality/replace(q) are not path independent by design (C12). "
                  "Trusted: Lean kernel and compiled driver, the hand-written model (sampled correspondence, not proved), "
                  "the W3 block layout as read back from the real reader.",
    "technique": "machine-checked proof in Lean 4 over an executable model + differential correspondence check against the implementation",
}
