"""C06 — segment layout is invisible: merge and optimize preserve all logical content."""
import os
import random
import shutil

from gen import indexops as io
from props import c07

ID = "C06"
LEVEL = "proof"
LEAN_IMPORTS = ["WM.Props.C06"]
THEOREMS = ["WM.C06.content", "WM.C06.buildOnce_content", "WM.C06.partition_invisible", "WM.C06.postings_content",
            "WM.C06.layout_invisible", "WM.C06.postings_renumber", "WM.C06.postings_canonical", "WM.C06.stats",
            "WM.C06.optimize_purges", "WM.C06.readd_after_optimize", "WM.C06.group_adjacent", "WM.C06.group_history"]
PARTIAL = {
    "WM.C06.partition_invisible": "proved for partitions of a session's *additions* (any cut of a list of add_document calls "
                                  "into commits, and commit-then-add after arbitrary calls); moving a commit across a deletion "
                                  "changes the meaning (deletions act on committed documents) and is not claimed; cuts at other "
                                  "places are covered by `content` only through the dictionary state they reach",
    "WM.C06.stats": "field_length sums the stored per-document length, which the model treats as an opaque number copied by "
                    "add_reader; that the stored length byte is a fixed point of byte_to_length/length_to_byte (so a merge "
                    "cannot change it) is C09's `lengthbyte`, not re-derived here; scores are compared by the check only",
    "WM.C06.group_adjacent": "three single-step facts (a block added by a writer is adjacent after its commit; an adjacent run of "
                             "a segment survives the next commit, modulo the schema restriction of removed fields; deletions keep "
                             "the remaining members adjacent); group_history composes the first two over any history of adding / "
                             "merging sessions; a history that deletes or changes the schema after the group was committed is "
                             "covered by the single steps and by the check (group-not-adjacent on every dump) only",
    "WM.C06.group_history": "later sessions only add documents and merge (any re-arranging policy); deletions, updates and schema "
                            "changes after the group was committed are outside this theorem",
}
RULE = ("one operation list (normalised sessions: schema changes, deletions, additions) executed under 3-5 histories: "
        "sessions cut into extra commits, merge kinds re-drawn among NO_MERGE/MERGE_SMALL/OPTIMIZE, no-op commits "
        "inserted, codec block size / storage / packing re-drawn; 40% of the worlds also through SerialMpWriter/MpWriter "
        "(merged sub-segments) as one more history; every 8th world = group stream (many start_group/end_group blocks, nested "
        "to depth 2, always also through SerialMpWriter and MpWriter; every group of every level must be adjacent and in "
        "order in every dump); every 8th world = the same documents committed as 1, 2, 3 segments, "
        "then remove_field + optimize, then the name added again; schemas include a pure COLUMN field and a dynamic "
        "(glob) field that is indexed, not stored, with lengths, vector and column; non-trivial = at least two histories end in a "
        "different number of segments or different doc numbering; distinct = distinct world")
ASSUMPTIONS = c07.ASSUMPTIONS + [
    "codec bytes are abstracted: that a posting/stored/column/vector value survives a merge byte-for-byte is checked "
    "here end to end, the codecs themselves are C08/C10",
]
TRUSTED = c07.TRUSTED + ["SortingPool/heapq.merge: modelled as 'sorted permutation' (C20 owns the external sort)"]
MANIFEST = {
    "level_text": "Lean theorems over the SegmentWriter model: the content of any history (any partition into commits, any "
                  "re-arranging merge policy, CLEAR, cancels) equals that of the single optimised build of the dictionary's "
                  "final documents; every partition of the same additions into commits reaches the same dictionary state and the same "
                  "content; the live postings of the whole index are exactly those of the live documents (so the term index is "
                  "determined by the content); add_reader renumbers postings through docmap exactly; without deletions df/weight/"
                  "field length/doc count are functions of the content; OPTIMIZE purges deleted documents and removed "
                  "fields, after which a removed field name is fresh again (add_field of it refines the dictionary). Tied to whoosh by running one op list under several histories/configurations and comparing "
                  "canonical dumps pairwise, with the model (layout, MERGE_SMALL decisions, postings by number) and the spec.",
    "level_note": "Histories are compared only where the dictionary semantics says they mean the same (deletions act on "
                  "committed documents only, so commits are inserted inside the additions of a session). Scores are compared "
                  "between layouts without deletions with relative tolerance 1e-9.",
    "technique": c07.MANIFEST["technique"],
}

PROBES = c07.PROBES


def _base_world(seed_tuple):
    if seed_tuple[0] == "corpus":
        rec = io.load_corpus(seed_tuple[1])
        w = rec["world"]
        return w, [(dict(w, sessions=v[0]), v[1], v[2]) for v in rec["variants"]]
    pid, seed, tier, i = seed_tuple
    rng = random.Random("%s:%s:world:%d" % (pid, seed, i))
    if i % 8 == 7:
        # MERGE_SMALL threshold stream: only the reference history (cuts would move the threshold)
        w = io.gen_boundary_world(rng)
        cfg = io.default_config()
        cfg["blocklimit"] = rng.choice([2, 128])
        return w, [(w, list(range(len(w["sessions"]))), cfg)]
    if i % 8 == 3:
        # remove_field + optimize, then the name is added again: the same documents committed as 1, 2, 3 segments
        w, ninit = io.gen_purge_world(rng, ncuts=0)
        variants = []
        adds = w["sessions"][0][0]
        for k in (0, 1, 2):
            cuts = sorted(rng.sample(range(1, len(adds)), min(len(adds) - 1, k)))
            ss, prev = [], 0
            for c in cuts + [len(adds)]:
                ss.append([adds[prev:c], ["commit", "nomerge"]])
                prev = c
            vw = dict(w, sessions=ss + w["sessions"][1:])
            marks = [len(ss) - 1] + list(range(len(ss), len(ss) + len(w["sessions"]) - 1))
            cfg = io.default_config()
            cfg["blocklimit"] = rng.choice([1, 2, 128])
            cfg["compound"] = rng.random() < 0.7
            variants.append((vw, marks, cfg))
            if len(adds) - 1 <= k:
                break
        return w, variants
    # every 8th world = group stream: many groups, nested to depth 2 (a group opened while the enclosing one is still
    # open, documents of the outer group after the inner one closed), always through SerialMpWriter and MpWriter
    grp = i % 8 == 5
    many = rng.random() < 0.4
    if grp:
        w = io.gen_world(rng, disciplined=True, schema_changes=rng.random() < 0.3, raw_docnums=False, normalized=True,
                         groups=True, nested=True, group_p=0.4, malformed=False,
                         nsessions=rng.choice([2, 3, 4, 6]), maxops=rng.choice([3, 4, 6]))
    else:
        w = io.gen_world(rng, disciplined=True, schema_changes=rng.random() < 0.4, raw_docnums=False, normalized=True,
                         groups=rng.random() < 0.5, nsessions=rng.choice([6, 8, 10, 12]) if many else None,
                         maxops=rng.choice([2, 3]) if many else None)
    nvar = rng.choice([1, 2]) if grp else rng.choice([2, 3, 4])
    variants = []
    for v in range(nvar + 1):
        if v == 0:
            vw, marks = w, list(range(len(w["sessions"])))
        else:
            vw, marks = io.make_variant(w, rng, kinds=("nomerge", "nomerge", "small", "optimize") if many else
                                        ("nomerge", "small", "optimize"))
        cfg = io.default_config()
        cfg["blocklimit"] = rng.choice([1, 2, 3, 5, 128])
        cfg["storage"] = rng.choice(["file", "file", "ram"])
        cfg["compound"] = rng.random() < 0.7
        cfg["mmap"] = rng.random() < 0.7
        cfg["limitmb"] = rng.choice([128, 128, 0.0004, 0.002, 0.01])
        variants.append((vw, marks, cfg))
    r = rng.random()
    if grp:
        for fe in ("serialmp", "mp"):
            cfg = dict(io.default_config(), frontend=fe, procs=rng.choice([2, 3]), batchsize=rng.choice([1, 2, 3]),
                       multisegment=False, blocklimit=rng.choice([2, 128]))
            variants.append((w, list(range(len(w["sessions"]))), cfg))
    elif r < 0.4 and not any(o[0] == "addbad" for ops, _ in w["sessions"] for o in ops):
        # (a document that raises kills an MpWriter sub-process: C18's mp:sub-writer-failure scenario)
        # "forall writer front-ends": the reference history through SerialMpWriter / MpWriter (merged sub-segments)
        cfg = dict(io.default_config(), frontend="serialmp" if r < 0.3 else "mp", procs=rng.choice([2, 3]),
                   batchsize=rng.choice([1, 2, 3]), multisegment=False, blocklimit=rng.choice([2, 128]))
        variants.append((w, list(range(len(w["sessions"]))), cfg))
    return w, variants


def _run_case(seed_tuple):
    world, variants = _base_world(seed_tuple)
    out = {"world": world, "runs": []}
    for vw, marks, cfg in variants:
        base = io.new_scratch("wverif-C06-")
        try:
            if cfg.get("frontend", "plain") != "plain":
                io.allow_children()
                with io.Watchdog(120):
                    real = io.run_frontend(vw, cfg, base, probes=PROBES, dump_at=set(marks))
            else:
                real = io.run_real(vw, cfg, base, probes=PROBES, dump_at=set(marks))
            real.pop("storage", None)
            out["runs"].append({"world": vw, "marks": marks, "cfg": cfg, "real": real})
        except Exception as e:  # noqa
            import traceback
            out["runs"].append({"world": vw, "marks": marks, "cfg": cfg, "crash": "%s: %s" % (type(e).__name__, e),
                                "trace": traceback.format_exc()[-1500:]})
        finally:
            shutil.rmtree(base, ignore_errors=True)
    return out


def _canon(d, strip_not=False):
    probes = {}
    dead = set()
    for cnt, deleted, keys in d["layout"]:
        dead.update(keys[i] for i in deleted if i < len(keys))
    for name, q in PROBES:
        v = d["probes"].get(name)
        if v is None:
            continue
        v = dict((a, b) for a, b in v.items() if a not in ("scores", "top"))
        if strip_not and io.has_not(q) and "docs" in v:
            # known finding (InverseMatcher): ignore deleted documents a Not query returned
            v["docs"] = [k for k in v["docs"] if k not in dead]
            v["hits"] = [k for k in v["hits"] if k not in dead]
            v["len"] = len(v["hits"])
        probes[name] = v
    return {"docs": d["docs"], "posts": d["posts"], "count": d["doc_count"], "probes": probes}


def _close(a, b):
    return a == b or abs(a - b) <= 1e-9 * max(abs(a), abs(b))


def compare_layouts(ctx, case):
    """pairwise comparison of the runs of one world at the base session boundaries"""
    runs = [r for r in case["runs"] if "real" in r]
    nontrivial = False
    nb = len(case["world"]["sessions"])
    for bi in range(nb):
        dumps = []
        for r in runs:
            d = r["real"]["sessions"][r["marks"][bi]].get("dump")
            if d is not None:
                dumps.append((r, d))
        for (r1, d1), (r2, d2) in zip(dumps, dumps[1:]):
            where = {"world": case["world"], "a": {"sessions": r1["world"]["sessions"], "cfg": r1["cfg"]},
                     "b": {"sessions": r2["world"]["sessions"], "cfg": r2["cfg"]}, "base_session": bi}
            if d1["layout"] != d2["layout"]:
                nontrivial = True
            c1, c2 = _canon(d1), _canon(d2)
            if c1["probes"] != c2["probes"]:
                s1, s2 = _canon(d1, True), _canon(d2, True)
                if s1["probes"] == s2["probes"]:
                    ctx.violation(c07.SIG_NOT, where, c1["probes"], c2["probes"],
                                  "a Not query returned a deleted document in one layout")
                    c1, c2 = s1, s2
            for part in ("count", "docs", "posts", "probes"):
                if c1[part] != c2[part]:
                    extra = ""
                    if part == "docs":
                        df = io.diff_docs(c1["docs"], c2["docs"])
                        extra = ":" + str(df[0]) if df else ""
                    ctx.violation("layout-dependent:%s%s" % (part, extra), where, str(c1[part])[:1500], str(c2[part])[:1500],
                                  "two histories of the same operations differ in logical content")
                    break
            if not d1["has_deletions"] and not d2["has_deletions"]:
                ctx.stat("pairs-without-deletions")
                if d1["stats"] != d2["stats"]:
                    bad = [k for k in set(d1["stats"]) | set(d2["stats"]) if d1["stats"].get(k) != d2["stats"].get(k)][:3]
                    ctx.violation("layout-dependent:term-statistics", dict(where, terms=bad),
                                  [d1["stats"].get(k) for k in bad], [d2["stats"].get(k) for k in bad],
                                  "doc_frequency/frequency differ between layouts without deletions")
                if d1["field_length"] != d2["field_length"]:
                    ctx.violation("layout-dependent:field_length", where, d1["field_length"], d2["field_length"],
                                  "field_length() differs between layouts without deletions")
                for name in d1["probes"]:
                    s1, s2 = d1["probes"][name].get("scores"), d2["probes"][name].get("scores")
                    if s1 is None or s2 is None:
                        continue
                    if len(s1) != len(s2) or any(a[0] != b[0] or not _close(a[1], b[1]) for a, b in zip(s1, s2)):
                        ctx.violation("layout-dependent:scores", dict(where, probe=name), s1[:10], s2[:10],
                                      "scores differ between layouts without deletions")
            else:
                ctx.stat("pairs-with-deletions")
        for r, d in dumps:
            gv = io.group_violation(r["world"], d["layout"])
            if gv is not None:
                ctx.violation("group-not-adjacent", {"world": r["world"], "cfg": r["cfg"], "base_session": bi},
                              gv[0], gv[1], "documents added as one group are not adjacent/in order")
    return nontrivial


def run(ctx):
    n = ctx.budget(150, 2400)
    corpus = io.corpus_items(ID)
    ctx.stat("corpus-cases", len(corpus))
    seeds = corpus + [(ID, ctx.seed, ctx.tier, i) for i in range(n)]
    cases = ctx.pmap(_run_case, seeds, chunksize=4)
    # model/spec for every run
    flat = []
    for c in cases:
        for r in c["runs"]:
            flat.append(r)
    replies = c07._lean_batch(ctx, flat, family="c07")
    for fi, r in enumerate(flat):
        if "crash" in r:
            ctx.stat("crash:" + r["crash"].split(":")[0])
            ctx.violation("history raised " + r["crash"].split(":")[0], {"world": r["world"], "cfg": r["cfg"]},
                          "no exception", r["crash"] + "\n" + r.get("trace", ""), "a writer history raised")
            continue
        fe = r["cfg"].get("frontend", "plain")
        if fe != "plain":
            # against the specification only (the SegmentWriter layout model does not apply), then pairwise below
            for si, (rs, ms) in enumerate(zip(r["real"]["sessions"], replies[fi])):
                d = rs.get("dump")
                if d is None or "error" in ms:
                    continue
                where = {"world": r["world"], "cfg": r["cfg"], "session": si, "label": "frontend-run"}
                c07._against_spec(ctx, where, r["tables"], ms["spec"], io.expected_dump(r["tables"], ms["spec"]), d)
                c07.optimize_purges(ctx, where, rs["end"], d)
            ctx.stat("runs:" + fe)
            continue
        c07.check_case(ctx, ID, r, replies[fi], "layout-run")
        ctx.stat("runs")
    for i, c in enumerate(cases):
        nt = compare_layouts(ctx, c)
        ctx.case(("world", seeds[i][1] if seeds[i][0] == "corpus" else (ctx.seed, i)), nontrivial=nt, n=len(c["runs"]))
        if len(corpus) <= i < len(corpus) + 2:
            ctx.sample({"base": c["world"]["sessions"][:2], "variant": c["runs"][-1]["world"]["sessions"][:4]})


def replay(ctx, rec):
    case = rec.get("case", {})
    if "a" in case and "b" in case:
        runs = []
        for side in ("a", "b"):
            w = dict(case["world"])
            w["sessions"] = case[side]["sessions"]
            base = io.new_scratch("wverif-C06-")
            try:
                if case[side]["cfg"].get("frontend", "plain") != "plain":
                    io.allow_children()
                    real = io.run_frontend(w, case[side]["cfg"], base, probes=PROBES)
                else:
                    real = io.run_real(w, case[side]["cfg"], base, probes=PROBES, dump_each=False)
                real.pop("storage", None)
                runs.append(real["sessions"][-1]["dump"])
            finally:
                shutil.rmtree(base, ignore_errors=True)
        print("A:", str(_canon(runs[0]))[:2000])
        print("B:", str(_canon(runs[1]))[:2000])
        return _canon(runs[0]) != _canon(runs[1]) or runs[0]["field_length"] != runs[1]["field_length"]
    if case.get("cfg", {}).get("frontend", "plain") != "plain":
        io.allow_children()
        base = io.new_scratch("wverif-C06-")
        try:
            real = io.run_frontend(case["world"], case["cfg"], base, probes=PROBES)
        except Exception as e:  # noqa
            print("history raised: %r" % (e,))
            return True
        finally:
            shutil.rmtree(base, ignore_errors=True)
        r = {"world": case["world"], "cfg": case["cfg"], "real": real}
        reply = c07._lean_batch(ctx, [r])[0]
        for si, (rs, ms) in enumerate(zip(real["sessions"], reply)):
            if rs.get("dump") is not None and "error" not in ms:
                c07._against_spec(ctx, {"session": si}, r["tables"], ms["spec"], io.expected_dump(r["tables"], ms["spec"]),
                                  rs["dump"])
        for v in ctx.violations:
            print(v["signature"], "expected:", str(v["expected"])[:500], "observed:", str(v["observed"])[:500])
        return bool(ctx.violations)
    return c07.replay(ctx, rec)
