"""C19 - fuzzy matching and spelling suggestions are exact with respect to edit distance.

Streams (all of them on every run, budgets differ by tier):
  dp        support/levenshtein.py   model `dp` <-> levenshtein/damerau_levenshtein, and <-> spec lev/osa
  automaton automata/lev.py, fsa.py  model NFA/DFA/next_valid_string <-> real objects (accept, tables, successor)
  index     reader.terms_within (SegmentReader = DFA walk, MultiReader = filter by distance()),
            FuzzyTerm searches, Searcher.suggest  <-> model, and <-> the Lean spec `within osa`
  multibyte the same on sampled lexicons over multi-byte alphabets (incl. U+0000, U+10FFFF, both
            neighbours of the surrogate block, non-BMP); the model walks the byte-ordered dictionary here
  utf8      FieldType.to_bytes <-> model utf8Encode (UnicodeEncodeError on surrogates), byte order <-> code
            point order, the real W3FieldCursor.find/text <-> model cursorFindBytes
  fne       DFA.find_next_edge in every state reached on the probes <-> model findNextEdge (direct)
  merge     reader.lexicon / terms_from / expand_prefix / terms_within of multi-segment readers over generated
            segment layouts (overlapping, disjoint, identical, contiguous ranges; 1..6 segments) <-> model
            mergeTerms / termsFromMulti / expandPrefixMulti / termsWithinMulti (MultiReader._merge_terms, the
            early exit of expand_prefix), and <-> the sorted union / within osa of the union; the same FuzzyTerm
            through Query.docs(searcher) (one expansion by the MultiReader: model fuzzyDocsTop, documented distance),
            Searcher.docs_for_query and search (per segment: model fuzzyDocsIndex)
Exhaustive domains: all words of length <= 5 over {a,b} and <= 4 over {a,b,c} as lexicon members
and as query words, d in 0..3, p in 0..6.
"""
import json
import os

from vcheck import parse_sexp

from gen import fuzzy as G

ID = "C19"
LEVEL = "proof"
LEAN_IMPORTS = ["WM.Props.C19"]
THEOREMS = [
    "WM.C19.lev_min_script", "WM.C19.osa_min_script", "WM.C19.osa_le_lev", "WM.C19.dist_symm",
    "WM.C19.dist_strip_prefix",
    "WM.C19.dp_lev", "WM.C19.dp_osa", "WM.C19.dp_lev_limit", "WM.C19.dp_osa_limit",
    "WM.C19.nfa_reach_sound", "WM.C19.nfa_reach_complete", "WM.C19.nfa", "WM.C19.dfa", "WM.C19.next_valid",
    "WM.C19.walk", "WM.C19.terms_within_multi", "WM.C19.terms_within_single",
    "WM.C19.merge_terms", "WM.C19.expand_prefix_multi", "WM.C19.terms_within_multi_index",
    "WM.C19.terms_within_multi_layout", "WM.C19.layout_eq_optimized_partial",
    "WM.C19.utf8_order", "WM.C19.utf8_injective", "WM.C19.cursor_bytes", "WM.C19.terms_within_single_bytes",
    "WM.C19.fuzzy_query", "WM.C19.fuzzy_query_index", "WM.C19.fuzzy_query_docs_top", "WM.C19.fuzzy_access_paths_disagree", "WM.C19.multi_eq_single_partial", "WM.C19.single_subset_documented",
    "WM.C19.single_segment_misses_transposition", "WM.C19.not_multi_eq_single",
    "WM.C19.suggest_partial", "WM.C19.suggest_single_partial", "WM.C19.suggest_returns_word",
    "WM.C19.suggest_ignores_distance", "WM.C19.not_suggest_full",
    "WM.C19.list_corrector_partial", "WM.C19.list_corrector_misses_transposition",
    "WM.C19.multi_corrector", "WM.C19.multi_corrector_partial",
    "WM.C19.correct_query_partial", "WM.C19.correct_query_single_partial",
]
PARTIAL = {
    "WM.C19.terms_within_single": "exact characterisation of the single-segment path, but by plain Levenshtein distance "
                                  "(within lev); the property's distance is the documented osa - the difference is "
                                  "the recorded finding, witness WM.C19.single_segment_misses_transposition / "
                                  "WM.C19.not_multi_eq_single",
    "WM.C19.terms_within_single_bytes": "as terms_within_single, over the dictionary ordered by UTF-8 key bytes "
                                        "(same recorded deviation: lev instead of the documented osa)",
    "WM.C19.fuzzy_query": "exact characterisation of FuzzyTerm hits on one segment, by lev instead of the documented "
                          "osa (recorded finding; the empty-term omission was repaired in MultiTerm.matcher)",
    "WM.C19.fuzzy_query_index": "the union over the segments of a multi-segment index (global document numbers); same "
                                "deviation as fuzzy_query; Query.docs(searcher) on a multi-segment index does meet the "
                                "documented distance (WM.C19.fuzzy_query_docs_top, full strength) - the two access paths "
                                "disagree: WM.C19.fuzzy_access_paths_disagree",
    "WM.C19.multi_eq_single_partial": "carries the hypothesis that excludes the recorded defect (no lexicon term has "
                                      "osa <= d < lev); the full statement WM.C19.multi_eq_single_full is false of "
                                      "the code: WM.C19.not_multi_eq_single (witness lexicon [ba], word ab, d=1)",
    "WM.C19.layout_eq_optimized_partial": "one optimized segment and any layout of the same terms give the same "
                                          "terms_within result under the hypothesis that excludes the recorded defect "
                                          "(no term with osa <= d < lev); without it the statement is false "
                                          "(WM.C19.single_segment_misses_transposition); layouts among themselves agree "
                                          "unconditionally (WM.C19.terms_within_multi_layout)",
    "WM.C19.suggest_partial": "proves membership (existing terms within the documented distance sharing the prefix) "
                              "and the count min(limit, #terms); the full statement WM.C19.suggest_full (never the "
                              "word itself, ordered by closeness then frequency, best-first cut) is false of the code: "
                              "WM.C19.not_suggest_full, witnesses WM.C19.suggest_returns_word, "
                              "WM.C19.suggest_ignores_distance",
    "WM.C19.suggest_single_partial": "as suggest_partial through the automaton path",
    "WM.C19.list_corrector_partial": "membership (non-empty words of the list within plain Levenshtein, hence documented, "
                                     "distance sharing the prefix) and the limit; the list measures lev, not the "
                                     "documented osa: WM.C19.list_corrector_misses_transposition; the word itself is "
                                     "not excluded",
    "WM.C19.multi_corrector_partial": "MultiCorrector([reader corrector, ListCorrector], op), any op: succeeds, at most "
                                      "`limit` suggestions, none twice, each a field term or list word within the "
                                      "documented distance sharing the prefix; ranking / self-exclusion are the "
                                      "recorded defects of the sub-correctors (suggest_ignores_distance, "
                                      "suggest_returns_word), so 'ordered by closeness' is not claimed",
    "WM.C19.correct_query_partial": "the replacement is the word itself or a term within the documented distance sharing "
                                    "the prefix; that it is the closest such term is false of the code (ranking by "
                                    "frequency: WM.C19.suggest_ignores_distance)",
    "WM.C19.correct_query_single_partial": "as correct_query_partial, single-segment reader and ListCorrector",
}
RULE = ("exhaustive: every word of length <=5 over {a,b} and <=4 over {a,b,c} as query word against lexicons "
        "containing all such words (one segment / three segments) and seeded sub-lexicons, d in 0..3, p in 0..6, "
        "plus sampled multi-byte lexicons and exhaustive lexicons (all words <=3) over five 3-letter alphabets that "
        "straddle the surrogate block, U+10FFFF and the 1/2/3/4-byte UTF-8 boundaries; a case is one (component, lexicon, word, d, p[, limit]) evaluation; "
        "non-trivial = the distance bound really cuts (result neither empty nor the whole prefix-filtered "
        "lexicon) for index cases, both words non-empty and different for dp cases, 0 < accepted < probes for "
        "automaton cases; find_next_edge cases: the three outcomes (next code point / a later label / none) all "
        "occur for the automaton; utf8 cases: a non-ASCII character is present; cursor cases: the cursor lands on a "
        "later term that is not the first; merge cases: one (layout, call, prefix | word, d, p) evaluation over "
        "generated segment layouts of one term set, non-trivial = several segments with some but not all terms "
        "shared (lexicon), result neither empty nor everything (terms_from / expand_prefix / terms_within)")
ASSUMPTIONS = [
    "str.encode('utf-8') is the bit layout of WM.Lev.utf8Char and raises on surrogates (checked against "
    "FieldType.to_bytes on every run, incl. every length boundary, both neighbours of the surrogate block and "
    "non-BMP characters; that this byte order is code point order is proved: WM.C19.utf8_order)",
    "closest_key_pos of the term index returns the first key >= the argument in byte order (C20's ordered hash; "
    "checked here through the real field cursor against cursorFindBytes)",
    "heapq keeps the minimum at heap[0] (the heap is a sorted list in the model)",
    "float scores 0-(maxdist+1.0/f*0.5) order like the exact rationals of the model (frequencies are small integers)",
    "every segment reader's terms_from(field, prefix) yields its sorted term list from the first term >= prefix "
    "(the term cursor of C20's ordered hash; checked through the real cursor in the utf8 stream); that the merged "
    "term list of a MultiReader is then the strictly sorted union and that expand_prefix's early exit loses nothing "
    "is proved (WM.C19.merge_terms, expand_prefix_multi, terms_within_multi_index); the merge model works on code "
    "points, the real merge compares key bytes - the same order by WM.C19.utf8_order",
]
TRUSTED = [
    "modelled, not verified: whoosh.support.levenshtein (both routines), automata.lev.levenshtein_automaton, "
    "automata.fsa NFA/DFA (expand, next_state, to_dfa, next_valid_string, find_next_edge), "
    "codec.base.Automata.find_matches, reading.IndexReader.terms_within / expand_prefix, "
    "reading.MultiReader._merge_terms / terms_from (heapq trusted), spelling.Corrector.suggest / "
    "ReaderCorrector._suggestions, ListCorrector._suggestions, MultiCorrector._suggestions (dict in insertion "
    "order), FieldType.to_bytes (UTF-8) and "
    "W3FieldCursor.find/text as 'first key >= in byte order'",
]
MANIFEST = {
    "level_text": "Lean theorems (all words, all lexicons, all limits, all d/p) over executable models of the two "
                  "edit-distance routines, the Levenshtein NFA, the subset construction, next_valid_string, the term "
                  "walk (also over the dictionary ordered by UTF-8 key bytes: byte order = code point order is a "
                  "theorem) and both terms_within paths: the multi-segment path returns exactly the terms within the "
                  "documented (optimal string alignment) distance, the single-segment path exactly those within "
                  "plain Levenshtein distance - so the property is proved false of the code (recorded finding); "
                  "models tied to whoosh by exhaustive differential runs over all words <=5 on {a,b} / <=4 on "
                  "{a,b,c}; the Lean spec is the oracle of the end-to-end run.",
    "level_note": "Searcher.suggest / Searcher.correct_query / SimpleQueryCorrector are thin wrappers: correctToken models "
                  "the choice of the first suggestion, the argument forwarding (prefix, maxdist, aliases, custom "
                  "correctors, default terms) is checked end to end only. MultiCorrector is modelled (multiSuggest; run against "
                  "the real class with op = min and the default max on every run) and proved to merge a word proposed by "
                  "several correctors into one suggestion (multi_corrector). Suggestions: only membership and count are proved (ranking/self-exclusion are recorded defects). "
                  "heapq and float score order are trusted; MultiReader term merging and the early exit of expand_prefix "
                  "are modelled and proved (merge_terms, expand_prefix_multi, terms_within_multi_index: the multi-segment "
                  "result is within osa of the sorted union of the segment term lists, the same for every layout); "
                  "UTF-8 byte order = code "
                  "point order is proved (utf8_order) and the walk is proved over the byte-ordered dictionary "
                  "(terms_within_single_bytes); the fuel bounds of the three fuelled model loops are proved sufficient.",
    "technique": "Lean 4 proof + differential correspondence + spec-as-oracle end-to-end",
}

SIG_TRANSP_TW = "SegmentReader.terms_within:transposition-neighbours-missing(result==plain-Levenshtein-ball)"
SIG_TRANSP_FUZZY = "FuzzyTerm.search:transposition-neighbours-missing(hits==docs-of-plain-Levenshtein-ball)"
SIG_PREFIX = "levenshtein_automaton:prefix>len(term):IndexError"
SIG_EMPTY = "Automata.find_matches:empty-string-match-ends-walk(lexicon-contains-empty-term)"
SIG_MAXCP = "DFA.find_next_edge:label==U+10FFFF:ValueError"
SIG_SURR = "DFA.find_next_edge:label-after-U+D7FF-is-a-surrogate:UnicodeEncodeError-in-cursor.find"
SIG_EMPTYTERM = "MultiTerm.matcher:skips-empty-term(hits==expected-minus-docs-of-the-empty-term)"
SIG_LIST_LEV = ("ListCorrector._suggestions:plain-Levenshtein-automaton(transposition-neighbour-missing-or-ranked-"
                "one-further)")
SIG_SUG_SELF = "Corrector.suggest:returns-queried-word"
SIG_SUG_ORDER = "ReaderCorrector._suggestions:order-ignores-distance(score-uses-maxdist)"
SIG_SUG_CUT = "Corrector.suggest:cut-drops-closer-term(score-uses-maxdist-or-Levenshtein-ball)"

DS = [0, 1, 2, 3]
PS = [0, 1, 2, 3, 4, 5, 6]
MAXCP = chr(0x10FFFF)
LASTLOW = chr(0xD7FF)        # the last code point before the surrogate block
FIRSTHIGH = chr(0xE000)      # the first one after it


# ------------------------------------------------------------------------------------------------
# small helpers

def _grid(tree, ds, ps):
    """driver grid reply -> {(d,p): item}"""
    out = {}
    k = 0
    for d in ds:
        for p in ps:
            out[(d, p)] = tree[k]
            k += 1
    return out


def _words_or_err(item):
    if isinstance(item, str):
        return item
    return G.parse_words(item)


def _share_prefix(p, t, w):
    return t.startswith(w[:p])


# ------------------------------------------------------------------------------------------------
# stream 1: the DP routines

def _dp_stream(ctx):
    rng = ctx.rng("dp")
    pairs = []
    for alpha, n in (("ab", 5), ("abc", 4)):
        W = G.words_upto(alpha, n)
        pairs += [(a, b) for a in W for b in W]
    # longer / multi-byte samples, with limits that make the early exit fire or just not fire
    alph = ["a", "b", "c", "é", "中", "\U0001F600", "\x00", MAXCP]
    for _ in range(ctx.budget(1000, 40000)):
        k = rng.randint(2, 4)
        al = rng.sample(alph, k)
        a = "".join(rng.choice(al) for _ in range(rng.randint(0, 8)))
        if rng.random() < 0.5:
            # a near neighbour of a: a few random edits
            b = list(a)
            for _ in range(rng.randint(0, 4)):
                op = rng.randint(0, 3)
                i = rng.randint(0, len(b))
                if op == 0:
                    b.insert(i, rng.choice(al))
                elif op == 1 and b:
                    del b[min(i, len(b) - 1)]
                elif op == 2 and b:
                    b[min(i, len(b) - 1)] = rng.choice(al)
                elif op == 3 and len(b) >= 2:
                    j = min(i, len(b) - 2)
                    b[j], b[j + 1] = b[j + 1], b[j]
            b = "".join(b)
        else:
            b = "".join(rng.choice(al) for _ in range(rng.randint(0, 8)))
        pairs.append((a, b))
    limits = [None, 0, 1, 2, 3, 5]
    chunks = [pairs[i:i + 2000] for i in range(0, len(pairs), 2000)]
    real = []
    for part in ctx.pmap(G.run_dp_unit, [(c, limits) for c in chunks]):
        real.extend(part)
    lines = []
    for a, b in pairs:
        lines.append("c19 spec lev %s %s" % (G.sx_word(a), G.sx_word(b)))
        lines.append("c19 spec osa %s %s" % (G.sx_word(a), G.sx_word(b)))
        for dn in ("lev", "osa"):
            for lim in limits:
                lines.append("c19 dp %s %s %s %s" % (dn, G.sx_word(a), G.sx_word(b), "none" if lim is None else lim))
    rep = ctx.driver.ask(lines)
    per = 2 + 2 * len(limits)
    for idx, (a, b) in enumerate(pairs):
        blk = rep[idx * per:(idx + 1) * per]
        spec = {"lev": int(blk[0]), "osa": int(blk[1])}
        pos = 2
        for fi, dn in enumerate(("lev", "osa")):
            fname = "levenshtein" if dn == "lev" else "damerau_levenshtein"
            for li, lim in enumerate(limits):
                model = blk[pos]
                pos += 1
                impl = real[idx][fi][li]
                exited = isinstance(impl, int) and lim and impl == lim + 1 and spec[dn] > lim + 1
                ctx.case(("dp", dn, a, b, lim), nontrivial=bool(a) and bool(b) and a != b)
                if exited:
                    ctx.stat("dp:%s:early-exit-cut" % dn)
                if str(impl) != model:
                    ctx.divergence("support.levenshtein.%s" % fname, [a, b, lim], model, impl)
                # end-to-end against the specification
                if not isinstance(impl, int):
                    ctx.violation("%s:raises" % fname, {"kind": "dp", "fn": dn, "a": a, "b": b, "limit": lim},
                                  spec[dn], impl, "edit distance routine raised")
                elif not lim:
                    if impl != spec[dn]:
                        ctx.violation("%s:distance!=spec(no-limit)" % fname,
                                      {"kind": "dp", "fn": dn, "a": a, "b": b, "limit": lim}, spec[dn], impl,
                                      "distance differs from the specification")
                else:
                    if min(impl, lim + 1) != min(spec[dn], lim + 1) or (impl <= lim and impl != spec[dn]):
                        ctx.violation("%s:limit-decision!=spec" % fname,
                                      {"kind": "dp", "fn": dn, "a": a, "b": b, "limit": lim}, spec[dn], impl,
                                      "result with limit contradicts the specification (<= limit decision)")
    ctx.sample({"dp": ["ab", "ba"], "lev": 2, "osa": 1})


# ------------------------------------------------------------------------------------------------
# stream 2: automata

def _model_dfa_dump(text):
    tree = parse_sexp(text)[0]
    initial, trans, defaults, finals = tree

    def ss(x):
        return tuple(sorted((int(a), int(b)) for a, b in x))
    tr = {}
    for src, label, dest in reversed(trans):       # newest binding first in the model
        tr[(ss(src), int(label))] = ss(dest)
    df = {}
    for src, dest in reversed(defaults):
        df[ss(src)] = ss(dest)
    return ss(initial), tr, df, set(ss(f) for f in finals)


def _automaton_stream(ctx, domains):
    units, meta = [], []
    for name, W, probes in domains:
        for w in W:
            units.append((w, DS, PS, probes))
            meta.append((name, w, probes))
    real = ctx.pmap(G.run_automaton_unit, units)
    lines = []
    for (name, w, probes) in meta:
        for k in DS:
            for p in PS:
                args = "%s %d %d" % (G.sx_word(w), k, p)
                lines.append("c19 nfa-accept %s %s" % (args, G.sx_words(probes)))
                lines.append("c19 dfa-accept %s %s" % (args, G.sx_words(probes)))
                lines.append("c19 nvs %s %s" % (args, G.sx_words(probes)))
                lines.append("c19 dfa-dump %s" % args)
    rep = ctx.driver.ask(lines)
    pos = 0
    for (name, w, probes), rl in zip(meta, real):
        for k in DS:
            for p in PS:
                m_na, m_da, m_nv, m_dump = rep[pos:pos + 4]
                pos += 4
                r = rl[(k, p)]
                case = {"kind": "automaton", "w": w, "k": k, "p": p}
                if isinstance(r, str):
                    ctx.case(("auto", w, k, p), nontrivial=False)
                    ctx.stat("automaton:" + r)
                    if r == "EXC:IndexError" and p > len(w):
                        ctx.violation(SIG_PREFIX, case, "an automaton", r,
                                      "levenshtein_automaton(term, k, prefix) with prefix > len(term) raises")
                    else:
                        ctx.violation("levenshtein_automaton/to_dfa:raises:" + r, case, "an automaton", r, "")
                    continue
                na, da, nv, dump = r
                m_na = [x == "1" for x in parse_sexp(m_na)[0]]
                m_da = [x == "1" for x in parse_sexp(m_da)[0]] if not m_da.startswith("err") else m_da
                ctx.case(("auto", w, k, p), nontrivial=0 < sum(na) < len(na))
                if m_na != na:
                    ctx.divergence("automata.fsa.NFA.accept", [w, k, p], m_na, na)
                if m_da != da:
                    ctx.divergence("automata.fsa.DFA.accept", [w, k, p], m_da, da)
                if m_nv.startswith("err"):
                    ctx.divergence("automata.fsa.DFA.next_valid_string", [w, k, p], m_nv, "(terminates)")
                else:
                    mv = [None if x == "none" else G.uncps(x) for x in parse_sexp(m_nv)[0]]
                    if mv != nv:
                        ctx.divergence("automata.fsa.DFA.next_valid_string", [w, k, p], mv, nv)
                if m_dump.startswith("err"):
                    ctx.divergence("automata.fsa.NFA.to_dfa", [w, k, p], m_dump, "(terminates)")
                else:
                    md = _model_dfa_dump(m_dump)
                    if md != dump:
                        ctx.divergence("automata.fsa.NFA.to_dfa", [w, k, p], "tables differ", "tables differ")
                    ctx.stat("dfa-states", len(set(s for s, _ in dump[1]) | set(dump[1].values()) | {dump[0]}))
    ctx.stat("automata", len(units) * len(DS) * len(PS))


# ------------------------------------------------------------------------------------------------
# stream 2b: find_next_edge, directly

FNE_LABELS = [0, 0x60, 0x61, 0x62, 0x63, 0xD7FE, 0xD7FF, 0xD800, 0xDFFF, 0xE000, 0x10FFFE, 0x10FFFF]


def _fne_stream(ctx, words, probes):
    units = [(w, DS, [0, 1, 2, 6], probes, FNE_LABELS) for w in words]
    real = ctx.pmap(G.run_fne_unit, units)
    lines = []
    for w in words:
        for k in DS:
            for p in [0, 1, 2, 6]:
                lines.append("c19 fne %s %d %d %s %s" % (G.sx_word(w), k, p, G.sx_words(probes), G.sx_nats(FNE_LABELS)))
    rep = ctx.driver.ask_parallel(lines, min_chunk=20)
    pos = 0
    for w, rl in zip(words, real):
        for k in DS:
            for p in [0, 1, 2, 6]:
                line = rep[pos]
                pos += 1
                r = rl[(k, p)]
                if isinstance(r, str) or line.startswith("err"):
                    ctx.case(("fne", w, k, p), nontrivial=False)
                    ctx.divergence("automata.fsa.DFA.find_next_edge", [w, k, p], line[:80], r if isinstance(r, str) else "ok")
                    continue
                model = [[None if x == "none" else int(x) for x in row] for row in parse_sexp(line)[0]]
                kinds = set()
                for u, mrow, rrow in zip(probes, model, r):
                    for lab, m, o in zip([None] + FNE_LABELS, mrow, rrow):
                        kinds.add("none" if o is None else ("same" if o == (0 if lab is None else lab + 1) else "skip"))
                        ctx.stat("fne:" + ("none" if o is None else
                                           "surrogate-gap" if (lab is not None and 0xD7FF <= lab <= 0xDFFF and o == 0xE000)
                                           else "next-code-point" if o == (0 if lab is None else lab + 1)
                                           else "bisect"))
                        if m != o:
                            ctx.divergence("automata.fsa.DFA.find_next_edge", [w, k, p, u, lab], m, o)
                        if o is not None and 0xD800 <= o <= 0xDFFF:
                            ctx.violation("DFA.find_next_edge:returns-a-surrogate", {"kind": "fne", "w": w, "k": k, "p": p,
                                          "u": u, "label": lab}, "a character", o,
                                          "a label that no term can contain and cursor.find cannot encode")
                ctx.case(("fne", w, k, p), nontrivial=len(kinds) == 3)


# ------------------------------------------------------------------------------------------------
# stream 2c: UTF-8 and the byte-level cursor

def _utf8_stream(ctx):
    rng = ctx.rng("utf8")
    bounds = [0, 1, 0x7F, 0x80, 0x7FF, 0x800, 0xFFF, 0x1000, 0xD7FF, 0xD800, 0xDBFF, 0xDC00, 0xDFFF, 0xE000,
              0xFFFD, 0xFFFF, 0x10000, 0x10001, 0x3FFFF, 0x40000, 0xFFFFF, 0x100000, 0x10FFFE, 0x10FFFF]
    words = [chr(c) for c in bounds]
    cps = bounds + [rng.randint(0, 0x10FFFF) for _ in range(40)]
    for _ in range(ctx.budget(300, 5000)):
        words.append("".join(chr(rng.choice(cps) if rng.random() < 0.6 else rng.randint(0, 0x10FFFF))
                             for _ in range(rng.randint(0, 4))))
    real = []
    for part in ctx.pmap(G.run_utf8_unit, [words[i:i + 500] for i in range(0, len(words), 500)]):
        real.extend(part)
    rep = ctx.driver.ask(["c19 utf8 %s" % G.sx_words(words[i:i + 500]) for i in range(0, len(words), 500)])
    model = []
    for line in rep:
        for item in parse_sexp(line)[0]:
            model.append("EXC:UnicodeEncodeError" if item == "err:UnicodeEncodeError" else
                         item if isinstance(item, str) else [int(x) for x in item])
    valid = []
    for w, m, o in zip(words, model, real):
        surr = any(0xD800 <= ord(c) <= 0xDFFF for c in w)
        ctx.case(("utf8", w), nontrivial=any(ord(c) >= 0x80 for c in w))
        ctx.stat("utf8:" + ("surrogate" if surr else "max-bytes-%d" % max([len(c.encode("utf8")) for c in w] or [0])))
        if m != o:
            ctx.divergence("FieldType.to_bytes(utf8)", [w], m, o)
        if not surr:
            valid.append((w, o))
    # byte order is code point order (the statement of WM.C19.utf8_order, observed on the real encoder)
    for _ in range(ctx.budget(2000, 40000)):
        (a, ba), (b, bb) = rng.choice(valid), rng.choice(valid)
        if isinstance(ba, str) or isinstance(bb, str):
            continue
        ca, cb = [ord(c) for c in a], [ord(c) for c in b]
        ctx.stat("utf8-order:" + ("lt" if ca < cb else "eq" if ca == cb else "gt"))
        if (ca < cb) != (ba < bb) or (ca == cb) != (ba == bb):
            ctx.violation("utf8:byte-order!=code-point-order", {"kind": "utf8", "a": a, "b": b}, ca < cb, ba < bb, "")
    # the real field cursor against the model's byte-level cursor
    units, meta = [], []
    pool = ["a", "b", "\x00", "\x7f", "\x80", "߿", "ࠀ", LASTLOW, FIRSTHIGH, "￿", "\U00010000", MAXCP]
    for i in range(ctx.budget(12, 120)):
        al = rng.sample(pool, rng.randint(2, 5))
        lex = set()
        for _ in range(rng.randint(1, 25)):
            lex.add("".join(rng.choice(al) for _ in range(rng.randint(0, 4))))
        lex = G.utf8_sorted(lex)
        terms = list(lex) + [t + "\0" for t in lex[:8]]
        for _ in range(12):
            terms.append("".join(rng.choice(al + pool[:2]) for _ in range(rng.randint(0, 4))))
        terms.append("a\ud800")           # cannot be encoded
        terms.append(rng.choice(lex) + "\udfff")
        units.append(("cur%d" % i, lex, terms))
        meta.append((lex, terms))
    real = ctx.pmap(G.run_cursor_unit, units)
    rep = ctx.driver.ask(["c19 cursor-bytes %s %s" % (G.sx_words(lex), G.sx_words(terms)) for lex, terms in meta])
    for (lex, terms), r, line in zip(meta, real, rep):
        if r["order"] != lex:
            ctx.violation("W3FieldCursor:iteration-order!=utf8-byte-order", {"kind": "cursor", "lex": lex}, lex,
                          r["order"], "the field cursor does not enumerate the terms in byte (= code point) order")
        for t, item, o in zip(terms, parse_sexp(line)[0], r["find"]):
            m = ("EXC:UnicodeEncodeError" if item == "err:UnicodeEncodeError" else
                 None if item == "none" else G.uncps(item))
            exp = next((x for x in lex if [ord(c) for c in x] >= [ord(c) for c in t]), None)
            surr = any(0xD800 <= ord(c) <= 0xDFFF for c in t)
            ctx.case(("cursor", tuple(lex), t), nontrivial=exp is not None and exp != t and exp != lex[0])
            ctx.stat("cursor.find:" + ("surrogate" if surr else "past-end" if exp is None else
                                       "exact" if exp == t else "next"))
            if m != o:
                ctx.divergence("W3FieldCursor.find/text", [lex, t], m, o)
            if not surr and o != exp:
                ctx.violation("W3FieldCursor.find:not-the-first-term>=argument(code-point-order)",
                              {"kind": "cursor", "lex": lex, "t": t}, exp, o, "")


# ------------------------------------------------------------------------------------------------
# stream 3: index paths

class Config(object):
    """One index layout: segments of documents (one term per document)."""

    def __init__(self, key, segs):
        self.key = key
        self.segs = segs
        self.seglex = [G.utf8_sorted(seg) for seg in segs]
        self.lex = G.utf8_sorted([t for seg in segs for t in seg])
        self.freq = {}
        for seg in segs:
            for t in seg:
                self.freq[t] = self.freq.get(t, 0) + 1
        self.docs = [t for seg in segs for t in seg]    # stored n = position in this list
        self.multi = len(segs) > 1


def _configs_for(ctx, name, W, nsub):
    rng = ctx.rng("cfg:" + name)
    cfgs = [Config(name + ":full1", [list(W)]),
            Config(name + ":full3", [W[0::3], W[1::3], W[2::3]])]
    for s in range(nsub):
        dens = rng.choice([0.08, 0.2, 0.45])
        S = [w for w in W if rng.random() < dens] or [rng.choice(W)]
        # repeated documents give different frequencies
        docs = []
        for t in S:
            docs += [t] * rng.choice([1, 1, 1, 2, 3, 5])
        rng.shuffle(docs)
        cfgs.append(Config("%s:sub%d:1seg" % (name, s), [docs]))
        cut = rng.randint(1, max(1, len(docs) - 1))
        segs = [docs[:cut], docs[cut:]]
        segs = [sg for sg in segs if sg]
        if len(segs) > 1:
            cfgs.append(Config("%s:sub%d:2seg" % (name, s), segs))
    return cfgs


def _group(name, W, cfgs, ds, ps, sug_ds, sug_ps, limits, want_sug_on, bytes_cursor=False):
    """bytes_cursor: the model walks the byte-ordered dictionary (findMatchesBytes: UTF-8 keys, encode errors)
    instead of the code point ordered lexicon (findMatches); equal for real characters by
    WM.C19.terms_within_single_bytes, used for the multi-byte groups."""
    return dict(name=name, W=W, cfgs=cfgs, ds=ds, ps=ps, sug_ds=sug_ds, sug_ps=sug_ps, limits=limits,
                want_sug_on=want_sug_on, bytes_cursor=bytes_cursor)


def _group_units(g):
    W, cfgs, ds, ps, sug_ds, sug_ps, limits, want_sug_on = (g[k] for k in (
        "W", "cfgs", "ds", "ps", "sug_ds", "sug_ps", "limits", "want_sug_on"))
    # ---- real code: one unit per (config, chunk of words)
    units, umeta = [], []
    chunk = max(1, len(W) // 8)
    for cfg in cfgs:
        want = {"tw", "fuzzy"}
        for i in range(0, len(W), chunk):
            ws = W[i:i + chunk]
            units.append((cfg.key, cfg.segs, [(w, ds, ps) for w in ws], want, []))
            umeta.append((cfg, "main"))
            if want_sug_on(cfg):
                units.append((cfg.key, cfg.segs, [(w, sug_ds, sug_ps) for w in ws], {"suggest", "correct"}, limits))
                umeta.append((cfg, "sug"))
    return units, umeta


def _group_lexs(g):
    seglexs = []      # every distinct segment lexicon (walked by the automaton path)
    for cfg in g["cfgs"]:
        for lx in cfg.seglex:
            if lx not in seglexs:
                seglexs.append(lx)
    mlexs = []        # merged lexicons (multi path, spec)
    for cfg in g["cfgs"]:
        if cfg.lex not in mlexs:
            mlexs.append(cfg.lex)
    return seglexs, mlexs


ctx_stat_bytes = [0]


def _group_lines(g):
    W, ds, ps = g["W"], g["ds"], g["ps"]
    seglexs, mlexs = _group_lexs(g)
    lines = []
    for w in W:
        lines.append("c19 %s (%s) %s %s %s" % ("tw-seg-bytes-grid" if g.get("bytes_cursor") else "tw-seg-grid",
                                               " ".join(G.sx_words(lx) for lx in seglexs), G.sx_word(w),
                                               G.sx_nats(ds), G.sx_nats(ps)))
        if g.get("bytes_cursor"):
            ctx_stat_bytes[0] += 1
        for lx in mlexs:
            lines.append("c19 tw-base-grid %s %s %s %s" % (G.sx_words(lx), G.sx_word(w), G.sx_nats(ds), G.sx_nats(ps)))
            lines.append("c19 within-grid osa %s %s %s %s" % (G.sx_words(lx), G.sx_word(w), G.sx_nats(ds), G.sx_nats(ps)))
            lines.append("c19 within-grid lev %s %s %s %s" % (G.sx_words(lx), G.sx_word(w), G.sx_nats(ds), G.sx_nats(ps)))
            lines.append("c19 dists osa %s %s" % (G.sx_words(lx), G.sx_word(w)))
    return lines


def _group_compare(ctx, g, umeta, real_parts, rep, sug_lines, sug_meta, fz_lines, fz_meta):
    W, cfgs, ds, ps, sug_ds, sug_ps, limits = (g[k] for k in ("W", "cfgs", "ds", "ps", "sug_ds", "sug_ps", "limits"))
    seglexs, mlexs = _group_lexs(g)
    real = {}
    for (cfg, _), part in zip(umeta, real_parts):
        slot = real.setdefault(cfg.key, {"tw": {}, "fuzzy": {}, "suggest": {}, "correct": {}})
        for k in ("tw", "fuzzy", "suggest", "correct"):
            slot[k].update(part.get(k, {}))
        slot["reader"] = part["reader"]
    pos = 0
    m_seg, m_base, s_osa, s_lev, s_dist = {}, {}, {}, {}, {}
    for w in W:
        gr = _grid(parse_sexp(rep[pos])[0], ds, ps)
        pos += 1
        for (d, p), item in gr.items():
            for li, lx in enumerate(seglexs):
                m_seg[(li, w, d, p)] = item if isinstance(item, str) else _words_or_err(item[li])
        for mi, lx in enumerate(mlexs):
            for store in (m_base, s_osa, s_lev):
                gr = _grid(parse_sexp(rep[pos])[0], ds, ps)
                pos += 1
                for (d, p), item in gr.items():
                    store[(mi, w, d, p)] = _words_or_err(item)
            s_dist[(mi, w)] = dict(zip(lx, (int(x) for x in parse_sexp(rep[pos])[0])))
            pos += 1
    # ---- compare
    for cfg in cfgs:
        rr = real[cfg.key]
        mi = mlexs.index(cfg.lex)
        segidx = [seglexs.index(lx) for lx in cfg.seglex]
        expect_reader = "MultiReader" if cfg.multi else "SegmentReader"
        if rr["reader"] != expect_reader:
            ctx.note("config %s opened as %s" % (cfg.key, rr["reader"]))
        path = "multi" if rr["reader"] == "MultiReader" else "seg"
        fz_todo = []
        for w in W:
            for d in ds:
                for p in ps:
                    exp = s_osa[(mi, w, d, p)]
                    exp_lev = s_lev[(mi, w, d, p)]
                    npre = sum(1 for t in cfg.lex if _share_prefix(p, t, w))
                    nontriv = 0 < len(exp) < npre
                    case = {"kind": "tw", "segs": cfg.segs, "w": w, "d": d, "p": p}
                    # terms_within -------------------------------------------------------------
                    obs = rr["tw"][(w, d, p)]
                    model = m_seg[(segidx[0], w, d, p)] if path == "seg" else m_base[(mi, w, d, p)]
                    ctx.case(("tw", cfg.key, w, d, p), nontrivial=nontriv)
                    ctx.stat("terms_within:" + path)
                    obs_c = obs if isinstance(obs, str) else sorted(obs)
                    model_c = model if isinstance(model, str) else sorted(model)
                    if obs_c != model_c:
                        ctx.divergence("terms_within[%s]" % path, [cfg.key, w, d, p], model_c, obs_c)
                    if not isinstance(obs, str) and len(set(obs)) != len(obs):
                        ctx.violation("terms_within[%s]:duplicate-terms" % path, case, sorted(exp), obs, "")
                    if obs_c != sorted(exp):
                        _classify_tw(ctx, path, cfg, case, w, d, p, exp, exp_lev, obs_c)
                    if exp != exp_lev:
                        ctx.stat("lev-ball!=osa-ball")
                    # FuzzyTerm: compared in _check_fuzzy once the model's hit lists are back
                    fz_todo.append((w, d, p, exp, exp_lev, nontriv, case))
            # model of FuzzyTerm: every segment is searched with its own SegmentReader, the hits of a
            # segment are `fuzzyDocsOf docs (termsWithinSeg ...)` (one driver line per segment and word)
            bad = False
            for si, seg in enumerate(cfg.segs):
                grids = [m_seg[(segidx[si], w, d, p)] for d in ds for p in ps]
                if any(isinstance(gx, str) for gx in grids):
                    bad = True
                    fz_lines.append("c19 ping-unused")
                else:
                    fz_lines.append("c19 fuzzy-of-grid (%s) (%s)" % (
                        " ".join("(" + G.sx_word(t) + ")" for t in seg), " ".join(G.sx_words(gx) for gx in grids)))
            fz_meta.append((cfg, rr, w, ds, ps, len(cfg.segs), bad, fz_todo))
            fz_todo = []
            # suggest ----------------------------------------------------------------------------
            if rr["suggest"]:
                for d in sug_ds:
                    for p in sug_ps:
                        model_tw = m_seg[(segidx[0], w, d, p)] if path == "seg" else m_base[(mi, w, d, p)]
                        for lim in limits:
                            if isinstance(model_tw, str):
                                sug_lines.append("c19 ping-unused")
                            else:
                                sug_lines.append("c19 suggest-of %s %s %s %d %d" % (
                                    G.sx_words(model_tw), G.sx_words(cfg.lex),
                                    G.sx_nats([cfg.freq[t] for t in cfg.lex]), lim, d))
                            sug_meta.append((real, cfg, mi, w, lim, d, p, model_tw, s_osa[(mi, w, d, p)], s_dist[(mi, w)]))


def _index_stream(ctx, groups):
    """All groups share one pool of real-code workers and one driver batch."""
    units, uspans = [], []
    for g in groups:
        u, m = _group_units(g)
        uspans.append((len(units), len(u), m))
        units += u
    import time as _t
    _t0 = _t.time()
    parts = ctx.pmap(G.run_index_unit, units, chunksize=max(1, len(units) // 96))
    ctx.note("index: real code %.1fs (%d units)" % (_t.time() - _t0, len(units)))
    _t0 = _t.time()
    lines, lspans = [], []
    for g in groups:
        ls = _group_lines(g)
        lspans.append((len(lines), len(ls)))
        lines += ls
    rep = ctx.driver.ask_parallel(lines, min_chunk=40)
    ctx.note("index: driver %.1fs (%d lines)" % (_t.time() - _t0, len(lines)))
    _t0 = _t.time()
    sug_lines, sug_meta, fz_lines, fz_meta = [], [], [], []
    for g, (us, ul, um), (ls, ll) in zip(groups, uspans, lspans):
        _group_compare(ctx, g, um, parts[us:us + ul], rep[ls:ls + ll], sug_lines, sug_meta, fz_lines, fz_meta)
    ctx.note("index: compare %.1fs" % (_t.time() - _t0))
    _t0 = _t.time()
    if fz_lines:
        rep = ctx.driver.ask_parallel(fz_lines, min_chunk=100)
        pos = 0
        for cfg, rr, w, ds, ps, nseg, bad, todo in fz_meta:
            lines = rep[pos:pos + nseg]
            pos += nseg
            model = {}
            if not bad:
                base = 0
                per_seg = [parse_sexp(ln)[0] for ln in lines]
                k = 0
                for d in ds:
                    for p in ps:
                        hits, base = [], 0
                        for si, seg in enumerate(cfg.segs):
                            hits += [base + int(x) for x in per_seg[si][k]]
                            base += len(seg)
                        model[(d, p)] = hits
                        k += 1
            for (w2, d, p, exp, exp_lev, nontriv, case) in todo:
                _check_fuzzy(ctx, cfg, rr, w2, d, p, exp, exp_lev, nontriv, case, model.get((d, p), "model-error"))
    ctx.note("index: fuzzy model+check %.1fs" % (_t.time() - _t0))
    _t0 = _t.time()
    if sug_lines:
        rep = ctx.driver.ask_parallel(sug_lines, min_chunk=500)
        for (real, cfg, mi, w, lim, d, p, model_tw, s_osa_e, s_dist_e), line in zip(sug_meta, rep):
            obs = real[cfg.key]["suggest"][(w, lim, d, p)]
            if isinstance(model_tw, str):
                model = model_tw
            elif line.startswith("err:IndexError"):
                model = "EXC:IndexError"
            elif line.startswith("err"):
                model = line
            else:
                model = G.parse_words(parse_sexp(line)[0])
            _check_suggest(ctx, cfg, w, lim, d, p, s_osa_e, s_dist_e, model, obs)
            if lim == 5 and (w, d, p) in real[cfg.key]["correct"]:
                _check_correct(ctx, cfg, w, d, p, s_osa_e, s_dist_e, model, real[cfg.key]["correct"][(w, d, p)])


def _check_fuzzy(ctx, cfg, rr, w, d, p, exp, exp_lev, nontriv, case, mdocs):
    fo = rr["fuzzy"][(w, d, p)]
    ctx.case(("fuzzy", cfg.key, w, d, p), nontrivial=nontriv)
    es = set(exp)
    exp_docs = [i for i, t in enumerate(cfg.docs) if t in es]
    if mdocs != fo:
        ctx.divergence("FuzzyTerm.search", [cfg.key, w, d, p], mdocs, fo)
    if fo != exp_docs:
        els = set(exp_lev)
        lev_docs = [i for i, t in enumerate(cfg.docs) if t in els]
        fcase = dict(case, kind="fuzzy")
        noempty = [i for i in lev_docs if cfg.docs[i] != ""]
        if fo == lev_docs:
            # the recorded finding: exactly the documents of the plain-Levenshtein ball
            ctx.violation(SIG_TRANSP_FUZZY, fcase, exp_docs, fo,
                          "FuzzyTerm misses documents whose term is one adjacent transposition "
                          "away (documented Damerau-Levenshtein; every segment is searched with "
                          "the plain Levenshtein automaton)")
        elif fo == noempty:
            # repaired defect (fix: MultiTerm.matcher no longer skips the empty term): a `fixed` entry
            # suppresses nothing, so this is reported if it ever comes back
            ctx.violation(SIG_EMPTYTERM, fcase, exp_docs, fo,
                          "the empty string is a term within the distance but MultiTerm.matcher "
                          "drops falsy terms")
        elif fo == "EXC:IndexError" and p > len(w):
            ctx.violation(SIG_PREFIX, fcase, exp_docs, fo, "FuzzyTerm with prefixlength > len(text)")
        elif fo == "EXC:ValueError" and any(MAXCP in t for t in cfg.lex):
            ctx.violation(SIG_MAXCP, fcase, exp_docs, fo, "")
        elif fo == "EXC:UnicodeEncodeError" and any(LASTLOW in t for t in cfg.lex):
            ctx.violation(SIG_SURR, fcase, exp_docs, fo, "")
        elif fo == [] and not cfg.multi and cfg.lex[0] == "" and "" in els:
            ctx.violation(SIG_EMPTY, fcase, exp_docs, fo, "")
        else:
            ctx.violation("FuzzyTerm.search:hits!=docs-of-terms-within-distance", fcase, exp_docs, fo,
                          "unclassified")


def _classify_tw(ctx, path, cfg, case, w, d, p, exp, exp_lev, obs):
    lexset = cfg.lex
    if obs == "EXC:IndexError" and p > len(w) and path == "seg":
        ctx.violation(SIG_PREFIX, case, sorted(exp), obs, "terms_within with prefix > len(text) on one segment")
    elif obs == "EXC:ValueError" and path == "seg" and any(MAXCP in t for t in lexset):
        ctx.violation(SIG_MAXCP, case, sorted(exp), obs, "the walk steps past a term containing U+10FFFF")
    elif obs == "EXC:UnicodeEncodeError" and path == "seg" and any(LASTLOW in t for t in lexset):
        ctx.violation(SIG_SURR, case, sorted(exp), obs, "the walk steps past a term containing U+D7FF: the next "
                      "label is the surrogate U+D800, which cur.find cannot encode")
    elif isinstance(obs, str):
        ctx.violation("terms_within[%s]:raises:%s" % (path, obs), case, sorted(exp), obs, "")
    elif path == "seg" and obs == sorted(exp_lev):
        # every missing term has osa <= d < lev, nothing extra is returned
        ctx.violation(SIG_TRANSP_TW, case, sorted(exp), obs,
                      "single-segment terms_within (Levenshtein automaton) misses terms one adjacent "
                      "transposition away; the multi-segment path and the documentation use Damerau-Levenshtein")
    elif path == "seg" and obs == [] and lexset and lexset[0] == "" and "" in exp_lev:
        ctx.violation(SIG_EMPTY, case, sorted(exp), obs, "first term of the field is the empty string and the "
                      "automaton accepts it: `while match:` ends the walk")
    else:
        ctx.violation("terms_within[%s]:result!=terms-within-distance" % path, case, sorted(exp), obs, "unclassified")


def _check_suggest(ctx, cfg, w, lim, d, p, cands_osa, dist, model, obs):
    case = {"kind": "suggest", "segs": cfg.segs, "w": w, "limit": lim, "d": d, "p": p}
    C = [t for t in cands_osa if t != w]
    ctx.case(("suggest", cfg.key, w, lim, d, p), nontrivial=len(C) > 1)
    ctx.stat("suggest:" + ("multi" if cfg.multi else "seg"))
    explained = (obs == model)
    if not explained:
        ctx.divergence("Searcher.suggest", [cfg.key, w, lim, d, p], model, obs)
    if isinstance(obs, str):
        if obs == "EXC:IndexError" and lim == 0:
            ctx.stat("suggest:limit0-IndexError")
            return      # limit=0 is outside the property's domain; behaviour pinned by the model only
        if obs == "EXC:IndexError" and p > len(w) and not cfg.multi:
            ctx.violation(SIG_PREFIX, case, "a list", obs, "suggest with prefix > len(text)")
        else:
            ctx.violation("Searcher.suggest:raises:" + obs, case, "a list", obs, "")
        return
    key = lambda t: (dist[t], -cfg.freq[t])  # noqa
    suffix = "" if explained else ":unexplained"
    if w in obs:
        ctx.violation(SIG_SUG_SELF + suffix, case, "a list without %r" % w, obs,
                      "the queried word is returned as its own suggestion (docstring: it will not be)")
    if len(obs) > lim:
        ctx.violation("Corrector.suggest:more-than-limit-suggestions", case, "at most %d" % lim, obs, "")
    O = [t for t in obs if t != w]
    bad = [t for t in O if t not in C]
    if bad or len(set(obs)) != len(obs):
        ctx.violation("Corrector.suggest:not-a-term-within-distance", case, C, obs, "")
        return
    if any(key(O[i]) > key(O[i + 1]) for i in range(len(O) - 1)):
        ctx.violation(SIG_SUG_ORDER + suffix, case, sorted(C, key=key), obs,
                      "suggestions are not ordered by closeness then frequency")
    room = lim - (1 if w in obs else 0)
    dropped = [t for t in C if t not in O]
    short = len(O) < min(room, len(C))
    worse_kept = any(key(t) < key(s) for t in dropped for s in O)
    if short or worse_kept:
        ctx.violation(SIG_SUG_CUT + suffix, case, sorted(C, key=key)[:lim], obs,
                      "a term that is closer (or as close and more frequent) than a returned one is missing")


# ------------------------------------------------------------------------------------------------

def _check_correct(ctx, cfg, w, d, p, cands_osa, dist, model_sug, rc):
    """Searcher.correct_query on Term(f, w): the replacement must be a lexicon term within the
    distance that shares the prefix (never the word), the closest / most frequent one; `model_sug` is
    the model's Corrector.suggest(limit=5) for the same call (SimpleQueryCorrector takes sugs[0])."""
    C = [t for t in cands_osa if t != w]
    key = lambda t: (dist[t], -cfg.freq[t])  # noqa
    if isinstance(model_sug, str):
        pred = model_sug
    else:
        pred = model_sug[0] if model_sug else w
    for name in ("forced", "alias", "string", "default"):
        if name not in rc:
            continue
        obs = rc[name]
        case = {"kind": "correct", "variant": name, "segs": cfg.segs, "w": w, "d": d, "p": p}
        ctx.case(("correct", cfg.key, name, w, d, p), nontrivial=len(C) > 1)
        ctx.stat("correct_query:" + name)
        want = pred
        if name == "default" and w in cfg.freq:
            want = w            # words that are in the index are left alone
        if name == "string" and not isinstance(obs, str):
            text, string = obs
            if string != text:
                ctx.violation("Correction.string:differs-from-corrected-term", case, text, string,
                              "the corrected query string is not the corrected word")
            obs = text
        explained = (obs == want)
        if not explained:
            ctx.divergence("Searcher.correct_query[%s]" % name, [cfg.key, w, d, p], want, obs)
        suffix = "" if explained else ":unexplained"
        if obs.startswith("EXC:"):
            if obs == "EXC:IndexError" and p > len(w) and not cfg.multi:
                ctx.violation(SIG_PREFIX, case, "a query", obs, "correct_query with prefix > len(word)")
            else:
                ctx.violation("Searcher.correct_query:raises:" + obs, case, "a query", obs, "")
            continue
        if name == "default" and w in cfg.freq:
            if obs != w:
                ctx.violation("Searcher.correct_query:corrects-a-word-that-is-in-the-index", case, w, obs, "")
            continue
        if obs != w:
            if obs not in C:
                ctx.violation("Searcher.correct_query:correction-not-a-term-within-distance-sharing-the-prefix",
                              case, sorted(C, key=key)[:3], obs,
                              "the word is replaced by something that is not a term of the field within maxdist "
                              "edits sharing the first `prefix` characters")
            elif any(key(t) < key(obs) for t in C):
                ctx.violation(SIG_SUG_ORDER + suffix, case, sorted(C, key=key)[0], obs,
                              "correct_query picks the most frequent instead of the closest term")
        elif C:
            if w in cfg.freq:
                ctx.violation(SIG_SUG_SELF + suffix, case, sorted(C, key=key)[0], obs,
                              "the word is 'corrected' to itself (first suggestion is the word)")
            else:
                ctx.violation(SIG_SUG_CUT + suffix, case, sorted(C, key=key)[0], obs,
                              "no correction although a term within the documented distance exists")


# ------------------------------------------------------------------------------------------------
# stream 4: ListCorrector / MultiCorrector / correct_query with custom correctors

def _py_suggest(items, limit):
    """Corrector.suggest's heap and final sort on (score, suggestion) items (harness-side mirror,
    used only to tell the recorded deviations from new ones)."""
    import heapq
    heap = []
    for item in items:
        if len(heap) < limit:
            heapq.heappush(heap, item)
        elif item > heap[0]:
            heapq.heapreplace(heap, item)
    return [sug for _, sug in sorted(heap, key=lambda x: (0 - x[0], x[1]))]


def _corrector_stream(ctx):
    rng = ctx.rng("correctors")
    W = G.words_upto("ab", 4)
    extra = ["abc", "c", "cab", "bca", "acb"]
    jobs = []
    for i in range(ctx.budget(2, 12)):
        dens = rng.choice([0.15, 0.4, 0.8])
        wl = sorted(set([t for t in W if t and rng.random() < dens] + [t for t in extra if rng.random() < 0.3]))
        docs = []
        for t in W:
            if rng.random() < rng.choice([0.2, 0.5]):
                docs += [t] * rng.choice([1, 1, 2, 4])
        docs = docs or ["ab"]
        rng.shuffle(docs)
        nseg = rng.choice([1, 2])
        segs = [sg for sg in (docs[j::nseg] for j in range(nseg)) if sg]
        jobs.append((Config("corr%d" % i, segs), wl))
    _corrector_jobs(ctx, jobs, W, [0, 1, 2, 3], [0, 1, 2, 5], [1, 3, 50])


def _corrector_jobs(ctx, jobs, W, ds, ps, limits):
    units, meta = [], []
    for cfg, wl in jobs:
        for j in range(0, len(W), 8):
            units.append((cfg.key, cfg.segs, wl, [(w, ds, ps) for w in W[j:j + 8]], limits))
            meta.append((cfg, wl))
    parts = ctx.pmap(G.run_corrector_unit, units)
    real = {}
    for (cfg, wl), part in zip(meta, parts):
        slot = real.setdefault(cfg.key, {"list": {}, "multi-min": {}, "multi-max": {}, "cq-list": {}})
        for k in slot:
            slot[k].update(part[k])
        real[cfg.key + ":reader"] = part["reader"]
    lines = []
    mlimits = sorted(set(limits) | {5})      # 5 = the default limit SimpleQueryCorrector uses
    for cfg, wl in jobs:
        multi = real[cfg.key + ":reader"] == "MultiReader"
        for w in W:
            lines.append("c19 dists lev %s %s" % (G.sx_words(wl), G.sx_word(w)))
            lines.append("c19 dists osa %s %s" % (G.sx_words(wl), G.sx_word(w)))
            lines.append("c19 dists osa %s %s" % (G.sx_words(cfg.lex), G.sx_word(w)))
            lines.append("c19 list-sug-grid %s %s %s %s %s" % (G.sx_words(wl), G.sx_word(w), G.sx_nats(mlimits),
                                                               G.sx_nats(ds), G.sx_nats(ps)))
            if multi:
                lines.append("c19 tw-base-grid %s %s %s %s" % (G.sx_words(cfg.lex), G.sx_word(w), G.sx_nats(ds),
                                                               G.sx_nats(ps)))
            else:
                lines.append("c19 tw-seg-grid (%s) %s %s %s" % (G.sx_words(cfg.lex), G.sx_word(w), G.sx_nats(ds),
                                                                G.sx_nats(ps)))
            for opn in ("min", "max"):
                # the Lean model of MultiCorrector([reader corrector, ListCorrector(wl)], op)
                lines.append("c19 multi-sug-grid %s %s %s %s %s %s %s %s %s" % (
                    "base" if multi else "seg", G.sx_words(cfg.lex), G.sx_nats([cfg.freq[t] for t in cfg.lex]),
                    G.sx_words(wl), G.sx_word(w), opn, G.sx_nats(mlimits), G.sx_nats(ds), G.sx_nats(ps)))
    rep = ctx.driver.ask_parallel(lines)
    pos = 0
    for cfg, wl in jobs:
        multi = real[cfg.key + ":reader"] == "MultiReader"
        rr = real[cfg.key]
        for w in W:
            lev_wl = dict(zip(wl, (int(x) for x in parse_sexp(rep[pos])[0])))
            osa_wl = dict(zip(wl, (int(x) for x in parse_sexp(rep[pos + 1])[0])))
            osa_lex = dict(zip(cfg.lex, (int(x) for x in parse_sexp(rep[pos + 2])[0])))
            lsug = {}
            flat = parse_sexp(rep[pos + 3])[0]
            k = 0
            for d in ds:
                for p in ps:
                    for lim in mlimits:
                        lsug[(d, p, lim)] = _words_or_err(flat[k])
                        k += 1
            grid = _grid(parse_sexp(rep[pos + 4])[0], ds, ps)
            msug = {}
            for oi, opn in enumerate(("multi-min", "multi-max")):
                flat = parse_sexp(rep[pos + 5 + oi])[0]
                k = 0
                for d in ds:
                    for p in ps:
                        for lim in mlimits:
                            msug[(opn, d, p, lim)] = _words_or_err(flat[k])
                            k += 1
            pos += 7
            for d in ds:
                for p in ps:
                    item = grid[(d, p)]
                    if isinstance(item, str):
                        mtw = item
                    else:
                        mtw = _words_or_err(item if multi else item[0])
                    # what the current code does, from the Lean distances / the Lean terms_within model
                    list_items = [(0 - max(1, lev_wl[t]), t) for t in wl
                                  if d >= 1 and _share_prefix(p, t, w) and lev_wl[t] <= d]
                    reader_items = None if isinstance(mtw, str) else \
                        [(0 - (d + (1.0 / (cfg.freq.get(t) or 1) * 0.5)), t) for t in mtw]
                    # what the property allows
                    ok_list = set(t for t in wl if _share_prefix(p, t, w) and osa_wl[t] <= d)
                    ok_lex = set(t for t in cfg.lex if _share_prefix(p, t, w) and osa_lex[t] <= d)
                    for lim in limits:
                        # model of ListCorrector: the Lean `listSuggest`; the harness-side mirror (from the Lean
                        # `lev` distances) must agree with it
                        if lsug[(d, p, lim)] != _py_suggest(list_items, lim):
                            ctx.divergence("listSuggest-vs-mirror", [wl, w, lim, d, p], lsug[(d, p, lim)],
                                           _py_suggest(list_items, lim))
                        _check_corrector(ctx, "list", cfg, wl, w, lim, d, p, rr["list"][(w, lim, d, p)],
                                         lsug[(d, p, lim)], ok_list, osa_wl)
                        for name, op in (("multi-min", min), ("multi-max", max)):
                            # model of MultiCorrector: the Lean `multiSuggest`; the harness-side mirror (float
                            # scores, Python dict) must agree with it
                            pred = msug[(name, d, p, lim)]
                            if reader_items is None:
                                mirror = mtw
                            else:
                                seen = {}
                                for score, sug in reader_items + list_items:
                                    seen[sug] = op(seen[sug], score) if sug in seen else score
                                mirror = _py_suggest([(sc, sg) for sg, sc in seen.items()], lim)
                            ctx.stat("multiSuggest:lean-model-vs-mirror")
                            if pred != mirror:
                                ctx.divergence("multiSuggest-vs-mirror", [cfg.key, wl, w, name, lim, d, p], pred, mirror)
                            _check_corrector(ctx, name, cfg, wl, w, lim, d, p, rr[name][(w, lim, d, p)], pred,
                                             ok_list | ok_lex, None)
                    first = lsug[(d, p, 5)]
                    _check_corrector(ctx, "cq-list", cfg, wl, w, 1, d, p, rr["cq-list"][(w, d, p)],
                                     first if isinstance(first, str) else (first[0] if first else w), ok_list, osa_wl)


def _check_corrector(ctx, kind, cfg, wl, w, lim, d, p, obs, pred, allowed, dist):
    """kind: list / multi-min / multi-max (obs = suggestion list) or cq-list (obs = corrected word)."""
    case = {"kind": "corrector", "which": kind, "segs": cfg.segs, "wordlist": wl, "w": w, "limit": lim, "d": d,
            "p": p}
    ctx.case(("corrector", kind, cfg.key, w, lim, d, p), nontrivial=len(allowed - {w}) > 1)
    ctx.stat("corrector:" + kind)
    explained = (obs == pred)
    if not explained:
        ctx.divergence("spelling.%s" % kind, [cfg.key, wl, w, lim, d, p], pred, obs)
    suffix = "" if explained else ":unexplained"
    if isinstance(obs, str) and obs.startswith("EXC:"):
        ctx.violation("spelling.%s:raises:%s" % (kind, obs), case, "suggestions", obs, "")
        return
    if kind == "cq-list":
        # Searcher.correct_query(correctors={f: ListCorrector}): obs is the word the query now holds
        C = sorted(allowed - {w}, key=lambda t: (dist[t], t))
        if obs != w:
            if obs not in allowed:
                ctx.violation("Searcher.correct_query:correction-not-a-term-within-distance-sharing-the-prefix",
                              case, C[:3], obs, "custom corrector")
            elif any(dist[t] < dist[obs] for t in C):
                ctx.violation(SIG_LIST_LEV + suffix, case, C[:1], obs, "a closer word exists (transposition)")
        elif C:
            if w in wl:
                ctx.violation(SIG_SUG_SELF + suffix, case, C[:1], obs, "the word is 'corrected' to itself")
            else:
                ctx.violation(SIG_LIST_LEV + suffix, case, C[:1], obs,
                              "no correction although a word within the documented distance exists")
        return
    sugs = list(obs)
    if len(sugs) > lim or len(set(sugs)) != len(sugs):
        ctx.violation("spelling.%s:too-many-or-duplicate-suggestions" % kind, case, "at most %d" % lim, obs, "")
    bad = [t for t in sugs if t != w and t not in allowed]
    if bad:
        ctx.violation("spelling.%s:suggestion-not-a-word-within-distance-sharing-the-prefix" % kind, case,
                      sorted(allowed)[:5], obs, "")
        return
    if w in sugs:
        ctx.violation(SIG_SUG_SELF + suffix, case, "suggestions without %r" % w, obs,
                      "the queried word is returned as its own suggestion")
    if dist is not None:
        # a single word list: closeness is the only ranking criterion
        C = sorted(allowed - {w}, key=lambda t: (dist[t], t))
        O = [t for t in sugs if t != w]
        room = lim - (1 if w in sugs else 0)
        out_of_order = any(dist[O[i]] > dist[O[i + 1]] for i in range(len(O) - 1))
        dropped = [t for t in C if t not in O]
        worse_kept = any(dist[t] < dist[s] for t in dropped for s in O)
        short = len(O) < min(room, len(C))
        if out_of_order or worse_kept or short:
            ctx.violation(SIG_LIST_LEV + suffix, case, C[:lim], obs,
                          "ListCorrector measures plain Levenshtein distance: a transposition neighbour counts as "
                          "two edits (missing at maxdist 1, ranked behind true distance-2 words otherwise)")


# ------------------------------------------------------------------------------------------------
# stream: the merged term list of a multi-segment reader (MultiReader._merge_terms, terms_from, expand_prefix)

MERGE_DS = [1, 2]
MERGE_PS = [0, 1, 2]


def _merge_layouts(ctx, n):
    """Segment layouts of one term set: overlapping, disjoint, identical, contiguous ranges (so that for a late
    prefix a single segment iterator is active), 1..6 segments, small and multi-byte alphabets, the empty term."""
    rng = ctx.rng("merge")
    alphabets = ["ab", "abc", ["a", LASTLOW, FIRSTHIGH], ["\x7f", "\x80", "\u07ff"], ["\uffff", "\U00010000", "a"],
                 ["\x00", "b", MAXCP], ["a", "\u00e9", "\u4e2d"]]
    jobs = []
    for i in range(n):
        al = alphabets[i % len(alphabets)]
        W = set()
        for _ in range(rng.randint(3, 24)):
            W.add("".join(rng.choice(al) for _ in range(rng.randint(0 if rng.random() < 0.3 else 1, 4))))
        W = G.utf8_sorted(W)
        nseg = [2, 3, 1, 4, 6, 2, 3][(i // 4) % 7]
        mode = i % 4
        if mode == 0:        # overlapping: every term in a random non-empty subset of the segments
            segs = [[] for _ in range(nseg)]
            for t in W:
                ks = [k for k in range(nseg) if rng.random() < 0.5] or [rng.randrange(nseg)]
                for k in ks:
                    segs[k].append(t)
        elif mode == 1:      # disjoint, interleaved
            segs = [W[k::nseg] for k in range(nseg)]
        elif mode == 2:      # the same terms in every segment
            segs = [list(W) for _ in range(nseg)]
        else:                # contiguous ranges of the sorted term list
            cuts = sorted(rng.randint(0, len(W)) for _ in range(nseg - 1))
            segs = [W[a:b] for a, b in zip([0] + cuts, cuts + [len(W)])]
        segs = [list(sg) for sg in segs if sg]
        for sg in segs:
            sg += [rng.choice(sg) for _ in range(rng.randint(0, 2))]      # repeated documents
            rng.shuffle(sg)
        pres = {"", W[-1], W[-1][:1], W[len(W) // 2], W[len(W) // 2][:1], W[0] + al[0], W[-1] + al[-1]}
        for _ in range(3):
            t = rng.choice(W)
            pres.add(t[:rng.randint(0, len(t))])
            pres.add("".join(rng.choice(al) for _ in range(rng.randint(1, 3))))
        qws = set(rng.sample(W, min(2, len(W))))
        qws.add("".join(rng.choice(al) for _ in range(rng.randint(1, 4))))
        jobs.append({"kind": "merge", "key": "merge%d" % i, "segs": segs, "pres": sorted(pres), "ws": sorted(qws)})
    return jobs


def _merge_jobs(ctx, jobs):
    units = []
    for j in jobs:
        multi = len(j["segs"]) > 1
        # (a one-segment reader answers terms_within with the automaton: covered by the index stream)
        qs = [(w, d, p) for w in j["ws"] for d in MERGE_DS for p in MERGE_PS] if multi else []
        units.append((j["key"], j["segs"], j["pres"], qs))
    real = ctx.pmap(G.run_merge_unit, units)
    lines, per = [], []
    for j in jobs:
        seglex = [G.utf8_sorted(sg) for sg in j["segs"]]
        union = G.utf8_sorted([t for sg in j["segs"] for t in sg])
        sx = "(" + " ".join(G.sx_words(lx) for lx in seglex) + ")"
        start = len(lines)
        lines.append("c19 merge %s" % sx)
        lines.append("c19 tfrom-multi %s %s" % (sx, G.sx_words(j["pres"])))
        lines.append("c19 expand-multi %s %s" % (sx, G.sx_words(j["pres"])))
        if len(j["segs"]) > 1:
            for w in j["ws"]:
                lines.append("c19 tw-multi-grid %s %s %s %s" % (sx, G.sx_word(w), G.sx_nats(MERGE_DS), G.sx_nats(MERGE_PS)))
                lines.append("c19 within-grid osa %s %s %s %s" % (G.sx_words(union), G.sx_word(w), G.sx_nats(MERGE_DS),
                                                                 G.sx_nats(MERGE_PS)))
                lines.append("c19 within-grid lev %s %s %s %s" % (G.sx_words(union), G.sx_word(w), G.sx_nats(MERGE_DS),
                                                                 G.sx_nats(MERGE_PS)))
                lines.append("c19 fuzzy-paths-grid %s (%s) %s %s %s" % (
                    sx, " ".join("(" + " ".join("(" + G.sx_word(t) + ")" for t in sg) + ")" for sg in j["segs"]),
                    G.sx_word(w), G.sx_nats(MERGE_DS), G.sx_nats(MERGE_PS)))
        per.append((start, seglex, union))
    rep = ctx.driver.ask(lines)
    for j, rr, (start, seglex, union) in zip(jobs, real, per):
        nseg = len(seglex)
        ctx.stat("merge:segments=%d" % nseg)
        ctx.stat("merge:reader=%s" % rr["reader"])
        shared = sum(1 for t in union if sum(t in lx for lx in seglex) > 1)
        base = {"kind": "merge", "key": j["key"], "segs": j["segs"], "pres": j["pres"], "ws": j["ws"]}
        # lexicon() <-> mergeTerms <-> sorted union
        m_lex = _words_or_err(parse_sexp(rep[start])[0]) if rep[start].startswith("(") else rep[start]
        ctx.case(("merge:lexicon", j["key"], repr(j["segs"])), nontrivial=nseg > 1 and 0 < shared < len(union))
        if rr["lexicon"] != m_lex:
            ctx.divergence("reading.MultiReader._merge_terms(lexicon)", dict(base, call="lexicon"), m_lex, rr["lexicon"])
        if rr["lexicon"] != union:
            ctx.violation("IndexReader.lexicon:!=sorted-union-of-the-segment-term-lists", dict(base, call="lexicon"),
                          union, rr["lexicon"], "the reader's term list is not the sorted union of its segments' terms")
        m_tf = parse_sexp(rep[start + 1])[0]
        m_ex = parse_sexp(rep[start + 2])[0]
        for k, pre in enumerate(j["pres"]):
            bpre = pre.encode("utf8")
            exp_tf = [t for t in union if t.encode("utf8") >= bpre]
            exp_ex = [t for t in union if t.startswith(pre)]
            active = sum(1 for lx in seglex if any(t.encode("utf8") >= bpre for t in lx))
            if nseg > 1:
                ctx.stat("merge:active-iterators=%s" % ("0" if active == 0 else "1" if active == 1 else ">=2"))
            ctx.stat("expand_prefix:%s" % ("empty" if not exp_ex else "all-from-prefix" if exp_ex == exp_tf else "early-exit"))
            for call, model, obs, exp, sig in (
                    ("terms_from", _words_or_err(m_tf[k]), rr["tfrom"][pre], exp_tf,
                     "IndexReader.terms_from:!=terms-of-the-union>=prefix"),
                    ("expand_prefix", _words_or_err(m_ex[k]), rr["expand"][pre], exp_ex,
                     "IndexReader.expand_prefix:!=terms-of-the-union-starting-with-prefix")):
                case = dict(base, call=call, prefix=pre)
                ctx.case(("merge:" + call, j["key"], repr(j["segs"]), pre), nontrivial=0 < len(exp) < len(union))
                if obs != model:
                    ctx.divergence("reading.IndexReader.%s(%s)" % (call, rr["reader"]), case, model, obs)
                if obs != exp:
                    ctx.violation(sig, case, exp, obs, "%s(%r) of the %s" % (call, pre, rr["reader"]))
        if nseg > 1:
            pos = start + 3
            for w in j["ws"]:
                mg = _grid(parse_sexp(rep[pos])[0], MERGE_DS, MERGE_PS)
                sg = _grid(parse_sexp(rep[pos + 1])[0], MERGE_DS, MERGE_PS)
                sl = _grid(parse_sexp(rep[pos + 2])[0], MERGE_DS, MERGE_PS)
                fp = _grid(parse_sexp(rep[pos + 3])[0], MERGE_DS, MERGE_PS)
                pos += 4
                alldocs = [t for sg_ in j["segs"] for t in sg_]
                for d in MERGE_DS:
                    for p in MERGE_PS:
                        model = _words_or_err(mg[(d, p)])
                        spec = G.parse_words(sg[(d, p)])
                        obs = rr["tw"][(w, d, p)]
                        pool = [t for t in union if _share_prefix(p, t, w)]
                        case = dict(base, call="terms_within", w=w, d=d, p=p)
                        ctx.case(("merge:terms_within", j["key"], repr(j["segs"]), w, d, p),
                                 nontrivial=0 < len(spec) < len(pool))
                        if obs != model:
                            ctx.divergence("reading.IndexReader.terms_within(from-segment-term-lists)", case, model, obs)
                        if not isinstance(obs, list) or sorted(obs) != sorted(spec):
                            ctx.violation("terms_within:multi:result!=terms-within-distance(from-segment-term-lists)",
                                          case, spec, obs, "multi-segment terms_within differs from within osa of the union")
                        # FuzzyTerm through Query.docs (one expansion by the MultiReader: documented distance),
                        # docs_for_query and search (per segment: plain Levenshtein, the recorded finding)
                        def nats(x):
                            return x if isinstance(x, str) else [int(v) for v in x]
                        m_top, m_leaf = nats(fp[(d, p)][0]), nats(fp[(d, p)][1])
                        es, els = set(spec), set(G.parse_words(sl[(d, p)]))
                        exp_docs = [i for i, t in enumerate(alldocs) if t in es]
                        lev_docs = [i for i, t in enumerate(alldocs) if t in els]
                        if exp_docs != lev_docs:
                            ctx.stat("fuzzy-paths:Query.docs!=search(transposition)")
                        for path, model in (("qdocs", m_top), ("dfq", m_leaf), ("search", m_leaf)):
                            fo = rr[path][(w, d, p)]
                            fcase = dict(base, call="fuzzy:" + path, w=w, d=d, p=p)
                            ctx.case(("merge:fuzzy", path, j["key"], repr(j["segs"]), w, d, p),
                                     nontrivial=0 < len(exp_docs) < len(alldocs))
                            ctx.stat("fuzzy-paths:" + path)
                            if fo != model:
                                ctx.divergence("FuzzyTerm[%s]" % path, fcase, model, fo)
                            if fo != exp_docs:
                                if path != "qdocs" and fo == lev_docs:
                                    ctx.violation(SIG_TRANSP_FUZZY, fcase, exp_docs, fo,
                                                  "FuzzyTerm misses documents whose term is one adjacent transposition away "
                                                  "(every segment is searched with the plain Levenshtein automaton)")
                                else:
                                    ctx.violation("FuzzyTerm.%s:hits!=docs-of-terms-within-distance" %
                                                  {"qdocs": "docs(searcher)", "dfq": "docs_for_query", "search": "search"}[path],
                                                  fcase, exp_docs, fo, "multi-segment index, access path %s" % path)


def _merge_stream(ctx):
    _merge_jobs(ctx, _merge_layouts(ctx, ctx.budget(28, 420)))


def _multibyte_configs(ctx, n):
    rng = ctx.rng("mb")
    pool = ["a", "b", "é", "ê", "中", "文", "\U0001F600", "\U0001F601", "\x00", "\x01",
            "\x7f", "\x80", "߿", "ࠀ", "￿", "\U00010000", MAXCP, chr(0x10FFFE),
            LASTLOW, chr(0xD7FE), FIRSTHIGH, chr(0xE001)]
    out = []
    for i in range(n):
        al = rng.sample(pool, rng.randint(2, 4))
        # the places where "the next code point" is not "the next character", on every seed
        if i % 5 == 0 and LASTLOW not in al:
            al[0] = LASTLOW
        elif i % 5 == 1 and MAXCP not in al:
            al[0] = MAXCP
        elif i % 5 == 2 and not (set(al) & {"\U00010000", "\U0001F600", "\U0001F601"}):
            al[0] = "\U00010000"
        for c in al:
            ctx.stat("multibyte-alphabet:utf8-len-%d" % len(c.encode("utf8")))
        W = set()
        for _ in range(rng.randint(3, 30)):
            W.add("".join(rng.choice(al) for _ in range(rng.randint(0, 5))))
        W = sorted(W)
        docs = []
        for t in W:
            docs += [t] * rng.choice([1, 1, 2, 4])
        rng.shuffle(docs)
        qs = set(rng.sample(W, min(len(W), 4)))
        for _ in range(4):
            qs.add("".join(rng.choice(al) for _ in range(rng.randint(0, 5))))
        nseg = rng.choice([1, 1, 2, 3])
        segs = [docs[j::nseg] for j in range(nseg)]
        segs = [s for s in segs if s]
        out.append((Config("mb%d" % i, segs), sorted(qs)))
    return out


def _boundary_configs(ctx):
    """Exhaustive small lexicons over alphabets that straddle the places where code points, characters and
    UTF-8 lengths part ways: the surrogate block, the last code point, the 1/2/3/4-byte boundaries.  Every
    word of length <= 3 is a term (one segment, and spread over three), every word of length <= 2 plus a
    seeded sample of the longer ones is queried."""
    rng = ctx.rng("boundary")
    out = []
    for name, al in (("surr", ["a", LASTLOW, FIRSTHIGH]), ("max", ["\x00", chr(0x10FFFE), MAXCP]),
                     ("len12", ["\x7f", "\x80", "߿"]), ("len23", ["߿", "ࠀ", "b"]),
                     ("len34", ["￿", "\U00010000", "a"])):
        W = G.words_upto(al, 3)
        qs = [w for w in W if len(w) <= 2] + rng.sample([w for w in W if len(w) == 3], min(27, ctx.budget(4, 27)))
        out.append((Config("bd-%s:1" % name, [list(W)]), qs))
        out.append((Config("bd-%s:3" % name, [W[0::3], W[1::3], W[2::3]]), qs))
    return out


def run(ctx):
    with ctx.scratch() as tmp:
        os.environ["VERIF_C19_TMP"] = tmp
        try:
            _run(ctx)
        finally:
            os.environ.pop("VERIF_C19_TMP", None)


def _run(ctx):
    import time
    t = [time.time()]

    def lap(name):
        now = time.time()
        ctx.note("%s: %.1fs" % (name, now - t[0]))
        if os.environ.get("VERIF_C19_TIMING"):
            print("[c19] %s %.1fs" % (name, now - t[0]), flush=True)
        t[0] = now
    _replay_corpus(ctx)
    lap("corpus")
    _dp_stream(ctx)
    lap("dp")
    A2 = G.words_upto("ab", 5)
    A3 = G.words_upto("abc", 4)
    if ctx.tier == "quick":
        doms = [("ab5", A2, A2), ("abc4", A3[:30], A3)]
    else:
        doms = [("ab5", A2, A2), ("abc4", A3, A3)]
    _automaton_stream(ctx, doms)
    lap("automaton")
    fw = [w for w in A2 if len(w) <= 4] + ["abc", "a" + LASTLOW, "a" + MAXCP, "\U00010000b"]
    if ctx.tier == "quick":
        fw = fw[ctx.seed % 2::2] + fw[-4:]
    _fne_stream(ctx, fw, [u for u in A2 if len(u) <= 3] + ["abc", "a" + LASTLOW, "c"])
    lap("find_next_edge")
    _utf8_stream(ctx)
    lap("utf8+cursor")
    groups = []
    for name, W in (("ab5", A2), ("abc4", A3)):
        # every word is a lexicon member in both tiers; the quick tier queries all words over {a,b} but only
        # the words of length <= 3 and every third word of length 4 over {a,b,c} (seed-rotated)
        cfgs = _configs_for(ctx, name, W, ctx.budget(1, 6))
        Q = W
        if ctx.tier == "quick" and name == "abc4":
            long = [w for w in W if len(w) == 4]
            Q = [w for w in W if len(w) < 4] + long[ctx.seed % 3::3]
        ps = PS
        if ctx.tier == "quick" and name == "abc4":
            ps = [0, 1, 2, 4, 6]          # 3 and 5 are covered over {a,b} and in the thorough tier
        groups.append(_group(name, Q, cfgs, DS, ps, [0, 1, 2, 3], [0, 1, 2], [0, 1, 2, 5, 50],
                             lambda cfg: ":sub" in cfg.key))
    groups += [_group(cfg.key, qs, [cfg], [0, 1, 2, 3], [0, 1, 2, 6], [1, 2], [0, 1], [1, 5], lambda c: True,
                      bytes_cursor=True)
               for cfg, qs in _multibyte_configs(ctx, ctx.budget(20, 400))]
    groups += [_group(cfg.key, qs, [cfg], [0, 1, 2, 3], [0, 1, 2, 6], [1, 2], [0, 1], [1, 5], lambda c: True,
                      bytes_cursor=True)
               for cfg, qs in _boundary_configs(ctx)]
    ctx_stat_bytes[0] = 0
    _index_stream(ctx, groups)
    ctx.stat("terms_within:model-walks-byte-ordered-dictionary", ctx_stat_bytes[0])
    lap("index(ab5,abc4,multibyte)")
    _corrector_stream(ctx)
    lap("correctors")
    _merge_stream(ctx)
    lap("merge(lexicon,terms_from,expand_prefix)")
    ctx.sample({"terms_within": {"lexicon": ["ab", "ba"], "word": "ab", "d": 1, "p": 0},
                "documented(osa)": ["ab", "ba"], "one segment returns": ["ab"]})


def _replay_corpus(ctx):
    cdir = os.path.join(os.path.dirname(os.path.dirname(os.path.dirname(os.path.abspath(__file__)))), "corpus", ID)
    if not os.path.isdir(cdir):
        return
    cases = []
    for n in sorted(os.listdir(cdir)):
        if n.endswith(".json"):
            rec = json.load(open(os.path.join(cdir, n)))
            cases.append(rec.get("case", rec))
            ctx.stat("corpus-replayed")
    _run_cases(ctx, cases)


def _run_cases(ctx, cases):
    """Several stored cases at once (one worker pool, one driver batch for the index cases)."""
    groups = []
    for i, case in enumerate(cases):
        if case.get("kind") in ("tw", "fuzzy", "suggest", "correct"):
            cfg = Config("replay%d" % i, case["segs"])
            lims = [case["limit"]] if case["kind"] == "suggest" else [5]
            groups.append(_group(cfg.key, [case["w"]], [cfg], [case["d"]], [case["p"]], [case["d"]], [case["p"]],
                                 lims, lambda c: True))
        else:
            _run_case(ctx, case)
    if groups:
        _index_stream(ctx, groups)


def _run_case(ctx, case):
    """Re-execute one stored case through the normal comparison code."""
    kind = case.get("kind")
    if kind == "merge":
        _merge_jobs(ctx, [case])
    elif kind == "corrector":
        _corrector_jobs(ctx, [(Config("replay", case["segs"]), case["wordlist"])], [case["w"]], [case["d"]],
                        [case["p"]], [case["limit"]])
    elif kind in ("tw", "fuzzy", "suggest", "correct"):
        cfg = Config("replay", case["segs"])
        lims = [case["limit"]] if kind == "suggest" else [5]
        _index_stream(ctx, [_group("replay", [case["w"]], [cfg], [case["d"]], [case["p"]], [case["d"]], [case["p"]],
                                   lims, lambda c: True)])
    elif kind == "automaton":
        W = G.words_upto("ab", 4)
        _automaton_stream(ctx, [("replay", [case["w"]], W)])
    elif kind == "dp":
        from whoosh.support.levenshtein import levenshtein, damerau_levenshtein
        fn = levenshtein if case["fn"] == "lev" else damerau_levenshtein
        spec = int(ctx.driver.ask1("c19 spec %s %s %s" % (case["fn"], G.sx_word(case["a"]), G.sx_word(case["b"]))))
        try:
            got = fn(case["a"], case["b"], limit=case["limit"])
        except Exception as e:  # noqa
            got = G.exc_name(e)
        lim = case["limit"]
        ok = (got == spec) if not lim else (isinstance(got, int) and min(got, lim + 1) == min(spec, lim + 1))
        if not ok:
            ctx.violation("dp-replay", case, spec, got, "")


def replay(ctx, rec):
    before = len(ctx.violations) + len(ctx.divergences)
    with ctx.scratch() as tmp:
        os.environ["VERIF_C19_TMP"] = tmp
        try:
            _run_case(ctx, rec.get("case", rec))
        finally:
            os.environ.pop("VERIF_C19_TMP", None)
    for v in ctx.violations:
        print("expected:", v["expected"])
        print("observed:", v["observed"], " [%s]" % v["signature"])
    for dv in ctx.divergences:
        print("model:", dv["model"])
        print("impl: ", dv["impl"], " [%s]" % dv["component"])
    return len(ctx.violations) + len(ctx.divergences) > before
