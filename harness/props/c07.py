"""C07 — deletes, updates and cancel have exact, durable semantics."""
import os
import random
import shutil
import tempfile

from gen import indexops as io

ID = "C07"
LEVEL = "proof"
LEAN_IMPORTS = ["WM.Props.C07"]
THEOREMS = ["WM.C07.refines_dict", "WM.C07.refines_dict_step", "WM.C07.delete_exact",
            "WM.C07.delete_document_exact", "WM.C07.undelete", "WM.C07.postings_exact", "WM.C07.cancel_identity",
            "WM.C07.unique_invariant", "WM.C07.unique_keys", "WM.C07.update_all_full_false"]
PARTIAL = {"WM.C07.refines_dict": "update_document is covered only when unambiguous (at most one live committed document "
                                  "per unique term): first_id deletes one document, so the full statement update_all_full "
                                  "is false (update_all_full_false is the witness). add_field is covered only for a *fresh* "
                                  "field name (OpOK.addField): remove_field f followed by add_field f without an optimising "
                                  "commit in between would make physically retained data of f visible again and is outside "
                                  "the theorem (with an optimising commit in between the name is fresh again: "
                                  "WM.C06.readd_after_optimize; the model mirrors the retained data and the check compares "
                                  "both cases with whoosh). The conclusion is about content and doc_count; the posting read path is "
                                  "postings_exact",
           "WM.C07.unique_invariant": "the key discipline admits only add/update/delete calls (Op.plain): histories with "
                                      "un-delete (which can resurrect a second document of a key) or schema changes are not "
                                      "covered; the conclusion is `at most one live document per key` (a deleted key has none)",
           "WM.C07.unique_keys": "same scope as unique_invariant (instance for the schema's unique fields, concluding the "
                                 "specification's UniqueKeys)",
           "WM.C07.cancel_identity": "definitional (rfl): the model's cancelled session returns the TOC it started from, a "
                                     "writer's changes living in a private Writer value; that the real cancel() leaves TOC, "
                                     "segment files and deleted sets untouched is established by the check (dump before = "
                                     "dump after every cancelled or failed session), not by this theorem"}
RULE = ("model-based writer histories (1-10 sessions of add/update/delete by number, term, query/"
        "undelete/add_field/remove_field ending in commit(NO_MERGE|MERGE_SMALL|OPTIMIZE|CLEAR), cancel or an "
        "exception inside `with`), several unique-field configurations (keys include the empty string, which an ID "
        "field indexes as the term b''), schemas with a pure COLUMN field and a dynamic (glob) field; every 12th world "
        "removes a field, optimises (1..3 segments, with/without a deletion, with/without additions) and adds the name "
        "again; after every commit(optimize=True) the segment files must hold nothing of a non-schema field; non-trivial = the history deletes a "
        "committed document or updates an existing key and commits it; distinct = distinct world")
ASSUMPTIONS = [
    "a query passed to delete_by_query denotes the predicate C01 assigns to it (only Term/Every/And/Or/top-level "
    "Not shapes are used here; the matcher algebra is C01/C11's obligation)",
    "what one document contributes (postings, lengths, vector, column value) is taken from the field objects of "
    "the tree under test (field.index / word_values / to_column_value): analysis is C17's obligation",
]
TRUSTED = ["bisect.bisect_right, sorted (stable), set, dict, pickle of the segment list: modelled by their documented behaviour"]
MANIFEST = {
    "level_text": "Lean theorems over an executable model of SegmentWriter/W3Segment/MultiReader document-level logic: "
                  "every history of writer sessions refines the dictionary specification (deleted documents invisible, "
                  "doc_count = live, delete_by_* exact, update = delete-then-add under the key discipline, cancel = identity); "
                  "model tied to whoosh by differential histories on every run, end-to-end dumps compared with the Lean spec.",
    "level_note": "Codec bytes, file system and locking are abstracted (C02/C03/C04/C08/C10 own them); queries are predicates "
                  "(C01); update_document deletes only the first live posting per unique field (first_id), so the full "
                  "delete-all statement holds only under the stated key discipline (kept as update_all_full, refuted by a witness).",
    "technique": "machine-checked proof in Lean 4 over an executable model + differential correspondence + end-to-end run against the Lean spec",
}

SIG_NOT = "Not-query:InverseMatcher yields deleted doc after child exhausted"

PROBES = [("every", ["every"]), ("t-aa", ["term", "txt", "aa"]), ("t-dd", ["term", "tag", "dd"]),
          ("not-bb", ["not", ["term", "txt", "bb"]]), ("or", ["or", ["term", "txt", "cc"], ["term", "tag", "ee"]])]


def _world_for(seed_tuple):
    if seed_tuple[0] == "corpus":
        rec = io.load_corpus(seed_tuple[1])
        return rec["world"], rec["cfg"]
    pid, seed, tier, i = seed_tuple
    rng = random.Random("%s:%s:world:%d" % (pid, seed, i))
    if i % 12 == 11:
        # limited scored searches over multi-block posting lists with deleted best postings
        w = io.gen_topk_world(rng)
        cfg = io.default_config()
        cfg["blocklimit"] = rng.choice([1, 2, 3, 4])
        cfg["compound"] = rng.random() < 0.7
        return w, cfg
    if i % 12 == 8:
        # remove_field + optimize on 1..3 segments, then the name is added again
        w, _ = io.gen_purge_world(rng)
        cfg = io.default_config()
        cfg["blocklimit"] = rng.choice([1, 2, 128])
        cfg["compound"] = rng.random() < 0.7
        return w, cfg
    if i % 12 == 5:
        # un-delete + delete in one commit, watched by a long-lived refreshed searcher
        w = io.gen_refresh_world(rng)
        cfg = io.default_config()
        cfg["blocklimit"] = rng.choice([1, 2, 128])
        cfg["storage"] = rng.choice(["file", "ram"])
        return w, cfg
    disciplined = rng.random() < 0.75
    w = io.gen_world(rng, disciplined=disciplined, schema_changes=rng.random() < 0.5)
    cfg = io.default_config()
    cfg["blocklimit"] = rng.choice([1, 2, 3, 128])
    cfg["storage"] = rng.choice(["file", "file", "ram"])
    cfg["compound"] = rng.random() < 0.7
    # a tiny posting-pool limit makes SortingPool spill several runs per commit
    cfg["limitmb"] = rng.choice([128, 128, 0.0004, 0.002, 0.01])
    return w, cfg


def _run_case(args):
    """worker: run one world on real whoosh; returns plain data"""
    seed_tuple = args
    world, cfg = _world_for(seed_tuple)
    base = io.new_scratch("wverif-C07-")
    try:
        try:
            real = io.run_real(world, cfg, base, probes=PROBES)
            real.pop("storage", None)
            return {"world": world, "cfg": cfg, "real": real}
        except Exception as e:  # noqa
            import traceback
            return {"world": world, "cfg": cfg, "crash": "%s: %s" % (type(e).__name__, e),
                    "trace": traceback.format_exc()[-1500:]}
    finally:
        shutil.rmtree(base, ignore_errors=True)


def _sat(q, rec_fields):
    """QExpr.sat evaluated on an expected doc (name -> field record restricted to visible fields)"""
    k = q[0]
    if k == "term":
        fr = rec_fields.get(q[1])
        return fr is not None and any(tb == q[3] for tb, _, _ in fr["toks"])
    if k == "key":
        return rec_fields["__key__"] == q[1]
    if k == "every":
        return True
    if k == "and":
        return _sat(q[1], rec_fields) and _sat(q[2], rec_fields)
    if k == "or":
        return _sat(q[1], rec_fields) or _sat(q[2], rec_fields)
    if k == "not":
        return not _sat(q[1], rec_fields)
    raise ValueError(q)


def _with_bytes(tables, q):
    if q[0] == "term":
        return ["term", q[1], q[2], tables.term_bytes(q[1], q[2])]
    if q[0] in ("and", "or"):
        return [q[0], _with_bytes(tables, q[1]), _with_bytes(tables, q[2])]
    if q[0] == "not":
        return ["not", _with_bytes(tables, q[1])]
    return q


def expected_probe(tables, content, q):
    qb = _with_bytes(tables, q)
    hits = []
    for key, fids in content:
        vis = set(io.FIELD_ORDER[i] for i in fids)
        rf = dict((n, fr) for n, fr in tables.recs[key].items() if n in vis)
        rf["__key__"] = key
        if _sat(qb, rf):
            hits.append(key)
    return sorted(hits)


def check_case(ctx, pid, case, reply, label):
    """Compare one executed world with the model and the spec.  Returns True when the case was
    non-trivial (a committed document was deleted/replaced)."""
    world, real = case["world"], case["real"]
    tables = case["tables"]
    nontrivial = False
    disciplined = world.get("disciplined", True)
    for si, (rs, ms) in enumerate(zip(real["sessions"], reply)):
        where = {"world": world, "cfg": case["cfg"], "session": si, "label": label}
        if "error" in ms:
            ctx.divergence("commit-error", where, ms["error"], "no error")
            return nontrivial
        # --- op results
        rres = io.norm_results(rs["results"])
        mres = io.model_results(ms["results"])
        if len(rres) != len(mres):
            ctx.divergence("op-results-length", where, mres, rres)
            return nontrivial
        cops = [o for o in rs["concrete"] if o[0] not in ("gstart", "gend")]
        for oi, (a, b) in enumerate(zip(rres, mres)):
            op = cops[oi] if oi < len(cops) else None
            ctx.stat("op:" + (op[0] if op else "?"))
            if a == "ok" and b == "ok":
                continue
            if isinstance(a, tuple) and a[0] == "err":
                ctx.stat("err:" + str(a[1]))
                if not (isinstance(b, tuple) and b[0] == "err" and b[1] == a[1]):
                    ctx.divergence("op-error", dict(where, op=op), b, a)
                continue
            if isinstance(a, tuple) and a[0] == "count":
                if not (isinstance(b, tuple) and b[0] == "count"):
                    ctx.divergence("op-result", dict(where, op=op), b, a)
                    continue
                if io.has_not(op[1]) and a[1] > b[1]:
                    # classified: the query contains Not and the count is too high
                    ctx.violation(SIG_NOT, dict(where, op=op), b[1], a[1],
                                  "delete_by_query(Not(...)) counted documents that were already deleted")
                else:
                    if a[1] != b[1]:
                        ctx.divergence("delete_by_query.count", dict(where, op=op), b[1], a[1])
                    if a[1] != b[2]:
                        if disciplined:
                            ctx.violation("IndexWriter.delete_by_query:count!=live-matches", dict(where, op=op), b[2], a[1],
                                          "delete_by_term/query returned a count different from the number of live matching documents")
                        else:
                            ctx.stat("count!=spec(after first_id left duplicates)")
                if a[1] > 0:
                    nontrivial = True
                continue
            ctx.divergence("op-result", dict(where, op=op), b, a)
        for op in rs["concrete"]:
            if op[0] in ("deld", "upd"):
                nontrivial = nontrivial or op[0] == "deld"
        rf = rs.get("refreshed")
        if rf is not None and sorted(ms["model"]) == sorted(ms["spec"]):
            want = sorted(k for k, _ in ms["spec"])
            if "error" in rf:
                ctx.violation("Searcher.refresh:raised", where, want, rf["error"],
                              "a long-lived searcher could not be refreshed / read after the commit")
            else:
                for part in ("sids", "stored", "every", "sidterms"):
                    if rf[part] != want:
                        ctx.violation("Searcher.refresh:%s!=live" % part, where, want, rf[part],
                                      "a refreshed long-lived searcher does not show exactly the live documents")
                        break
                if rf["doc_count"] != len(want):
                    ctx.violation("Searcher.refresh:doc_count!=live", where, len(want), rf["doc_count"],
                                  "doc_count of a refreshed long-lived searcher")
            ctx.stat("refreshed-searcher-checked")
        d = rs.get("dump")
        if d is None:
            continue
        # --- layout: model <-> implementation
        if [tuple(x) for x in d["layout"]] != [tuple(x) for x in ms["toc"]]:
            ctx.divergence("segment-layout", where, ms["toc"], d["layout"])
        # --- term index (with doc numbers), statistics: model <-> implementation
        if "posts" in ms:
            mp = sorted(tables.model_posts(ms))
            if mp != sorted(d["gposts"]):
                ctx.divergence("postings(global numbers)", where, mp[:30], d["gposts"][:30])
            mst = tables.model_stats(ms)
            if mst != d["stats"]:
                bad = [k for k in set(mst) | set(d["stats"]) if mst.get(k) != d["stats"].get(k)][:5]
                ctx.divergence("term-statistics", dict(where, terms=bad), [mst.get(k) for k in bad],
                               [d["stats"].get(k) for k in bad])
            mfl = dict((io.FIELD_ORDER[f], n) for f, n in ms["flens"].items() if n or io.FIELD_ORDER[f] in d["field_length"])
            rfl = dict((f, n) for f, n in d["field_length"].items())
            mfl = dict((f, n) for f, n in mfl.items() if f in rfl)
            if mfl != rfl:
                ctx.divergence("field_length", where, mfl, rfl)
        # --- content
        exp_model = io.expected_dump(tables, ms["model"])
        exp_spec = io.expected_dump(tables, ms["spec"])
        spec_eq_model = sorted(ms["model"]) == sorted(ms["spec"])
        if not spec_eq_model:
            ctx.stat("spec!=model(first_id outside the key discipline)" if not disciplined else "spec!=model(disciplined)")
            if disciplined:
                ctx.divergence("model-vs-spec", where, ms["model"], ms["spec"])
        df = io.diff_docs(exp_model["docs"], d["docs"])
        if df is not None:
            ctx.divergence("content", dict(where, diff=df), sorted(exp_model["docs"]), sorted(d["docs"], key=repr))
        if spec_eq_model:
            _against_spec(ctx, where, tables, ms["spec"], exp_spec, d)
        _reader_consistency(ctx, where, tables, d)
        optimize_purges(ctx, where, rs["end"], d)
        if d["has_deletions"]:
            ctx.stat("commit-with-deletions")
        ctx.stat("segments:%d" % min(d["nsegments"], 6))
    return nontrivial


def _reader_consistency(ctx, where, tables, d):
    """What the (multi) reader derives from its segments must agree with the segments: the top-level
    column reader row by row, and the combined term statistics with the physical postings."""
    if d.get("topcol_mismatch"):
        m = d["topcol_mismatch"][0]
        first = any(m[1] == off for off in _offsets(d["layout"])[1:])
        sig = ("MultiReader.column_reader:row-of-first-doc-of-a-later-segment" if first
               else "MultiReader.column_reader:row!=segment-row")
        ctx.violation(sig, dict(where, field=m[0], docnum=m[1], key=m[2]), m[3], m[4],
                      "reader.column_reader(f)[docnum] differs from the segment's own column row")
    names = set(io.FIELD_ORDER)
    exp = io.expected_terminfo(tables, d["layout"], set(f for f, _ in d["terminfo"]))
    # a field that was removed and added again: which physical documents still carry it depends on the merges
    # in between (the model knows, this per-document oracle does not) - compared through the model's postings only
    readded = set(op[1] for ops, _ in where.get("world", {}).get("sessions", []) for op in ops if op[0] == "remf")
    for key in sorted(d["terminfo"]):
        if key[0] in readded:
            continue
        got = d["terminfo"][key]
        want = exp.get(key)
        if want is None or isinstance(got, str):
            ctx.violation("term_info:raised-or-unknown-term", dict(where, term=key), want, got, "term_info of a lexicon term")
            break
        if (got[5], got[6]) != (want[5], want[6]):
            ctx.violation("MultiReader.term_info:min_id/max_id!=posting ids", dict(where, term=key),
                          (want[5], want[6]), (got[5], got[6]),
                          "term_info().min_id()/max_id() are not the first/last posting of the term")
            break
        if got[0] != want[0] or abs(got[1] - want[1]) > 1e-9 * max(1.0, abs(want[1])):
            ctx.violation("MultiReader.term_info:doc_frequency/weight", dict(where, term=key), want[:2], got[:2],
                          "combined doc_frequency/weight differ from the postings")
            break
        if (got[2], got[3]) != (want[2], want[3]) or got[4] != want[4]:
            ctx.violation("MultiReader.term_info:min/max length, max weight", dict(where, term=key), want[2:5], got[2:5],
                          "combined min/max length or max weight differ from the postings")
            break


def optimize_purges(ctx, where, end, d, single=True):
    """after commit(optimize=True): at most one segment, no deleted document left in it, and nothing of a field
    that is not in the schema (terms, stored values) in its files"""
    if list(end) != ["commit", "optimize"] or "physical" not in d:
        return
    ctx.stat("optimize-commit-checked")
    # (single=False: MpWriter(multisegment=True) adopts its sub-writers' segments next to the optimised one)
    if (single and len(d["layout"]) > 1) or any(deleted for _, deleted, _ in d["layout"]):
        ctx.violation("optimize:leaves several segments or deleted documents", where, "<= 1 segment, no deletions",
                      [(c, dl) for c, dl, _ in d["layout"]], "commit(optimize=True) did not compact the index")
    for left in d["physical_unknown"]:
        if left:
            ctx.stat("optimize-after-remove_field")
            ctx.violation("optimize:data of a removed field left in the segment", dict(where, fields=left), [], left,
                          "after remove_field and commit(optimize=True) the segment still holds terms or stored "
                          "values of a field that is not in the schema")
            break


def _offsets(layout):
    offs, base = [], 0
    for cnt, _, _ in layout:
        offs.append(base)
        base += cnt
    return offs


def _against_spec(ctx, where, tables, content, exp, d):
    n = len(content)
    df = io.diff_docs(exp["docs"], d["docs"])
    if df is not None:
        kind = df[0]
        ctx.violation("read-api:%s differs from the dictionary model" % kind, dict(where, diff=df),
                      sorted(exp["docs"]), sorted(d["docs"], key=repr),
                      "live documents (stored fields / lengths / vectors / columns) differ from the specification")
    for name in ("doc_count", "ix_doc_count", "live_docnums"):
        if d[name] != n:
            ctx.violation("%s!=live" % name, where, n, d[name], "%s differs from the number of live documents" % name)
    if d["all_stored_sids"] != sorted(k for k, _ in content):
        ctx.violation("all_stored_fields!=live", where, sorted(k for k, _ in content), d["all_stored_sids"],
                      "all_stored_fields() is not the live documents")
    if d["posts"] != exp["posts"]:
        dead = [p for p in d["posts"] if isinstance(p[2], tuple)]
        sig = "postings:deleted-document-visible" if dead else "postings!=live-postings"
        ctx.violation(sig, where, exp["posts"][:20], d["posts"][:20], "postings differ from those of the live documents")
    if not d["lexicon_sorted"]:
        ctx.violation("lexicon-not-sorted", where, True, False, "all_terms() not sorted")
    for name, q in PROBES:
        pr = d["probes"].get(name)
        if pr is None:
            continue
        e = expected_probe(tables, content, q)
        if "error" in pr:
            ctx.violation("probe:%s raised" % q[0], dict(where, probe=name), e, pr["error"], "probe search raised")
        elif pr["docs"] != e or pr["hits"] != e or pr["len"] != len(e):
            dead = set()
            for cnt, deleted, keys in d["layout"]:
                dead.update(keys[i] for i in deleted if i < len(keys))
            extra = set(pr["docs"]) - set(e)
            if (io.has_not(q) and pr["docs"] == pr["hits"] and set(e) <= set(pr["docs"]) and extra and extra <= dead
                    and pr["len"] == len(pr["hits"])):
                ctx.violation(SIG_NOT, dict(where, probe=name), e, pr,
                              "a Not query returned a deleted document")
                continue
            ctx.violation("probe:%s!=live-matches" % q[0], dict(where, probe=name), e, pr,
                          "search results differ from the live matching documents")
        if "top" in pr and "error" not in pr:
            for k, hits in sorted(pr["top"].items()):
                got = [h[0] for h in hits]
                if len(got) != min(int(k), len(e)) or len(set(got)) != len(got) or not set(got) <= set(e):
                    dead = [x for x in got if x not in e]
                    ctx.violation("search(limit=k):%s" % ("returns a deleted or non-matching document" if dead
                                                           else "wrong number of hits"),
                                  dict(where, probe=name, limit=k), e, hits,
                                  "a limited scored search returned a document that is not a live match")
                    break


def _lean_batch(ctx, cases, family="c07"):
    lines = []
    idx = []
    for i, c in enumerate(cases):
        if "crash" in c:
            continue
        c["tables"] = io.WorldTables(c["world"])
        # (a front-end whose numbering the SegmentWriter model does not predict: deletions by key)
        free = c["cfg"].get("frontend", "plain") != "plain"
        lines.append(c["tables"].lean_request(io.concrete_sessions(c["real"], free), 0 if free else 1, family))
        idx.append(i)
    replies = ctx.driver.ask(lines)
    out = {}
    for i, line in zip(idx, replies):
        out[i] = io.parse_reply(line)
    return out


def run(ctx):
    n = ctx.budget(800, 7000)
    corpus = io.corpus_items(ID)
    ctx.stat("corpus-cases", len(corpus))
    seeds = corpus + [(ID, ctx.seed, ctx.tier, i) for i in range(n)]
    cases = ctx.pmap(_run_case, seeds, chunksize=8)
    replies = _lean_batch(ctx, cases)
    for i, c in enumerate(cases):
        if "crash" in c:
            ctx.stat("crash:" + c["crash"].split(":")[0])
            ctx.violation("history raised " + c["crash"].split(":")[0], {"world": c["world"], "cfg": c["cfg"]},
                          "no exception", c["crash"] + "\n" + c.get("trace", ""), "a writer history raised")
            continue
        nt = check_case(ctx, ID, c, replies[i], "e2e")
        ctx.case(("world", seeds[i][1] if seeds[i][0] == "corpus" else (ctx.seed, i)), nontrivial=nt)
        if len(corpus) <= i < len(corpus) + 2:
            ctx.sample({"sessions": c["world"]["sessions"][:3], "fields": c["world"]["fields"]})


def replay(ctx, rec):
    case = rec.get("case", {})
    world, cfg = case.get("world"), case.get("cfg")
    if world is None:
        print("no world in record")
        return False
    base = io.new_scratch("wverif-C07-")
    try:
        real = io.run_real(world, cfg, base, probes=PROBES)
        real.pop("storage", None)
    except Exception as e:  # noqa
        print("history raised: %r" % (e,))
        return True
    finally:
        shutil.rmtree(base, ignore_errors=True)
    c = {"world": world, "cfg": cfg, "real": real}
    replies = _lean_batch(ctx, [c])
    check_case(ctx, ID, c, replies[0], "replay")
    for v in ctx.violations:
        print("expected:", v["expected"])
        print("observed:", v["observed"])
    return bool(ctx.violations or ctx.divergences)
