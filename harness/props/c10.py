"""C10 — postings, term statistics and vectors read back exactly what was indexed."""
import json
import os

from vcheck import parse_sexp
from gen import codec as G

ID = "C10"
LEVEL = "proof"
LEAN_IMPORTS = ["WM.Props.C10", "WM.Props.C10Formats", "WM.Props.C10Bytes", "WM.Props.C10Multi"]
THEOREMS = [
    "WM.C10.delta_roundtrip", "WM.C10.ids_lawful", "WM.C10.blocks_roundtrip", "WM.C10.block_info",
    "WM.C10.block_info_fields", "WM.C10.aggregates_meaning", "WM.C10.terminfo", "WM.C10.terminfo_through_bytes",
    "WM.C10.inline_roundtrip", "WM.C10.inline_read",
    "WM.C10.leaf_refines_read", "WM.C10.leaf_refines_next", "WM.C10.leaf_refines_skip_to",
    "WM.C10.leaf_refines_skip_to_quality", "WM.C10.leaf_refines", "WM.C10.ids_orders",
    "WM.C10.word_values_terms", "WM.C10.values_existence", "WM.C10.values_frequency", "WM.C10.values_positions",
    "WM.C10.values_characters", "WM.C10.values_positionBoosts", "WM.C10.values_characterBoosts",
    "WM.C10.values_all", "WM.C10.word_values_shape", "WM.C10.vector_items",
    "WM.C10.doc_post_spec", "WM.C10.term_postings_spec", "WM.C10.vector_transpose_model", "WM.C10.vector_transpose",
    "WM.C10.values_ok", "WM.C10.postings_end_to_end", "WM.C10.terminfo_bytes", "WM.C10.multi_terminfo",
]
# theorem -> what is missing for the full statement of the property
PARTIAL = {
    "WM.C10.vector_transpose_model":
        "the stored vector and the posting lists agree on term, frequency and value, but not on the weight: "
        "add_document multiplies the posting weight by the document boost and writes the vector items without it, "
        "so the statement relates them by `weight = vector weight * document boost` (equal only for _boost = 1). "
        "This is whoosh's behaviour, mirrored by specVector / specPostings; it is not reported as a defect.",
    "WM.C10.vector_transpose":
        "spec-level corollary only (both sides are Layer S); the model statement is vector_transpose_model",
    "WM.C10.term_postings_spec":
        "the model of the indexing path is add_document's posts -> pool sorted by (term, docnum) -> the run of one term "
        "-> add_postings, for ONE field of ONE segment whose documents were added with increasing docnums. The pool's "
        "on-disk runs / merge of runs (PostingPool spilling), several fields in one pool, the merge of segments "
        "(add_postings_to_pool with a docmap) and multi-segment readers are covered by the end-to-end stream only",
    "WM.C10.postings_end_to_end":
        "composes formats -> pool -> block writer -> block reader for the W3 codec; the bytes after the pack_uint "
        "header (pickle / struct of positions, chars, boosts) are an identity parameter `tail`, the length of a "
        "document (`lenOf`, read from the lengths column: C08) is a parameter, and inlined lists are the separate "
        "theorem inline_read. MemoryCodec and PlainTextCodec have no Lean model: they are checked only by the "
        "end-to-end stream against Layer S",
    "WM.C10.terminfo_through_bytes":
        "document-number postings whose ids are not the 0xffffffff NO_ID sentinel (a docnum that W3 cannot tell "
        "from `no id`; never reached by an index below 2^32-1 documents); the byte layout of to_bytes / from_bytes "
        "and of the fixed-position readers is terminfo_bytes, which concludes exactly this throughBytes",
    "WM.C10.terminfo_bytes":
        "struct packing of a float32 is a parameter pair (packF, unpackF) with unpackF (packF w) = f32 w and 4 bytes; "
        "the pickle of inlined postings is an opaque byte string; the OverflowError of struct 'f' for weights beyond "
        "the float32 range is not modelled. The block framing of the posting file (length int, pickled info tuple, "
        "data) stays abstracted to block records",
    "WM.C10.multi_terminfo":
        "reading.combine_terminfos over what the TermInfo accessors show, with the per-segment statistics taken as the "
        "plain aggregates (count, sum, min, max) of the segment's (id, stored weight, stored length) postings: the "
        "composition with the per-segment writer statistics `tiOf` (whose min length skips zero lengths and whose "
        "lengths pass through the length byte) is not restated; that MultiReader.term_info hands in exactly the "
        "sub-readers containing the term with their document offsets, that each call gets term infos it may modify "
        "(the one-segment branch adds the offset in place), and MultiCursor.term_info are covered by the public-API "
        "stream only (repeated and leaf-reader reads)",
    "WM.C10.inline_read":
        "for a value-less format (fixedsize 0) the inlined reader shows b'' where the block reader shows None; the "
        "theorem states exactly this difference instead of hiding it",
}
RULE = ("(1) codec: posting lists with lengths around multiples of blocklimit (1..9, 128) x id kind (docnum/term) "
        "x fixed value size (none/0/4) x weight minification mode x length mode x inlinelimit 0/1/3, each with a "
        "cursor program (next/skip_to/skip_to_quality/copy/reads, also past the end) and a malformed sub-stream "
        "(bad ids, empty values, mixed lengths): non-trivial = more than one block, or inlined; "
        "(2) formats: token streams with repeats, position gaps, boosts for all six formats: non-trivial = a "
        "repeated term; (3) public API: documents indexed with every format / vector format / field and document "
        "boosts under W3Codec(blocklimit 1..9|128, compression 0|3, inlinelimit 0|1|3), MemoryCodec, "
        "PlainTextCodec, 1-3 segments, merge, RAM/file storage: non-trivial = some posting list spans several "
        "blocks or a vector was read; (4) float32: weights that are not float32 numbers; "
        "(5) combine_terminfos: 1-5 segments with document offsets (0 / >0, gaps), postings with lengths at the length-byte "
        "thresholds: non-trivial = several segments or one segment at an offset > 0; in (3) every term_info is read "
        "three times through the composite reader, twice through every leaf reader and once more through the composite "
        "reader, for the terms of the generated field and for the per-document id terms (terms in exactly one segment). "
        "distinct = distinct (configuration, input)")
ASSUMPTIONS = [
    "pickle, zlib and struct round-trip (identity parameters of the model)",
    "weights in the differential streams are float32-representable dyadics, so array('f') is the identity; "
    "float32 rounding of arbitrary weights is checked against struct('f') on the real code only",
    "byte offsets inside the posting file are abstracted to block indices; the terms index (term -> W3TermInfo bytes) "
    "is exercised end to end only (including repeated reads of the same term through the same reader object)",
    "analysis is outside the model: the formats receive a token list (text, pos, startchar, endchar, boost)",
    "MemoryCodec and PlainTextCodec are covered by the public-API stream only (no Lean model of them)",
]
TRUSTED = []
MANIFEST = {
    "level_text": "Lean theorems over an executable mirror of W3PostingsWriter/W3LeafMatcher/W3TermInfo and the "
                  "value codecs of formats.py, tied to the code by differential runs on every check.",
    "level_note": "pickle/zlib/struct are identity parameters; byte offsets inside the posting file are abstracted "
                  "to block indices.",
    "technique": "machine-checked proof in Lean 4 over an executable model + differential correspondence check",
}

BLOCKLIMITS = [1, 2, 3, 4, 5, 6, 7, 8, 9, 128]


# ------------------------------------------------------------------------------------------------
# stream 1: codec-level correspondence (model <-> W3PostingsWriter / W3LeafMatcher)

def _codec_case(rng, malformed=False):
    kind = rng.choice(["doc", "doc", "doc", "term"])
    bl = rng.choice(BLOCKLIMITS)
    comp = rng.choice([0, 3])
    inl = rng.choice([0, 1, 1, 3]) if not malformed else rng.choice([0, 1])
    fixedsize = rng.choice([None, None, 0, 4])
    postings, tags = G.gen_postings(rng, kind, bl, fixedsize, malformed)
    ops = G.gen_ops(rng, kind, postings, bl)
    return {"kind": kind, "bl": bl, "comp": comp, "inl": inl, "fs": fixedsize, "postings": postings,
            "ops": ops, "tags": tags, "malformed": malformed}


def _real_codec(case):
    c = case
    args = (c["kind"], c["bl"], c["comp"], c["inl"], c["fs"], c["postings"])
    try:
        w = G.real_write_sexp(*args)
    except Exception as e:  # noqa
        w = "harness-exc %r" % (e,)
    try:
        r = G.real_run(*(args + (c["ops"],)))
    except Exception as e:  # noqa
        r = "harness-exc %r" % (e,)
    try:
        r2 = G.real_run(*(args + (_cursor_ops(c["ops"]),)))
    except Exception as e:  # noqa
        r2 = "harness-exc %r" % (e,)
    try:
        rt = G.real_tib(*args) if c["kind"] == "doc" else "pong"
    except Exception as e:  # noqa
        rt = "harness-exc %r" % (e,)
    return w, r, r2, rt


def _cursor_ops(ops):
    """The part of a program a plain list cursor can predict (no quality skipping, no block info)."""
    return [o for o in ops if o in ("next", "id", "weight", "value", "active") or (isinstance(o, tuple) and o[0] == "skip")]


def _list_cursor(kind, entries, ops):
    """Layer S cursor over the spec entries: next = tail, skip_to = dropWhile (id < t)."""
    def key(x):
        return int(x) if kind == "doc" else bytes.fromhex(x if x != "-" else "").decode("utf-8")
    pos, out = 0, []
    n = len(entries)
    for o in ops:
        active = pos < n
        if o == "active":
            out.append("1" if active else "0")
        elif o == "next":
            out.append(None)          # return value ("entered a new block") is not predicted
            pos += 1
        elif o in ("id", "weight", "value"):
            out.append(entries[pos][("id", "weight", "value").index(o)] if active else None)
        else:
            if not active:
                out.append("!ReadTooFar")
            else:
                t = o[1]
                while pos < n and key(entries[pos][0]) < t:
                    pos += 1
                out.append("ok")
    return out


def _cfg_text(c):
    return "%s %d %d %d %s" % (c["kind"], c["bl"], c["comp"], c["inl"], G.opt(str, c["fs"]))


def _pack(obj):
    """The exact case, for `--replay` (the readable fields are for humans)."""
    import base64
    import pickle
    return base64.b64encode(pickle.dumps(obj, 2)).decode("ascii")


def _unpack(text):
    import base64
    import pickle
    return pickle.loads(base64.b64decode(text))


def _case_json(c):
    return {"_stream": "codec", "_pickle": _pack(c), "kind": c["kind"], "blocklimit": c["bl"], "compression": c["comp"], "inlinelimit": c["inl"],
            "fixedsize": c["fs"], "tags": c["tags"],
            "postings": [[p[0], G.rat(p[1]), p[2].hex(), p[3]] for p in c["postings"]],
            "ops": [list(o) if isinstance(o, tuple) else o for o in c["ops"]]}


def _real_reset(case):
    c = case
    try:
        return G.real_reset_readout(c["kind"], c["bl"], c["comp"], c["inl"], c["fs"], c["postings"], c["ops"])
    except Exception as e:  # noqa
        return "harness-exc %r" % (e,)


def _ti_case(rng):
    """A W3TermInfo with statistics at the struct limits, with an extent or inlined postings."""
    import struct
    big = [0, 1, 255, 256, 65535, 2 ** 31 - 1, 2 ** 31, 2 ** 32 - 2, 2 ** 32 - 1]
    w = rng.choice([0.0, 1.0, 0.5, 3.25, 1e10, 2.0 ** -130, float(rng.randint(0, 10 ** 6)) / 8])
    mw = rng.choice([0.0, 1.0, 2.5, w])
    malformed = rng.random() < 0.12
    c = {"w": w, "mw": mw, "df": rng.choice(big + [rng.randint(0, 1000)]),
         "mnl": rng.choice([None, 0, 1, 17, 18, 255, 1000, 106374, 10 ** 7]),
         "mxl": rng.choice([0, 1, 17, 18, 300, 106373, 106374, 10 ** 7]),
         "mnid": rng.choice([None] + big), "mxid": rng.choice([None] + big), "malformed": malformed}
    if rng.random() < 0.6:
        c["ref"] = ("ext", rng.choice([0, 4, 2 ** 31, 2 ** 40, 2 ** 63 - 1]), rng.choice([0, 1, 77, 2 ** 31 - 1]))
    else:
        c["ref"] = ("inl", bytes(rng.randrange(256) for _ in range(rng.choice([1, 5, 40]))))
    if malformed:
        k = rng.choice(["df", "mnid", "mxid", "len", "off"])
        if k == "len" and c["ref"][0] == "ext":
            c["ref"] = ("ext", c["ref"][1], rng.choice([2 ** 31, -2 ** 31 - 1]))
        elif k == "off" and c["ref"][0] == "ext":
            c["ref"] = ("ext", rng.choice([2 ** 63, -2 ** 63 - 1]), c["ref"][2])
        elif k in ("df", "mnid", "mxid"):
            c[k] = rng.choice([2 ** 32, -1, 2 ** 40])
        if c["df"] < 0:
            c["df"] = 2 ** 32
    return c


def _ti_line(c):
    import struct
    f = lambda x: struct.pack("!f", x).hex()
    ref = "(ext %d %d)" % c["ref"][1:] if c["ref"][0] == "ext" else "(inl %s)" % c["ref"][1].hex()
    return "c10 tibytes %s %s %d %s %d %s %s %s" % (f(c["w"]), f(c["mw"]), c["df"], G.opt(str, c["mnl"]), c["mxl"],
                                                   G.opt(str, c["mnid"]), G.opt(str, c["mxid"]), ref)


class _InlinedBytes(object):
    """Pickles to exactly the bytes of the case (the model carries the pickle as an opaque string)."""


def _real_ti(c):
    import pickle
    import struct
    from io import BytesIO
    from whoosh.codec.whoosh3 import W3TermInfo
    from whoosh.filedb.structfile import StructFile
    ti = W3TermInfo(weight=c["w"], df=c["df"], minlength=c["mnl"], maxlength=c["mxl"], maxweight=c["mw"],
                    minid=c["mnid"], maxid=c["mxid"])
    if c["ref"][0] == "ext":
        ti.set_extent(c["ref"][1], c["ref"][2])
        bs = None
    else:
        # inlined: (ids, weights, values); the model only needs the pickled bytes
        inl = ((1, 2), (1.0, 2.0), (c["ref"][1], b""))
        ti.set_inlined(*inl)
    try:
        bs = ti.to_bytes()
    except struct.error:
        return "err StructError", None
    pickled = None
    if c["ref"][0] == "inl":
        pickled = bs[23:]
    u = lambda x: "%d" % struct.unpack("!I", struct.pack("!f", x))[0]
    t2 = W3TermInfo.from_bytes(bs)
    if t2.is_inlined():
        ref = "(inl %s)" % (pickled.hex() if (pickled is not None and t2.inlined_postings() == inl) else "MISMATCH")
    else:
        off, ln = t2.extent()
        if isinstance(ln, tuple):     # from_bytes keeps the 1-tuple of struct.unpack (no [0]); nothing reads it
            ln = ln[0]
        ref = "(ext %d %d)" % (off, ln)
    sf = StructFile(BytesIO(b"junk" + bs))
    mm = W3TermInfo.read_min_and_max_length(sf, 4)
    fixed = "(%s %d %d %d %s)" % (u(W3TermInfo.read_weight(sf, 4)), W3TermInfo.read_doc_freq(sf, 4), mm[0], mm[1],
                                  u(W3TermInfo.read_max_weight(sf, 4)))
    return "ok %s (%s %d %s %d %s %s %s %s) %s" % (
        bs.hex(), u(t2._weight), t2._df, G.opt(str, t2._minlength), t2._maxlength, u(t2._maxweight),
        G.opt(str, t2._minid), G.opt(str, t2._maxid), ref, fixed), pickled


def stream_tibytes(ctx, n):
    """W3TermInfo.to_bytes / from_bytes / read_* against WM/Model/CodecBytes.lean, byte for byte."""
    rng = ctx.rng("tibytes")
    cases = [_ti_case(rng) for _ in range(n)]
    real = [_real_ti(c) for c in cases]
    lines = []
    for c, (r, pickled) in zip(cases, real):
        if pickled is not None:          # hand the real pickle to the model as the opaque inlined string
            c = dict(c, ref=("inl", pickled))
        lines.append(_ti_line(c))
    model = ctx.driver.ask(lines)
    for c, (r, _), m in zip(cases, real, model):
        ctx.case(("tibytes", repr(sorted(c.items()))), nontrivial=c["mnid"] is None or c["mxl"] > 17 or c["ref"][0] == "inl")
        ctx.stat("tibytes:" + ("malformed" if c["malformed"] else c["ref"][0]))
        ctx.stat("tibytes:outcome=" + m.split(" ")[0])
        if m != r:
            cj = {k: (v.hex() if isinstance(v, bytes) else repr(v)) for k, v in c.items()}
            ctx.divergence("W3TermInfo.to_bytes/from_bytes/read_*", cj, m[:600], r[:600])
        elif r.startswith("ok"):
            # end to end: the fixed-position readers agree with from_bytes, df / extent / ids survive
            parts = parse_sexp(r.split(" ", 2)[2])
            full, fixed = parts[0], parts[1]
            want_ids = [("none" if x is None or x == 2 ** 32 - 1 else "%d" % x) for x in (c["mnid"], c["mxid"])]
            problems = []
            if [full[0], full[1], full[2], full[3], full[4]] != list(fixed):
                problems.append("read_* differ from from_bytes")
            if full[1] != "%d" % c["df"]:
                problems.append("df")
            if [full[5], full[6]] != want_ids:
                problems.append("ids")
            if c["ref"][0] == "ext" and list(full[7]) != ["ext", "%d" % c["ref"][1], "%d" % c["ref"][2]]:
                problems.append("extent")
            if c["ref"][0] == "inl" and "MISMATCH" in r:
                problems.append("inlined postings")
            if problems:
                ctx.violation("W3TermInfo.from_bytes/read_*:differs-from-what-was-packed:" + "+".join(problems),
                              {k: (v.hex() if isinstance(v, bytes) else repr(v)) for k, v in c.items()},
                              "df, ids (None <-> 0xffffffff), extent unchanged; read_* == from_bytes", r[:300],
                              "term info record read back from its bytes")


def stream_reset(ctx, cases):
    """End to end on the real cursor: after any program, reset() re-reads the list a fresh cursor reads."""
    cases = [c for c in cases if not c["malformed"]]
    for c, res in zip(cases, ctx.pmap(_real_reset, cases, chunksize=16)):
        if res is None:
            continue
        if isinstance(res, str):
            raise RuntimeError(res)
        fresh, again = res
        nblocks = -(-len(c["postings"]) // c["bl"])
        ctx.case(("reset", _cfg_text(c), tuple(c["postings"]), tuple(c["ops"])), nontrivial=nblocks > 1)
        ctx.stat("reset:blocks=%s" % min(6, nblocks))
        if again != fresh:
            ctx.violation("W3LeafMatcher.reset:readout-after-reset!=fresh-readout", _case_json(c),
                          fresh[:40], again[:40] if not isinstance(again, str) else again,
                          "after a cursor program, reset() must read the posting list from the start again")


def stream_codec(ctx, cases):
    plist = [G.lst([G.posting_sexp(c["kind"], p) for p in c["postings"]]) for c in cases]
    lines = []
    for c, pl in zip(cases, plist):
        lines.append("c10 write %s %s" % (_cfg_text(c), pl))
        lines.append("c10 run %s %s %s" % (_cfg_text(c), pl, G.lst([G.op_sexp(c["kind"], o) for o in c["ops"]])))
        lines.append("c10 spec %s %d %s %s" % (c["kind"], c["bl"], G.opt(str, c["fs"]), pl))
        # W3TermInfo.to_bytes/from_bytes (term keys only: vector term infos are never serialised)
        lines.append(("c10 tib %s %s" % (_cfg_text(c).split(" ", 1)[1], pl)) if c["kind"] == "doc" else "ping")
    model = ctx.driver.ask(lines)
    real = ctx.pmap(_real_codec, cases, chunksize=8)
    for k, c in enumerate(cases):
        mw, mr, ms, mt = model[4 * k], model[4 * k + 1], model[4 * k + 2], model[4 * k + 3]
        rw, rr, rr2, rt = real[k]
        n = len(c["postings"])
        inlined = " none)" not in mw[-8:] if mw.startswith("ok") else False
        nontrivial = mw.startswith("ok") and (n > c["bl"] or inlined)
        ctx.case(("codec", _cfg_text(c), tuple(c["postings"]), tuple(c["ops"])), nontrivial=nontrivial)
        ctx.stat("codec:kind=" + c["kind"])
        ctx.stat("codec:bl=%d" % c["bl"])
        ctx.stat("codec:fs=%s" % c["fs"])
        ctx.stat("codec:blocks=%s" % min(6, -(-n // c["bl"])))
        for t in c["tags"]:
            ctx.stat("codec:tag=" + t)
        ctx.stat("codec:outcome=" + (mw.split(" ")[0] if not mw.startswith("err") else mw))
        if inlined:
            ctx.stat("codec:inlined")
        if rw == "err AttributeError" and c["inl"] > 1:
            ctx.violation("W3PostingsWriter.finish_postings:set_inline-AttributeError", _case_json(c),
                          mw[:300], rw, "finish_postings calls the nonexistent W3TermInfo.set_inline whenever a "
                          "posting list is shorter than inlinelimit")
            continue
        if "!copy-NotImplementedError" in rr:
            ctx.violation("W3LeafMatcher.copy:NotImplementedError", _case_json(c), mr[:300], rr[:300],
                          "W3LeafMatcher does not implement Matcher.copy()")
            rr = mr
        if mw != rw:
            ctx.divergence("W3PostingsWriter", _case_json(c), mw[:2000], rw[:2000])
        if mr != rr:
            ctx.divergence("W3LeafMatcher", _case_json(c), mr[:2000], rr[:2000])
        if c["kind"] == "doc" and mt != rt and not (mw != rw):
            ctx.divergence("W3TermInfo.to_bytes/from_bytes", _case_json(c), mt[:600], rt[:600])
        # end-to-end at codec level: what the real reader shows == the Lean *spec* of the list
        if not c["malformed"] and mw.startswith("ok"):
            _check_spec(ctx, c, ms, rw)
            _check_cursor(ctx, c, ms, rr2)
    if cases:
        ctx.sample({"codec_case": _case_json(cases[0]), "model_write": model[0][:400]})


def _check_cursor(ctx, c, spec_line, rr2):
    """The real cursor against the list cursor over the Lean spec entries."""
    if rr2.startswith("inlined") or not rr2.startswith("("):
        return
    entries = [tuple(e) for e in parse_sexp(spec_line)[0][1:]]
    ops = _cursor_ops(c["ops"])
    exp = _list_cursor(c["kind"], entries, ops)
    got = parse_sexp(rr2)[0]
    past_end = False
    for k, (o, e, g) in enumerate(zip(ops, exp, got)):
        if o == "next" and e is None:
            if g.startswith("!"):
                past_end = True       # next() past the end: unspecified from here on
            continue
        if e is None or past_end:
            continue
        if e != g:
            name = o if isinstance(o, str) else "skip_to"
            ctx.violation("W3LeafMatcher.%s:differs-from-list-cursor" % name, _case_json(c), [e, k], [g, k],
                          "after op #%d (%s) the block cursor shows %s, the list cursor %s" % (k, o, g, e))
            return


def _real_readout(case):
    """Read the whole list back through the real reader (next-loop), plus block infos and the
    W3TermInfo to_bytes/from_bytes round trip."""
    from whoosh.codec.whoosh3 import W3LeafMatcher, W3TermInfo
    from whoosh.matching import ListMatcher
    c = case
    err, st, ti = G.real_write(c["kind"], c["bl"], c["comp"], c["inl"], c["fs"], c["postings"])
    if err:
        return {"err": err}
    fmt = G.make_format(c["fs"])
    ti2 = W3TermInfo.from_bytes(ti.to_bytes()) if c["kind"] == "doc" else ti
    out = {"entries": [], "chunks": [], "inlined": ti2.is_inlined()}
    if ti2.is_inlined():
        ids, ws, vs = ti2.inlined_postings()
        m = ListMatcher(ids, ws, vs, fmt, terminfo=ti2)
    else:
        off, length = ti2.extent()
        m = W3LeafMatcher(st.open_file("p"), off, length, fmt, byteids=(c["kind"] == "term"))
    cur = 0
    while m.is_active():
        v = m.value()
        if isinstance(v, str):
            v = v.encode("latin1")
        out["entries"].append("(%s %s %s)" % (G.show_id(c["kind"], m.id()), G.rat(m.weight()),
                                              G.opt(G.hexs, v if v != b"" or c["fs"] != 0 else None)))
        cur += 1
        r = m.next()
        if r or not m.is_active():
            out["chunks"].append(cur)
            cur = 0
    out["agg"] = "(agg %d %s %s %s %s %s %s)" % (
        ti2.doc_frequency(), G.rat(ti2.weight()), G.opt(str, ti2.min_length()), ti2.max_length(),
        G.rat(ti2.max_weight()), G.opt(lambda i: G.show_id(c["kind"], i), ti2.min_id()),
        G.opt(lambda i: G.show_id(c["kind"], i), ti2.max_id()))
    return out


def _check_spec(ctx, c, spec_line, rw):
    from whoosh.util.numeric import length_to_byte, byte_to_length
    try:
        ro = _real_readout(c)
    except Exception as e:  # noqa
        ctx.violation("codec-readout:exception", _case_json(c), spec_line[:500], repr(e),
                      "reading a written posting list back raised")
        return
    if "err" in ro:
        ctx.violation("codec-write:exception", _case_json(c), spec_line[:500], ro["err"],
                      "writing an admissible posting list raised")
        return
    sp = parse_sexp(spec_line)
    exp_entries = ["(%s %s %s)" % tuple(e) for e in sp[0][1:]]
    if exp_entries != ro["entries"]:
        k = next((i for i, (a, b) in enumerate(zip(exp_entries, ro["entries"])) if a != b),
                 min(len(exp_entries), len(ro["entries"])))
        ctx.violation("postings-roundtrip:entry-mismatch", _case_json(c), exp_entries[k:k + 3], ro["entries"][k:k + 3],
                      "the posting list read back differs from the one written (first difference at index %d)" % k)
    agg = sp[1]
    if c["kind"] == "doc":
        # term statistics went through W3TermInfo.to_bytes/from_bytes: lengths through the length byte
        mn = 0 if agg[3] == "none" else byte_to_length(length_to_byte(int(agg[3])))
        mx = byte_to_length(length_to_byte(int(agg[4])))
    else:
        mn, mx = (None if agg[3] == "none" else int(agg[3])), int(agg[4])
    exp_agg = "(agg %s %s %s %s %s %s %s)" % (agg[1], agg[2], G.opt(str, mn), mx, agg[5], agg[6], agg[7])
    if exp_agg != ro["agg"]:
        ctx.violation("terminfo:aggregate-mismatch", _case_json(c), exp_agg, ro["agg"],
                      "W3TermInfo statistics differ from the aggregates of the posting list")
    chunks = [int(x) for x in sp[2][1]]
    if not ro["inlined"] and ro["chunks"] != chunks:
        ctx.violation("blocks:chunk-sizes", _case_json(c), chunks, ro["chunks"],
                      "block sizes differ from consecutive chunks of blocklimit postings")


# ------------------------------------------------------------------------------------------------
# stream 2: formats.py word_values / decode_* (model <-> real)

def _real_wv(arg):
    fmt, fb, toks = arg
    try:
        return G.real_word_values(fmt, fb, toks)
    except Exception as e:  # noqa
        return "exc %s %s" % (type(e).__name__, e)


def stream_formats(ctx, n, cases=None):
    rng = ctx.rng("formats")
    if cases is None:
        cases = []
        for _ in range(n):
            cases.append((rng.choice(G.FMT_NAMES), rng.choice([1.0, 1.0, 2.0, 0.5, 4.0]),
                          G.gen_tokens(rng, maxlen=rng.choice([8, 8, 30]), longterm=True)))
    lines = ["c10 wv %s %s %s" % (f, G.rat(fb), G.lst([G.token_sexp(t) for t in toks])) for f, fb, toks in cases]
    model = ctx.driver.ask(lines)
    real = ctx.pmap(_real_wv, cases, chunksize=32)
    for (f, fb, toks), m, r in zip(cases, model, real):
        texts = [t[0] for t in toks]
        repeated = len(set(texts)) < len(texts)
        ctx.case(("wv", f, fb, tuple(toks)), nontrivial=repeated)
        ctx.stat("formats:" + f)
        if m != r:
            case = {"_stream": "formats", "_pickle": _pack((f, fb, toks)), "format": f, "field_boost": fb,
                    "tokens": [list(t) for t in toks]}
            if (f == "characterboosts" and fb != 1.0 and not r.startswith("exc")
                    and _strip_weights(m) == _strip_weights(r)):
                ctx.violation("CharacterBoosts.word_values:weight-ignores-field_boost", case, m[:400], r[:400],
                              "CharacterBoosts.word_values yields the summed token boosts as the posting weight "
                              "without multiplying by field_boost (every other format does)")
            else:
                ctx.divergence("formats.%s" % f, case, m[:1500], r[:1500])
    if cases:
        ctx.sample({"word_values_case": {"format": cases[0][0], "tokens": cases[0][2]}, "model": model[0][:300]})


def _strip_weights(line):
    """word_values text with the weight column removed (third field of each item)."""
    items = parse_sexp(line)
    return [[it[0], it[1]] + it[3:] for it in items[0]] if items else []


# ------------------------------------------------------------------------------------------------
# stream 3: public API end-to-end, oracle = Lean spec (`c10 index`)

def stream_index(ctx, n, cases=None):
    rng = ctx.rng("index")
    if cases is None:
        cases = [G.gen_index_case(rng, ctx.tier) for _ in range(n)]
    speclines = ctx.driver.ask([G.index_case_line(c) for c in cases])
    results = ctx.pmap(G.run_index_case, list(zip(cases, speclines)), chunksize=4)
    for c, sl in zip(cases, speclines):
        if not sl.rstrip().endswith("(model 1)"):
            # the executable model of add_document -> pool -> add_postings / vector items disagrees with
            # Layer S on this input (theorems term_postings_spec / vector_items, evaluated)
            ctx.divergence("termPostings/vectorItems-vs-spec", G.index_case_json(c), "model = spec", sl[-200:])
    for c, (viol, stats) in zip(cases, results):
        multi = stats.get("postings-multiblock", 0) > 0
        ctx.case(("index", repr(sorted(G.index_case_json(c).items()))), nontrivial=multi or stats.get("vectors", 0) > 0)
        ctx.stat("index:codec=" + c["codec"])
        ctx.stat("index:fmt=" + c["fmt"])
        ctx.stat("index:history=" + c["history"])
        ctx.stat("index:storage=" + c["storage"])
        for k, v in stats.items():
            ctx.stat("index:" + k, v)
        for sig, exp, obs, desc in viol:
            ctx.violation(sig, dict(G.index_case_json(c), _stream="index", _pickle=_pack(c)), exp, obs, desc)
    if cases:
        ctx.sample({"index_case": G.index_case_json(cases[0]), "spec": speclines[0][:300]})


# ------------------------------------------------------------------------------------------------
# stream 4: weights that are not float32 numbers (array('f') is the parameter f32 of the model)

def _real_f32(arg):
    import struct
    from whoosh.codec.whoosh3 import W3LeafMatcher
    bl, weights = arg

    def f32(x):
        return struct.unpack("!f", struct.pack("!f", x))[0]
    postings = [(i * 3, w, b"v", 2) for i, w in enumerate(weights)]
    err, st, ti = G.real_write("doc", bl, 0, 0, None, postings)
    if err:
        return ["write raised " + err]
    m = W3LeafMatcher(st.open_file("p"), ti.extent()[0], ti.extent()[1], G.make_format(None))
    problems, k = [], 0
    while m.is_active():
        w = m.weight()
        if w != f32(weights[k]):
            problems.append(("weight", k, w, f32(weights[k])))
        if m.block_max_weight() < w:
            problems.append(("block-max-weight-below-stored-weight", k, m.block_max_weight(), w))
        blk = weights[(k // bl) * bl:(k // bl) * bl + bl]
        if m.block_max_weight() != max([0] + [f32(x) for x in blk]):
            problems.append(("block-max-weight-not-max-of-stored", k, m.block_max_weight(), max(f32(x) for x in blk)))
        k += 1
        m.next()
    if k != len(weights):
        problems.append(("count", k, len(weights)))
    if ti.max_weight() != max([0] + [f32(x) for x in weights]):
        problems.append(("terminfo-max-weight", ti.max_weight(), max(f32(x) for x in weights)))
    return problems


def stream_f32(ctx, n, args=None):
    rng = ctx.rng("f32")
    pool = [0.1, 0.2, 0.3, 1.0 / 3, 1e-8, 123456.789, 0.7, 2.0 / 3, 1.1, 16777217.0, 0.30000000000000004, 5e-5]
    if args is None:
        args = []
        for _ in range(n):
            bl = rng.choice([1, 2, 3, 4, 128])
            args.append((bl, [rng.choice(pool) * rng.choice([1, 1, 3, 0.5])
                              for _ in range(rng.randint(1, 3 * min(bl, 4) + 2))]))
    for (bl, ws), problems in zip(args, ctx.pmap(_real_f32, args, chunksize=16)):
        ctx.case(("f32", bl, tuple(ws)), nontrivial=len(ws) > bl)
        ctx.stat("f32:cases")
        for p in problems[:1]:
            name = p[0] if isinstance(p, tuple) else "exception"
            ctx.violation("W3PostingsWriter.add_posting:" + name,
                          {"_stream": "f32", "_pickle": _pack((bl, ws)), "blocklimit": bl, "weights": ws}, "see desc", list(p) if isinstance(p, tuple) else p,
                          "weights are stored as float32; block/term maxima must be maxima of the stored weights")


# ------------------------------------------------------------------------------------------------
# stream 5: reading.combine_terminfos (MultiReader.term_info / MultiCursor.term_info) against
# WM/Model/CodecMulti.lean `combineTerminfos`, and against Layer S `aggStats` of the concatenated list

def _gen_combine_case(rng):
    nseg = rng.choice([1, 1, 2, 2, 3, 5])
    segs, base = [], rng.choice([0, 0, 3, 1000])
    for _ in range(nseg):
        size = rng.choice([1, 2, 5, 40])
        n = rng.randint(1, size)
        ids = sorted(rng.sample(range(size), n))
        ps = [(i, rng.choice([1, 2, 4, 8, 12, 999]) / 8.0, rng.choice([0, 1, 2, 17, 18, 255, 106374])) for i in ids]
        segs.append((ps, base))
        base += size + rng.choice([0, 0, 7])      # segments with trailing documents that lack the term
    return segs


def _stats_text(ti):
    return "(%s %d %d %d %s %d %d)" % (G.rat(ti.weight()), ti.doc_frequency(), ti.min_length(), ti.max_length(),
                                         G.rat(ti.max_weight()), ti.min_id(), ti.max_id())


def _mp_list(ps, off=0):
    return G.lst(["(%d %s %d)" % (i + off, G.rat(w), l) for i, w, l in ps])


def stream_combine(ctx, n, cases=None):
    from whoosh.reading import TermInfo, combine_terminfos
    rng = ctx.rng("combine")
    if cases is None:
        cases = [_gen_combine_case(rng) for _ in range(n)]
    # per-segment statistics (Layer S) and the aggregates of the whole list in global numbering
    lines, spans = [], []
    for segs in cases:
        spans.append(len(lines))
        lines.extend("c10 agg %s" % _mp_list(ps) for ps, _ in segs)
        lines.append("c10 agg %s" % G.lst(["(%d %s %d)" % (i + off, G.rat(w), l) for ps, off in segs for i, w, l in ps]))
    aggs = ctx.driver.ask(lines)
    req = []
    for segs, a in zip(cases, spans):
        items = []
        for k, (_, off) in enumerate(segs):
            items.append("(%s %d)" % (aggs[a + k].strip("()"), off))
        req.append("c10 combine %s" % G.lst(items))
    model = ctx.driver.ask(req)
    for segs, a, m in zip(cases, spans, model):
        cj = {"_stream": "combine", "_pickle": _pack(segs), "segments": [[list(map(str, p)) for p in ps] + [off] for ps, off in segs]}
        ctx.case(("combine", repr(segs)), nontrivial=len(segs) > 1 or segs[0][1] > 0)
        ctx.stat("combine:segments=%d" % len(segs))
        tis = []
        for k, (ps, off) in enumerate(segs):
            w, df, mnl, mxl, mw, mnid, mxid = parse_sexp(aggs[a + k])[0]
            tis.append((TermInfo(weight=float(G.Fraction(w)), df=int(df), minlength=int(mnl), maxlength=int(mxl),
                                 maxweight=float(G.Fraction(mw)), minid=int(mnid), maxid=int(mxid)), off))
        try:
            real = _stats_text(combine_terminfos(tis))
        except Exception as e:  # noqa
            real = "!" + type(e).__name__
        whole = aggs[a + len(segs)]
        if m != real:
            ctx.divergence("reading.combine_terminfos", cj, m, real)
        if real != whole:
            ctx.violation("reading.combine_terminfos:differs-from-aggregates-of-the-concatenated-list", cj, whole, real,
                          "statistics combined over %d segments" % len(segs))


def run(ctx):
    _corpus(ctx)
    stream_combine(ctx, ctx.budget(200, 4000))
    rng = ctx.rng("codec")
    n = ctx.budget(2000, 20000)
    cases = [_codec_case(rng) for _ in range(n)]
    cases += [_codec_case(rng, malformed=True) for _ in range(n // 8)]
    stream_codec(ctx, cases)
    stream_reset(ctx, cases[:ctx.budget(1200, 12000)])
    stream_formats(ctx, ctx.budget(4000, 40000))
    stream_tibytes(ctx, ctx.budget(1500, 12000))
    stream_index(ctx, ctx.budget(800, 8000))
    stream_f32(ctx, ctx.budget(600, 4000))


def _corpus(ctx):
    """Replay the stored minimised cases first (corpus/C10/*.json: {"_stream", "_pickle", ...})."""
    cdir = os.path.join(os.path.dirname(os.path.dirname(os.path.dirname(os.path.abspath(__file__)))), "corpus", ID)
    if not os.path.isdir(cdir):
        return
    by = {}
    for name in sorted(os.listdir(cdir)):
        if name.endswith(".json"):
            rec = json.load(open(os.path.join(cdir, name)))
            by.setdefault(rec["_stream"], []).append(_unpack(rec["_pickle"]))
            ctx.stat("corpus:" + rec["_stream"])
    _dispatch(ctx, by)


def _dispatch(ctx, by):
    if by.get("codec"):
        stream_codec(ctx, by["codec"])
    if by.get("formats"):
        stream_formats(ctx, 0, by["formats"])
    if by.get("index"):
        stream_index(ctx, 0, by["index"])
    if by.get("f32"):
        stream_f32(ctx, 0, by["f32"])
    if by.get("combine"):
        stream_combine(ctx, 0, by["combine"])


def replay(ctx, rec):
    """Re-run one stored failing input against the current tree; True if it still fails."""
    case = rec.get("case") or rec
    if "_pickle" not in case:
        print("replay record carries no case to re-run")
        return False
    _dispatch(ctx, {case["_stream"]: [_unpack(case["_pickle"])]})
    sig = rec.get("signature")
    hits = [v for v in ctx.violations if sig is None or v["signature"] == sig] or ctx.violations
    for v in hits[:3]:
        print("signature:", v["signature"])
        print("expected :", str(v["expected"])[:400])
        print("observed :", str(v["observed"])[:400])
    for d in ctx.divergences[:2]:
        print("divergence:", d["component"], "model", d["model"][:200], "impl", d["impl"][:200])
    return bool(hits or ctx.divergences)
