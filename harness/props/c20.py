"""C20 — on-disk tables, number codecs and doc-id sets implement their abstract types."""
from vcheck import sexp

ID = "C20"
LEVEL = "proof"
LEAN_IMPORTS = ["WM.Props.C20Varint", "WM.Props.C20IdSets", "WM.Props.C20NumLists", "WM.Props.C20NumPack", "WM.Props.C20Hash", "WM.Props.C20HashBytes", "WM.Props.C20Sort", "WM.Props.C20Compound", "WM.Props.C20Base85"]
_IDSET_THEOREMS = """bitset_iter_sorted bitset_mem ondisk_mem bitset_to_disk_ondisk bitset_add bitset_discard bitset_ofSource bitset_update
bitset_intersection_update bitset_difference_update bitset_union bitset_intersection bitset_difference
bitset_invert bitset_clear bitset_trim bitset_resize bitset_len bitset_bool bitset_first bitset_last
bitset_before bitset_after sis_ofSource sis_contains sis_add sis_discard sis_before sis_after sis_first_last
sis_update sis_intersection sis_difference sis_invariant sis_invert_exact sis_invert_partial
rev_iter rev_contains rev_first rev_last rev_len rev_add rev_discard rev_contains_exact rev_contains_out_of_range
rev_len_exact rev_add_out_of_range rev_update rev_difference_update rev_intersection_update rev_unsupported multi_unsupported
multi_iter_sorted multi_contains multi_len
bitset_logic_or bitset_logic_and bitset_logic_andnot bitset_logic_trimmed bitset_logic_and_empty
idset_pool_step idset_pool_run
delta_roundtrip delta_roundtrip_inv fixed_roundtrip fixed_get varints_roundtrip growable_contents growable_fits
growable_extend growable_thresholds growable_nat_never_fails growable_readback
gints_roundtrip gints_layout gints_rejects simple16_word simple16_roundtrip simple16_rejects simple16_get
deltas_roundtrip gints_deltas_roundtrip simple16_deltas_roundtrip varints_deltas_roundtrip fixed_deltas_roundtrip
hash_build_total hash_writer_formats hash_writer_rejects hash_lookup hash_get_contains hash_items
ordered_writer_rejects ordered_writer_formats ordered_closest_key ordered_items_from
struct_roundtrip struct_rejects struct2_roundtrip structfile_read_write structfile_string_roundtrip
hash_record_bytes hash_file_open hash_lookup_bytes hash_items_bytes
extsort_sorted_perm extsort_reduce_bound extsort_rejects compound_member_bytes compound_directory compound_file_bytes
compound_writer_streams subfile_read subfile_read_all subfile_read_chunks b85_roundtrip b85_chars_ascending""".split()
THEOREMS = (["WM.C20.varint_roundtrip", "WM.C20.zigzag_roundtrip", "WM.C20.signed_varint_roundtrip",
             "WM.C20.encode_bytes"] + ["WM.C20." + t for t in _IDSET_THEOREMS])
PARTIAL = {
    "WM.C20.sis_invert_partial": "full statement `sis_invert_full` (for every size) is false for the generic "
                                 "DocIdSet.invert_update loop: members >= size are kept (recorded finding; negation "
                                 "proved for SortedIntSet([1,2,9]).invert(5)); `sis_invert_exact` states what the loop does",
    "WM.C20.rev_unsupported": "ReverseIdSet has no before/after/copy/union/intersection/difference/invert: they raise "
                              "NotImplementedError (full statement `rev_api_full` is false, negation proved; 7 recorded "
                              "findings); the inherited update/difference_update/intersection_update are proved "
                              "(rev_update, rev_difference_update, rev_intersection_update)",
    "WM.C20.multi_unsupported": "MultiIdSet has no first/last/before/after/copy/union/intersection/difference/invert "
                                "(NotImplementedError; `multi_api_full` false, negation proved; 9 recorded findings)",
    "WM.C20.rev_contains": "needs i < limit; outside it `rev_contains_exact`/`rev_contains_out_of_range` state what the "
                           "code answers (True for every i >= limit not in the wrapped set, though never iterated)",
    "WM.C20.rev_len": "needs all wrapped members < limit; `rev_len_exact` gives limit - len(idset) in general "
                      "(len() raises ValueError when that is negative)",
    "WM.C20.rev_add": "needs n < limit; `rev_add_out_of_range`: for n >= limit iteration is unchanged, only the wrapped "
                      "set loses n",
    "WM.C20.hash_lookup_bytes": "the pickled extras (and, for an ordered file, the position index stored after the "
                                "pickle inside the extras region) are an opaque blob below 2^31 bytes; the reader is "
                                "proved on the bytes the (format-checked) writer produced, with the default `length`; a "
                                "corrupt file (negative numbers in a struct) is outside the model",
    "WM.C20.compound_member_bytes": "directory kept as a list and the two pickles (directory, options) an opaque blob: "
                                    "the pickle round trip is trusted; the 12 header bytes, their back-patch by write_dir "
                                    "and the reader's read_long/read_int/seek are modelled as bytes and proved "
                                    "(compound_file_bytes, below 2^63 / 2^31); the member view of a non-mmapped file "
                                    "(SubFile.read(n)/read()/chunked reading) is modelled and proved separately "
                                    "(subfile_read, subfile_read_all, subfile_read_chunks) for non-negative positions; "
                                    "SubFile.seek(where, 2) computes length - where (io files: length + where; equal only "
                                    "for where = 0) and a seek to a negative position lets read() reach the bytes before the "
                                    "member: both are mirrored by the model and run model <-> code only",
    "WM.C20.growable_contents": "GrowableArray._retype's `except ValueError: self.array = list(...)` fallback (arrays "
                                "without 'q' support, Python < 3.3) is not modelled",
}
RULE = ("varint: every n < 2^14 plus boundary-biased samples up to 2^70 (non-trivial: more than one byte). "
        "id sets: random op programs (3-24 ops; values biased to byte boundaries, 8k-1/8k/8k+1, beyond the array) on "
        "BitSet/OnDiskBitSet/SortedIntSet/ReverseIdSet/MultiIdSet (non-trivial: a mutator changed the set and a query "
        "returned a member); programs over a pool of 2-5 named BitSet/SortedIntSet registers (from_bytes arrays of length "
        "0..9 incl. untrimmed ones, BitSet(source,size), SortedIntSet) where results of union/intersection/difference "
        "(method and operator forms) and of the in-place variants are fed back as operands on either side (non-trivial: "
        "a binary op's right operand was the result of an earlier binary op and an observation was non-empty). number lists: delta lists, GrowableArray append sequences across 255/256, 65535/65536, "
        "2^31, 2^32, 2^63 (non-trivial: a retype happened), fixed/varint/Simple16/GInts lists incl. numbers above maxint "
        "(non-trivial: >= 2 distinct numbers), single Simple16 words (runs fitting one of the widths 1..28 with outliers, any input "
        "offset; arbitrary 32-bit words decompressed), GInts/Simple16 read_nums on truncated and arbitrary files, Simple16.get "
        "at every index of 1..60 numbers after 0..7 foreign bytes. hash files: 0..5000 keys, 8 hash functions incl. constant and 2-3-valued ones, start offsets 0, 3, "
        "~2^16, ~2^31, ~2^32 (non-trivial: >= 2 pairs with a bucket collision or duplicate key); byte level: 0..60 pairs "
        "after 0/1/3/17/300 foreign bytes, whole file compared byte by byte and the model reader run on the real bytes; "
        "StructFile numbers for b/B/H/i/I/q/Q around every power-of-two boundary (non-trivial: inside the format, "
        "more than one byte), strings across 127/128 and 16383/16384. external sort: run sizes "
        "1..7, maxfiles 2..4 (non-trivial: more runs than maxfiles). compound: 1..8 members / interleaved sub-stream "
        "writes with buffer sizes 0..64 (non-trivial: >= 2 members with data / a flush happened); finished files up to 6000 "
        "bytes compared byte by byte with the model (header back-patch, 0/3/17 bytes before the compound data). "
        "distinct = distinct canonical (component, input)")


def _varints(ctx):
    from whoosh.util import varints
    rng = ctx.rng("varint")
    ns = list(range(0, 1 << 14))
    for k in range(7, 71, 7):
        for d in (-2, -1, 0, 1, 2):
            ns.append((1 << k) + d)
    ns += [rng.getrandbits(rng.randint(1, 70)) for _ in range(ctx.budget(2000, 200000))]
    ns = [n for n in ns if n >= 0]
    tail = b"\x05\xff"
    outs = ctx.driver.ask(["c20 varint-enc %d" % n for n in ns])
    decs = ctx.driver.ask(["c20 varint-dec %s" % sexp(varints.varint(n) + tail) for n in ns])
    for n, menc, mdec in zip(ns, outs, decs):
        impl = varints.varint(n)
        ctx.case(("varint", n), nontrivial=len(impl) > 1)
        if sexp(impl) != menc:
            ctx.divergence("varints.varint", n, menc, sexp(impl))
        # end-to-end: the implementation decodes its own encoding, leaving the suffix unread
        pos = [0]
        data = impl + tail

        def readfn(k):
            r = data[pos[0]:pos[0] + k]
            pos[0] += k
            return r
        try:
            back = varints.read_varint(readfn)
            rest = data[pos[0]:]
        except Exception as e:  # noqa
            back, rest = repr(e), b""
        if back != n or rest != tail:
            ctx.violation("varint-roundtrip", n, [n, tail.hex()], [back, rest.hex()],
                          "read_varint(varint(n)) != n")
        if mdec != "%d %s" % (n, sexp(tail)):
            ctx.divergence("varints.read_varint", n, mdec, "%d %s" % (n, sexp(tail)))
    ctx.sample({"varint": ns[300], "bytes": varints.varint(ns[300]).hex()})
    # zig-zag
    zs = list(range(-5000, 5000)) + [rng.randint(-(1 << 66), 1 << 66) for _ in range(2000)]
    encs = ctx.driver.ask(["c20 svarint-enc %d" % z for z in zs])
    for z, menc in zip(zs, encs):
        impl = varints.signed_varint(z)
        ctx.case(("svarint", z), nontrivial=z < 0)
        if sexp(impl) != menc:
            ctx.divergence("varints.signed_varint", z, menc, sexp(impl))
        back = varints.decode_signed_varint(varints.varint_to_int(bytes_to_chars(impl)))
        if back != z:
            ctx.violation("zigzag-roundtrip", z, z, back, "decode_signed_varint(signed_varint(z)) != z")


def bytes_to_chars(b):
    # varint_to_int indexes with ord(vi[p]); on Python 3 that needs a sequence of 1-byte strings
    return [bytes([x]) for x in b]


def run(ctx):
    import os
    import time
    from gen import c20_idsets, c20_numlists, c20_hash, c20_misc, c20_hashbytes
    streams = [("varint", _varints), ("idsets", c20_idsets.run), ("numlists", c20_numlists.run),
               ("hash", c20_hash.run), ("hashbytes", c20_hashbytes.run), ("misc", c20_misc.run)]
    only = os.environ.get("C20_ONLY")
    # corpus replay first
    import json
    cdir = os.path.join(os.path.dirname(os.path.dirname(os.path.dirname(os.path.abspath(__file__)))), "corpus", "C20")
    if os.path.isdir(cdir):
        for fn in sorted(os.listdir(cdir)):
            if fn.endswith(".json"):
                rec = json.load(open(os.path.join(cdir, fn)))
                if rec.get("stream") == "idsets":
                    for c in rec["cases"]:
                        c20_idsets.replay_case(ctx, {"case": c, "op": None})
                    ctx.stat("corpus-cases:idsets", len(rec["cases"]))
    for name, fn in streams:
        if only and name not in only.split(","):
            continue
        t0 = time.time()
        fn(ctx)
        ctx.note("stream %s: %.1fs, %d evaluations so far" % (name, time.time() - t0, ctx.evaluations))


def replay(ctx, rec):
    """Re-execute a stored failing input against the current tree.  Id-set records carry the whole
    op program and are re-run alone; for the other streams the generating stream is re-run with the
    recorded tier/seed (generation is a pure function of them) and the signature is looked for."""
    import os
    from gen import c20_idsets, c20_numlists, c20_hash, c20_misc, c20_hashbytes
    sig = rec.get("signature", "")
    stored = rec.get("case")
    ctx.tier, ctx.seed = rec.get("tier", ctx.tier), rec.get("seed", ctx.seed)
    head = sig.split(".")[0].split(":")[0]
    if isinstance(stored, dict) and isinstance(stored.get("case"), dict) and "kind" in stored["case"] \
            and head in ("BitSet", "OnDiskBitSet", "SortedIntSet", "ReverseIdSet", "MultiIdSet"):
        c20_idsets.replay_case(ctx, stored)
    elif head in ("HashReader", "HashWriter", "OrderedHashReader", "OrderedHashWriter", "HashWriter/HashReader"):
        c20_hash.run(ctx)
        if not any(v["signature"] == sig for v in ctx.violations):
            c20_hashbytes.run(ctx)
    elif head == "StructFile":
        c20_hashbytes.run(ctx)
    elif head in ("externalsort", "SortingPool", "compound", "CompoundStorage", "CompoundWriter", "SubFile", "base85",
                  "from_base85(to_base85(x))!=x"):
        c20_misc.run(ctx)
    elif head in ("varint-roundtrip", "zigzag-roundtrip"):
        _varints(ctx)
    else:
        c20_numlists.run(ctx)
    hits = [v for v in ctx.violations if v["signature"] == sig]
    for v in hits[:1]:
        print("expected: %r" % (v["expected"],))
        print("observed: %r" % (v["observed"],))
    return bool(hits)


ASSUMPTIONS = [
    "array('B') keeps bit-array bytes below 256 (hypothesis of bitset_len/bitset_bool); doc ids are non-negative",
    "ReverseIdSet: wrapped ids and queried ids lie below `limit` (its documented precondition); MultiIdSet: sub-sets are "
    "serial, at least one, first offset 0 (Multi.WF)",
    "hash files: record positions are positive (the 13-byte header precedes them) and distinct; hash values fit 32 bits "
    "on the real side (the model needs no bound)",
    "external sort: `le` is total and transitive; heapq.merge is a stable k-way merge, list.sort/sorted stable sorts",
    "model mirrors code: sampled on every run (correspondence streams), not proved",
]
TRUSTED = [
    "CPython bisect/heapq.merge/sorted/set/array/struct/pickle/marshal/BytesIO (modelled by their specifications)",
    "pickled extras of the hash file and the compound directory pickle: opaque (the hash file's header, records, "
    "table slots, directory and trailing length are modelled as bytes: WM.HashBytes, whole files compared byte by byte)",
]
EXPLANATION = (
    "Every run: (1) axiom audit of the theorems; (2) correspondence: generated op programs / number lists / "
    "key-value sets / sort inputs / member files are executed on the real whoosh classes and on the compiled Lean "
    "models, raw state compared (bit arrays, sorted arrays, typecodes, record positions, every hash-table slot, "
    "directory offsets, sub-stream blocks); (3) end-to-end: the public API against the Lean specification "
    "(WM.Spec.IdSet through the driver, cross-checked with Python set; value lists per key; sorted(input); member bytes).")

MANIFEST = {
    "level_text": "Lean theorems, unbounded (all op programs, all key/value lists with any hash function, all run sizes and "
                  "maxfiles, all buffer sizes and interleavings, all integers): every BitSet/OnDiskBitSet/SortedIntSet/"
                  "ReverseIdSet/MultiIdSet operation is the set operation on `toSet`; HashWriter always terminates and "
                  "HashReader.all(k) is the list of values written under k in insertion order (open addressing over 2n "
                  "slots), ordered files answer closest_key/items_from by binary search; varint, delta, fixed-width, "
                  "growable-array, GInts, Simple16 and base-85 codecs round-trip; the external sort returns a sorted permutation; compound "
                  "members and sub-streams are byte-identical. Models are tied to whoosh by differential runs on every check.",
    "level_note": "Partial: SortedIntSet.invert (generic DocIdSet.invert_update keeps members >= size) is proved only for sets "
                  "below `size` (recorded finding, exact behaviour proved as sis_invert_exact). ReverseIdSet/MultiIdSet lack "
                  "before/after/copy/union/... (NotImplementedError: rev_unsupported, multi_unsupported, 16 recorded findings); "
                  "ReverseIdSet outside [0,limit) is described by rev_*_exact/_out_of_range. Hash files: record-level model with "
                  "the struct-format limits as checked preconditions (buildE/buildOrderedE), position index read from the "
                  "GrowableArray bytes. GInts and Simple16 are modelled loop by loop and proved (gints_roundtrip/_layout/_rejects: "
                  "key byte + 1..4 bytes per number, groups of four and a shorter last group; simple16_word/_roundtrip/_rejects/_get: "
                  "whatever layout _compress picks, _decompress returns the numbers taken, for every list below 2^28; get(i) as "
                  "repaired by the proposed fix commit - on a tree without it get() raises TypeError, the recorded finding). Not modelled: "
                  "pickle layout, temp files of the sort, RoaringIdSet, b85encode/b85decode (broken on this tree: recorded findings / out of the "
                  "property's list); FieldedOrderedHash* is not modelled but run end-to-end on generated multi-field files "
                  "(three recorded findings, each with a proposed fix commit). Trusted: Lean kernel "
                  "+ propext/Quot.sound/Classical.choice, CPython stdlib pieces modelled by specification.",
    "technique": "machine-checked proof in Lean 4 over executable models + differential correspondence check and "
                 "spec-as-oracle end-to-end run against the implementation",
}
