"""C20 — on-disk tables, number codecs and doc-id sets implement their abstract types."""
from vcheck import sexp

ID = "C20"
LEVEL = "proof"
LEAN_IMPORTS = ["WM.Props.C20Varint"]
THEOREMS = ["WM.C20.varint_roundtrip", "WM.C20.zigzag_roundtrip", "WM.C20.signed_varint_roundtrip",
            "WM.C20.encode_bytes"]
RULE = ("varint: every n < 2^14 plus boundary-biased samples up to 2^70; non-trivial = encoding longer "
        "than one byte; distinct = distinct (component, input)")


def _varints(ctx):
    from whoosh.util import varints
    rng = ctx.rng("varint")
    ns = list(range(0, 1 << 14))
    for k in range(7, 71, 7):
        for d in (-2, -1, 0, 1, 2):
            ns.append((1 << k) + d)
    ns += [rng.getrandbits(rng.randint(1, 70)) for _ in range(ctx.budget(2000, 200000))]
    ns = [n for n in ns if n >= 0]
    tail = b"\x05\xff"
    outs = ctx.driver.ask(["c20 varint-enc %d" % n for n in ns])
    decs = ctx.driver.ask(["c20 varint-dec %s" % sexp(varints.varint(n) + tail) for n in ns])
    for n, menc, mdec in zip(ns, outs, decs):
        impl = varints.varint(n)
        ctx.case(("varint", n), nontrivial=len(impl) > 1)
        if sexp(impl) != menc:
            ctx.divergence("varints.varint", n, menc, sexp(impl))
        # end-to-end: the implementation decodes its own encoding, leaving the suffix unread
        pos = [0]
        data = impl + tail

        def readfn(k):
            r = data[pos[0]:pos[0] + k]
            pos[0] += k
            return r
        try:
            back = varints.read_varint(readfn)
            rest = data[pos[0]:]
        except Exception as e:  # noqa
            back, rest = repr(e), b""
        if back != n or rest != tail:
            ctx.violation("varint-roundtrip", n, [n, tail.hex()], [back, rest.hex()],
                          "read_varint(varint(n)) != n")
        if mdec != "%d %s" % (n, sexp(tail)):
            ctx.divergence("varints.read_varint", n, mdec, "%d %s" % (n, sexp(tail)))
    ctx.sample({"varint": ns[300], "bytes": varints.varint(ns[300]).hex()})
    # zig-zag
    zs = list(range(-5000, 5000)) + [rng.randint(-(1 << 66), 1 << 66) for _ in range(2000)]
    encs = ctx.driver.ask(["c20 svarint-enc %d" % z for z in zs])
    for z, menc in zip(zs, encs):
        impl = varints.signed_varint(z)
        ctx.case(("svarint", z), nontrivial=z < 0)
        if sexp(impl) != menc:
            ctx.divergence("varints.signed_varint", z, menc, sexp(impl))
        back = varints.decode_signed_varint(varints.varint_to_int(bytes_to_chars(impl)))
        if back != z:
            ctx.violation("zigzag-roundtrip", z, z, back, "decode_signed_varint(signed_varint(z)) != z")


def bytes_to_chars(b):
    # varint_to_int indexes with ord(vi[p]); on Python 3 that needs a sequence of 1-byte strings
    return [bytes([x]) for x in b]


def run(ctx):
    _varints(ctx)


def replay(ctx, rec):
    print(rec)
    return False

MANIFEST = {
    "level_text": "Lean theorems (unbounded: all integers, all suffixes) for the varint/zig-zag codecs over an "
                  "executable model; the model is tied to whoosh.util.varints by exhaustive-below-2^14 plus "
                  "boundary-biased differential runs on every check.",
    "level_note": "Trusted: Lean kernel + propext/Quot.sound/Classical.choice; the hand-written model mirrors the "
                  "code only as far as the differential run shows; CPython ints/bytes.",
}
