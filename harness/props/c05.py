"""C05 — limiting a search to the top N never changes which hits win or their scores."""
import contextlib
import os
import sys
import tempfile
from fractions import Fraction

from vcheck import sexp, parse_sexp
from gen import collect as G

ID = "C05"
LEVEL = "proof"
LEAN_IMPORTS = ["WM.Props.C05"]
THEOREMS = ["WM.C05.topk", "WM.C05.unlimited", "WM.C05.limited_eq_prefix_of_unlimited", "WM.C05.contract_covered",
            "WM.C05.with_wrappers_partial", "WM.C05.collapse_order_counterexample", "WM.C05.segment_order_matters"]
PARTIAL = {"WM.C05.with_wrappers_partial":
           "full statement WM.C05.with_wrappers_full also covers CollapseCollector: open for collapsing by result "
           "order (only checked differentially), refuted for collapse_order (WM.C05.collapse_order_counterexample, "
           "recorded finding)"}
RULE = ("collector stream: random abstract segments (0-12 postings each, 1-4 segments of different sizes - the fake "
        "searcher is a real whoosh Searcher over fake readers that answer doc_count()/doc_count_all() per segment -, tied quarter-integer "
        "scores incl. zero and negative ones, random block flags) x random schedule of wishes (drop / lower the "
        "score, in replace() and in skip_to_quality()) x limit/replace/usequality/final; non-trivial = the "
        "schedule really dropped a posting or the heap refused/evicted one. "
        "end-to-end streams: random corpus (W3Codec blocklimit 1/2/4/8, 1-4 segments, deletions, boosts) x random "
        "query tree x filter/mask/collapse/terms wrappers, Or-of-terms union trees (terms=True), deleted documents "
        "among the best hits, AndNot/AndMaybe/Require with a compound second operand, a final()-hook "
        "weighting, DisjunctionMax with a non-zero tie-breaker (plain, nested, boosted, and the Or-of-per-word-dismax "
        "shape DisMaxParser builds; the general query generator also draws tiebreak from {0, 0.25, 0.5, 1, 2}), "
        "Require/AndMaybe/AndNot whose scored side is an intersection (And of frequent terms, Phrase, And with a "
        "union) over blocklimit 1-3 posting lists, Or with a coordination scale (Or(subs, scale=s) = OrGroup.factory(s): "
        "CoordMatcher over 2-4 frequent terms, plain / boosted / nested / terms=True, BM25F-biased, blocklimit 1-4; the "
        "general query generator gives 30% of its Or nodes a scale from {0.5, 0.9, 1, 1.5, 1.75, 2}); non-trivial = the limited search reported skipped_times+replaced_times > 0; distinct = distinct "
        "canonical case. A failing case is attributed to a recorded root cause only if it passes when exactly that "
        "root cause is repaired in-process and the cause's precondition holds on the minimised input")
ASSUMPTIONS = ["matchers honour the C12 contract WM.Matcher.Keeps for a non-zero threshold q (entries scoring > q are "
               "untouched; entries <= q may be dropped, kept, or kept with a lower score - WM.C05.contract_covered "
               "proves that the model's schedules produce every such outcome) and replace(0) changes nothing. The "
               "matcher family proves the contract for its matcher models only in part (C12.replace_keeps_partial "
               "holds for boosts in (0, 1]; the boost > 1 case is the recorded WrappingMatcher.replace finding); "
               "here it is a hypothesis, and violations by the real matchers surface in the end-to-end streams",
               "scores are exact rationals in the model: the float re-association that a replace() rewrite of the "
               "matcher tree can cause ('same scores' up to rounding) is outside the model; the end-to-end streams "
               "compare floats for equality and would report it",
               "the exhaustive ranking is taken at the scores the postings have when the search starts "
               "(hypothesis Fresh of WM.C05.topk: ghost field orig = score on input)",
               "heapq implements a priority queue; list.sort is a stable sort",
               "Collector.run visits the leaf searchers in index order, i.e. documents reach the collector in ascending "
               "global document number (hypothesis hwf of WM.C05.topk, mirrored by runSegs; WM.C05.segment_order_matters "
               "shows on a three-document instance that the hypothesis cannot be dropped: with another visiting order "
               "tied documents of an earlier segment lose). The collector stream drives the real Collector.run over "
               "segments of different sizes, so a change of the visiting order is a divergence"]
TRUSTED = ["the scheduled fake matcher and the fake readers / query of harness/gen/collect.py (subclasses of the real "
           "whoosh Matcher, IndexReader, Query, WeightingModel; the fake searcher is a real whoosh Searcher over them "
           "and drives the real collectors through the real search_with_collector with the same schedule the Lean "
           "model consumes)",
           "the in-process repairs used to attribute failures to recorded root causes (harness/props/c05.py ROOT_CAUSES)"]
MANIFEST = {
    "level_text": "Lean theorem C05.topk: for every limit>=1, replace period, quality switch, final() hook, segment "
                  "layout, block-flag assignment, every scores (no positivity guard) and every schedule of matcher "
                  "drops and score-lowerings within the C12 contract (C05.contract_covered: every outcome the "
                  "contract allows), the model of ScoredCollector.matches + TopCollector returns exactly "
                  "the first k entries of the exhaustive ranking, which C05.unlimited ties to the model of "
                  "search(limit=None); C05.with_wrappers_partial adds filter/mask. The "
                  "model is tied to whoosh.collectors by running the real collectors over a scheduled fake matcher "
                  "against the compiled model, and search(limit=k) is compared end to end with the Lean ranking of "
                  "the limit=None hits on real indexes with tiny posting blocks.",
    "level_note": "The matcher internals (replace/skip_to_quality of the real matcher classes) are abstracted by the "
                  "contract; violations of the contract by the real matchers are found by the end-to-end stream and "
                  "belong to C11/C12. Collapsing is covered differentially only (with_wrappers_full is open without "
                  "collapse_order and refuted with it).",
    "technique": "machine-checked proof in Lean 4 over an executable model + differential correspondence check "
                 "against the implementation + end-to-end run against the Lean specification",
}


# ------------------------------------------------------------------------------------------------
# stream A: the real collectors over a scheduled fake matcher  vs  the Lean model / the Lean spec

def _gen_top_case(rng, positive):
    segs, sched = G.gen_world(rng, positive=positive)
    n = sum(len(ps) for _, _, ps in segs)
    limit = rng.choice([1, 1, 2, 2, 3, 5, 10, max(1, n - 1), n + 3])
    replace = rng.choice([0, 1, 1, 2, 3, 10, 10])
    usequality = rng.random() < 0.8
    final = None
    if rng.random() < 0.2:
        final = {}
        for g, _ in G.all_hits(segs):
            if rng.random() < 0.5:
                final[g] = rng.choice([0.25, 0.5, 1.0, 2.0, 3.0, 8.0, 16.0])
    return {"segs": segs, "sched": sched, "limit": limit, "replace": replace, "usequality": usequality,
            "final": final}


def _run_top_impl(case):
    """Real TopCollector over the fake world. Returns the observable tuple or ('err', name)."""
    from whoosh import collectors
    w = G.FakeWorld(case["segs"], case["sched"], case["final"])
    c = collectors.TopCollector(limit=case["limit"], usequality=case["usequality"], replace=case["replace"])
    try:
        r = w.run(c)
    except IndexError:
        return ("err", "IndexError")
    except KeyError:
        return ("err", "KeyError")
    hits = [(docnum, G.frac(score)) for score, docnum in r.top_n]
    try:
        n = len(r)
    except AttributeError:
        n = None      # no segment at all: TopCollector has no matcher to ask (unreachable through search())
    case["_lowered"] = w.ctl.lowered
    return ("ok", hits, c.total, c.replaced_times, c.skipped_times, [G.frac(t) for t in w.ctl.log],
            getattr(c, "may_have_dropped", None), n)


def _top_line(case):
    ft = case["final"]
    return "c05 top (%d %d %d %d) %s %s %s" % (
        case["limit"], case["replace"], 1 if case["usequality"] else 0, 1 if ft is not None else 0,
        G.hits_sexp(sorted(ft.items())) if ft else "()", G.segs_sexp(case["segs"]), G.sched_sexp(case["sched"]))


def _parse_top(reply):
    p = parse_sexp(reply)
    if p[0] == "err":
        return ("err", p[1])
    return ("ok", G.parse_hits(p[1]), int(p[2]), int(p[3]), int(p[4]), [G.parse_rat(t) for t in p[5]], p[6] == "1",
            int(p[7]))


def _stream_collectors(ctx):
    rng = ctx.rng("collectors")
    n = ctx.budget(1500, 40000)
    cases = []
    for i in range(n):
        cases.append(_gen_top_case(rng, positive=(i % 5 != 0)))
    # a few degenerate ones
    cases.append({"segs": [(0, True, [(0, 1.0, True)])], "sched": [], "limit": 0, "replace": 10,
                  "usequality": True, "final": None})
    cases.append({"segs": [], "sched": [], "limit": 3, "replace": 10, "usequality": True, "final": None})
    # the run evaluated in lean/WM/Props/C05.lean: skip_to_quality(5) skips doc 2 and lowers doc 3, replace(5) drops doc 4
    cases.append({"segs": [(0, True, [(0, 3.0, True), (1, 5.0, True), (2, 1.0, True), (3, 2.0, False), (4, 4.0, True),
                                      (5, 7.0, True)])],
                  "sched": [([], True, 0), ([], True, 0), ([], True, 1, [("l", 1.0), False, True]), ([True], True, 0)],
                  "limit": 1, "replace": 1, "usequality": True, "final": None})
    replies = ctx.driver.ask([_top_line(c) for c in cases])
    speclines = []
    for c in cases:
        hits = G.all_hits(c["segs"], c["final"])
        speclines.append("c05 spec %d %s" % (c["limit"], G.hits_sexp(hits)))
    specs = ctx.driver.ask(speclines)
    for case, reply, spec in zip(cases, replies, specs):
        model = _parse_top(reply)
        impl = _run_top_impl(case)
        positive = all(s > 0 for _, _, ps in case["segs"] for _, s, _ in ps)
        nhits = sum(len(ps) for _, _, ps in case["segs"])
        dropped = impl[0] == "ok" and impl[2] < nhits
        evicted = impl[0] == "ok" and impl[2] > len(impl[1])
        ctx.case(("top", _top_line(case)), nontrivial=dropped or evicted)
        ctx.stat("collector:top")
        if dropped:
            ctx.stat("collector:schedule-dropped")
        if evicted:
            ctx.stat("collector:heap-refused-or-evicted")
        if impl[0] == "ok" and impl[4]:
            ctx.stat("collector:skip-engaged")
        if case.get("_lowered"):
            ctx.stat("collector:score-lowered-by-matcher")
        if case["final"] is not None:
            ctx.stat("collector:final-hook")
        if not positive:
            ctx.stat("collector:non-positive-scores")
        if not case["segs"] and model[0] == "ok" and impl[0] == "ok":
            model, impl = model[:7], impl[:7]
        if model != impl:
            # (no `continue`: the real collectors are still held against the Lean specification below, which turns
            # a divergence into a concrete failing input whenever the property itself is broken)
            ctx.divergence("collectors.ScoredCollector.matches+TopCollector", _top_line(case), model, impl)
        if impl[0] == "ok" and nhits and len(impl) > 7 and impl[7] != nhits:
            ctx.violation("TopCollector(fake matcher within contract):len(results)!=matched", _top_line(case),
                          nhits, impl[7], "len(results) of a limited search is not the number of matching documents")
        if impl[0] == "ok" and case["limit"] >= 1:
            want = G.parse_hits(parse_sexp(spec)[0])
            if impl[1] != want:
                ctx.violation("TopCollector(fake matcher within contract):top_n!=topK", _top_line(case),
                              want, impl[1], "TopCollector over a contract-abiding matcher differs from the ranking prefix")
    ctx.sample({"collector_case": _top_line(cases[3]), "model_reply": replies[3]})


# ------------------------------------------------------------------------------------------------
# stream B: end to end on real indexes:  search(limit=k)  vs  search(limit=None)  vs  the Lean ranking

EXACT_WEIGHTINGS = ("freq", "function", "revfreq", "finalhook")
SEARCH_TIMEOUT = 3.0
TOL = 1e-9


def _search(s, q, **kw):
    """-> ('ok', [(doc, score)], skipped, replaced, len) | ('exc', name)."""
    try:
        with G.time_limit(SEARCH_TIMEOUT):
            r = s.search(q, **kw)
            n = len(r)
        c = r.collector
        while hasattr(c, "child"):
            c = c.child
        return ("ok", [(d, sc) for sc, d in r.top_n], getattr(c, "skipped_times", 0),
                getattr(c, "replaced_times", 0), type(c).__name__, n)
    except Exception as e:  # noqa: every exception class is an observable
        return ("exc", type(e).__name__)


def _ks(n, rng=None):
    ks = [1, 2, 3, 10, n - 1]
    return sorted(set(k for k in ks if 1 <= k))


def _close(a, b):
    return abs(a - b) <= TOL * max(1.0, abs(a), abs(b))


def _py_rank(hits):
    return sorted(hits, key=lambda h: (-h[1], h[0]))


def _compare(top, allhits, k, exact):
    """None if `top` (the limited search) is an acceptable rendering of the first k of the ranking of
    `allhits`; otherwise a short kind string."""
    want = _py_rank(allhits)[:k]
    if exact:
        if top == want:
            return None
    else:
        if len(top) == len(want):
            full = dict(allhits)
            ok = True
            for (d, sc), (wd, wsc) in zip(top, want):
                if d not in full or not _close(sc, full[d]) or not _close(sc, wsc):
                    ok = False
                    break
            if ok and len(set(d for d, _ in top)) == len(top):
                return None
    if len(top) != len(want):
        return "count"
    full = dict(allhits)
    if any(d not in full for d, _ in top):
        return "foreign-doc"
    if any(not (_close(sc, full[d]) if not exact else sc == full[d]) for d, sc in top):
        return "score"
    if sorted(d for d, _ in top) != sorted(d for d, _ in want):
        return "docs"
    return "order"


def _e2e_run_one(s, qd, ks, exact, optimize=True, extra=None):
    from gen import collect as GG
    q = GG.build_query(qd)
    kw = dict(extra or {})
    ra = _search(s, q, limit=None, **kw)
    out = {"all": ra, "tops": {}}
    for k in ks:
        out["tops"][k] = _search(s, q, limit=k, optimize=optimize, **kw)
    return out


def _gen_extra(rng, ndocs):
    """Wrapping collectors: filter / mask (id set or query), collapse, terms recording."""
    kind = rng.choice(["filter-set", "filter-query", "mask-set", "mask-query", "collapse", "collapse", "terms",
                       "filter+collapse", "filter+mask", "terms", "filter-results", "mask-results"])
    ids = sorted(rng.sample(range(ndocs), rng.randint(0, ndocs)))
    fq = ["term", "t", rng.choice(G.VOCAB)]
    if kind == "filter-set":
        return {"filter": ids}
    if kind == "filter-query":
        return {"filter": fq}
    if kind == "mask-set":
        return {"mask": ids}
    if kind == "mask-query":
        return {"mask": fq}
    if kind in ("filter-results", "mask-results"):
        # the Results object of a limited scored search: it stands for every document its query matched
        return {kind.split("-")[0]: {"results": fq, "limit": rng.choice([1, 2, 3, 10])}}
    if kind == "collapse":
        return {"collapse": "k", "collapse_limit": rng.choice([1, 1, 2])}
    if kind == "terms":
        return {"terms": True}
    if kind == "filter+mask":
        return {"filter": sorted(rng.sample(range(ndocs), rng.randint(ndocs // 2, ndocs))),
                "mask": sorted(rng.sample(range(ndocs), rng.randint(0, ndocs // 2)))}
    return {"filter": ids, "collapse": "k", "collapse_limit": 1}


def _e2e_worker(arg):
    """One corpus, several queries. Returns JSON-able records."""
    import random
    seedstr, nq, zero = arg
    rng = random.Random(seedstr)
    corpus = G.gen_corpus(rng)
    wname = rng.choice(G.WEIGHTINGS)
    if zero:
        wname = rng.choice(["freq", "revfreq", "freq"])
    recs = []
    try:
        ix = G.build_index(corpus)
    except Exception as e:  # noqa
        return [{"infra": "build_index: %r" % (e,)}]
    with ix.searcher(weighting=G.build_weighting(wname)) as s:
        n = s.doc_count()
        for _ in range(nq):
            qd = G.gen_query(rng, depth=rng.choice([1, 2, 2, 3, 3, 4]), allow_zero_boost=zero)
            ks = _ks(n)
            extra = _gen_extra(rng, len(corpus["docs"])) if rng.random() < 0.3 else None
            res = _e2e_run_one(s, qd, ks, wname in EXACT_WEIGHTINGS, extra=_build_extra(extra, s))
            recs.append({"corpus": corpus, "weighting": wname, "q": qd, "n": n, "res": res, "zero": zero,
                         "extra": extra})
    return recs


def _fails(rec_res, k, exact):
    ra = rec_res["all"]
    rt = rec_res["tops"][k]
    if ra[0] != "ok":
        return "limit-none-raises-" + ra[1]
    if rt[0] != "ok":
        return "raises-" + rt[1]
    kind = _compare(rt[1], ra[1], k, exact)
    if kind is None and rt[5] != ra[5]:
        return "len"
    return kind


def _instrument():
    """Wrap replace/skip_to_quality of every matcher class; returns (engaged set, restore fn)."""
    from whoosh.matching import mcore
    import whoosh.matching.binary, whoosh.matching.wrappers, whoosh.matching.combo  # noqa
    import whoosh.codec.whoosh3, whoosh.query.spans  # noqa
    classes, stack = set(), [mcore.Matcher]
    while stack:
        c = stack.pop()
        for sub in c.__subclasses__():
            if sub not in classes:
                classes.add(sub)
                stack.append(sub)
    engaged, saved = set(), []
    called = set()
    engaged_called = called  # noqa

    def wrap(cls, name, orig):
        if name == "replace":
            def w(self, *a, **k):
                called.add("%s.replace" % type(self).__name__)
                r = orig(self, *a, **k)
                if type(r) is not type(self):
                    engaged.add("%s.replace->%s" % (type(self).__name__, type(r).__name__))
                return r
        else:
            def w(self, *a, **k):
                called.add("%s.skip_to_quality" % type(self).__name__)
                r = orig(self, *a, **k)
                if r:
                    engaged.add("%s.skip_to_quality" % type(self).__name__)
                return r
        return w
    for cls in sorted(classes, key=lambda c: c.__name__):
        for name in ("replace", "skip_to_quality"):
            if name in cls.__dict__:
                orig = cls.__dict__[name]
                setattr(cls, name, wrap(cls, name, orig))
                saved.append((cls, name, orig))

    def restore():
        for cls, name, orig in saved:
            setattr(cls, name, orig)
        if not engaged:
            engaged.update("called:" + c for c in called if not c.startswith("W3LeafMatcher"))
    return engaged, restore


def _exc_site(e):
    """Innermost whoosh frame of an exception: 'file.py:function'."""
    import traceback
    site = "?"
    for fr in traceback.extract_tb(e.__traceback__):
        if "/whoosh/" in fr.filename:
            site = "%s:%s" % (fr.filename.split("/whoosh/")[-1], fr.name)
    return "%s@%s" % (type(e).__name__, site)


def _still_fails(corpus, wname, qd, k, optimize=True, replace=None, usequality=None, detail=False, extra=None):
    """Re-run one (corpus, query, k); returns the failure kind or None (with detail=True: (kind, engaged))."""
    from whoosh import collectors
    ix = G.build_index(corpus)
    exact = wname in EXACT_WEIGHTINGS
    engaged, restore = (set(), None)
    with ix.searcher(weighting=G.build_weighting(wname)) as s:
        kw = _build_extra(extra, s)
        if k >= s.doc_count() or k < 1:
            return (None, set()) if detail else None
        q = G.build_query(qd)
        try:
            with G.time_limit(SEARCH_TIMEOUT):
                ra = s.search(q, limit=None, **kw)
                nall = len(ra)
            ra = ("ok", [(d, sc) for sc, d in ra.top_n])
        except Exception as e:  # noqa
            kind = "search(limit=None)-raises-" + _exc_site(e)
            return (kind, set()) if detail else kind
        if detail:
            engaged, restore = _instrument()
        try:
            try:
                with G.time_limit(SEARCH_TIMEOUT):
                    if replace is None and usequality is None:
                        r = s.search(q, limit=k, optimize=optimize, **kw)
                    else:
                        c = collectors.TopCollector(limit=k, usequality=True if usequality is None else usequality,
                                                    replace=10 if replace is None else replace)
                        s.search_with_collector(q, c)
                        r = c.results()
                    nk = len(r)
                rt = ("ok", [(d, sc) for sc, d in r.top_n])
            except Exception as e:  # noqa
                rt = ("exc", _exc_site(e))
        finally:
            if restore:
                restore()
        if rt[0] != "ok":
            kind = "raises-" + rt[1]
        else:
            kind = _compare(rt[1], ra[1], k, exact)
            if kind is None and nk != nall:
                kind = "len"
        return (kind, engaged) if detail else kind


def _build_extra(extra, searcher=None):
    """extra search() keyword arguments from their JSON-able description (a filter / mask given as a Results
    object needs the searcher: the object is produced by a limited scored search on it)."""
    if not extra:
        return {}
    kw = {}
    for key, v in extra.items():
        if key in ("filter", "mask") and isinstance(v, dict):
            kw[key] = searcher.search(G.build_query(v["results"]), limit=v["limit"])
        elif key in ("filter", "mask"):
            kw[key] = set(v) if isinstance(v, list) and (not v or isinstance(v[0], int)) else G.build_query(v)
        else:
            kw[key] = v
    return kw


# ------------------------------------------------------------------------------------------------
# root-cause classification: a failing case is explained by a recorded root cause iff it stops failing
# when exactly that root cause is repaired in-process

@contextlib.contextmanager
def _rc_wrapping_replace():
    """WrappingMatcher.replace hands the threshold to the child unscaled although score() is the child's
    score times the boost (recorded under C12; tests/test_quality.py::test_replacements pins it).
    Repair: translate the threshold into the child's scale."""
    from whoosh.matching import wrappers
    orig = wrappers.WrappingMatcher.replace

    def replace(self, minquality=0):
        boost = getattr(self, "boost", 1.0)
        if minquality and boost > 0:
            r = self.child.replace(minquality / boost)
        else:
            r = self.child.replace(0)
        if r is not self.child:
            return self._replacement(r)
        return self
    wrappers.WrappingMatcher.replace = replace
    try:
        yield
    finally:
        wrappers.WrappingMatcher.replace = orig


@contextlib.contextmanager
def _rc_array_union_positive():
    """ArrayUnionMatcher (the Or strategy for many clauses / large indexes) recognises a matching
    document by `score > 0`: documents whose summed score is <= 0 (zero boost, weightings with negative
    scores) are no matches for it, while every other path sees them.  Repair: never use the array union."""
    from whoosh.query import compound
    orig = compound.Or.matcher_type
    compound.Or.matcher_type = compound.Or.DEFAULT_MATCHER
    try:
        yield
    finally:
        compound.Or.matcher_type = orig


@contextlib.contextmanager
def _rc_coord_replace():
    """CoordMatcher.score() depends on the *number of matching terms* of the document, but CoordMatcher.replace()
    hands a (correctly translated) score threshold to its child, and a child replace() only promises to keep
    *scores*: DisjunctionMaxMatcher.replace drops the side that cannot reach the threshold, a document matching
    both sides keeps its child score (the max) but loses a matching term, i.e. its coordination bonus.
    Repair: only structural replacement (threshold 0) below a CoordMatcher."""
    from whoosh.matching import wrappers
    orig = wrappers.CoordMatcher.replace

    def replace(self, minquality=0):
        r = self.child.replace(0)
        if r is not self.child:
            return self._replacement(r)
        return self
    wrappers.CoordMatcher.replace = replace
    try:
        yield
    finally:
        wrappers.CoordMatcher.replace = orig


@contextlib.contextmanager
def _rc_coord_no_quality():
    """In-process repair for the CoordMatcher root cause in its general form: the coordinated score depends on how
    many terms match the document, and every quality optimisation *below* the CoordMatcher (a DisjunctionMax that
    skips one side past the document in skip_to_quality, a replace() that sheds the weaker side) keeps the child's
    score but lowers that count.  The repair switches the optimisations off for this matcher: no block quality,
    structural replace only."""
    from whoosh.matching import wrappers
    orig_r, orig_s = wrappers.CoordMatcher.replace, wrappers.CoordMatcher.supports_block_quality

    def replace(self, minquality=0):
        r = self.child.replace(0)
        if r is not self.child:
            return self._replacement(r)
        return self
    wrappers.CoordMatcher.replace = replace
    wrappers.CoordMatcher.supports_block_quality = lambda self: False
    try:
        yield
    finally:
        wrappers.CoordMatcher.replace = orig_r
        wrappers.CoordMatcher.supports_block_quality = orig_s


def _has_coord_over_dismax(c, wname, q, ex):
    """Precondition of the CoordMatcher.replace root cause: an Or with a coordination scale that has a
    DisjunctionMax below it."""
    def walk(x, under):
        if not (isinstance(x, list) and x and isinstance(x[0], str) and x[0] in G.KINDS):
            return False
        here = under or (x[0] == "or" and len(x) > 2 and bool(x[2]))
        if x[0] == "dismax" and here:
            return True
        for y in x[1:]:
            if isinstance(y, list):
                if walk(y, here) or any(walk(z, here) for z in y if isinstance(z, list)):
                    return True
        return False
    return walk(q, False)


def _has_boost_above_one(c, wname, q, ex):
    """Precondition of the WrappingMatcher.replace root cause: the query carries a boost > 1."""
    if q[0] == "boost" and q[-1] > 1:
        return True
    for x in q[1:]:
        if isinstance(x, list):
            if x and isinstance(x[0], str) and x[0] in G.KINDS:
                if _has_boost_above_one(c, wname, x, ex):
                    return True
            else:
                for y in x:
                    if isinstance(y, list) and y and isinstance(y[0], str) and y[0] in G.KINDS and \
                            _has_boost_above_one(c, wname, y, ex):
                        return True
    return False


def _has_nonpositive_hit(c, wname, q, ex):
    """Precondition of the ArrayUnionMatcher root cause (evaluated with the repair in place): the
    exhaustive result contains a hit scoring <= 0."""
    ix = G.build_index(c)
    with ix.searcher(weighting=G.build_weighting(wname)) as s:
        try:
            with G.time_limit(SEARCH_TIMEOUT):
                r = s.search(G.build_query(q), limit=None, **_build_extra(ex, s))
        except Exception:  # noqa
            return False
        return any(sc <= 0 for sc, _ in r.top_n)


# (signature name, in-process repair, precondition that must hold for the case to be attributable at all)
ROOT_CAUSES = [
    ("WrappingMatcher.replace:boost>1:threshold-not-divided-by-boost", _rc_wrapping_replace, _has_boost_above_one),
    ("ArrayUnionMatcher:document-with-score<=0-is-no-match", _rc_array_union_positive, _has_nonpositive_hit),
    # (the narrower "CoordMatcher.replace sheds matching terms" root cause of the first round-4 run is the
    #  replace half of the following one; a case explained by two recorded causes would not be attributable)
    ("CoordMatcher:quality-pruning-below-lowers-the-matching-term-count(DisjunctionMax-below-Or(scale))",
     _rc_coord_no_quality, _has_coord_over_dismax),
]


def _explained_by(c, wname, q, kk, ex):
    """Names of the recorded root causes whose precondition holds and whose in-process repair alone
    makes the case pass."""
    names = []
    for name, patch, pre in ROOT_CAUSES:
        try:
            with patch():
                kind = _still_fails(c, wname, q, kk, extra=ex)
                ok = kind is None and pre(c, wname, q, ex)
        except Exception:  # noqa
            ok = False
        if ok:
            names.append(name)
    return names


def _shrink_worker(arg):
    """Minimise a failing (corpus, weighting, query, k) and classify it. Returns a dict."""
    corpus, wname, qd, k, kind0, extra = arg[:6]
    budget = [arg[6] if len(arg) > 6 else 300]     # 0: classify the case as it is, without minimising

    def fails_w(c, w, q, kk):
        if budget[0] <= -40:
            return None
        budget[0] -= 1
        try:
            return _still_fails(c, w, q, kk, extra=extra_cur[0])
        except Exception:  # noqa
            return None

    def fails(c, q, kk):
        if budget[0] <= 0:
            return None
        return fails_w(c, wname, q, kk)
    extra_cur = [extra]
    # is the wrapping collector part of the cause?
    if extra:
        saved = extra_cur[0]
        extra_cur[0] = None
        if not fails(corpus, qd, k):
            extra_cur[0] = saved
            for key in sorted(saved):
                if len(saved) > 1:
                    trial = {k2: v for k2, v in saved.items() if k2 != key and not (key == "collapse" and k2 == "collapse_limit")}
                    extra_cur[0] = trial
                    if trial and fails(corpus, qd, k):
                        saved = trial
                    extra_cur[0] = saved
    cur = (corpus, qd, k)
    changed = True
    while changed and budget[0] > 0:
        changed = False
        c, q, kk = cur
        # smaller query
        for q2 in G.subqueries(q):
            if fails(c, q2, kk):
                cur = (c, q2, kk)
                changed = True
                break
        if changed:
            continue
        # single segment, no deletions, no boosts
        for c2 in _corpus_simplifications(c):
            kk2 = min(kk, max(1, len(c2["docs"]) - len(c2["dels"]) - 1))
            if fails(c2, q, kk2):
                cur = (c2, q, kk2)
                changed = True
                break
        if changed:
            continue
        for kk2 in (1, 2):
            if kk2 < kk and fails(c, q, kk2):
                cur = (c, q, kk2)
                changed = True
                break
    c, q, kk = cur
    # is the weighting model part of the cause?
    wtag = wname
    for w2 in ("freq", "bm25"):
        if w2 != wname and fails_w(c, w2, q, kk):
            wname, wtag = w2, "any"
            break
    if wname in ("freq", "bm25") and wtag != "any":
        other = "bm25" if wname == "freq" else "freq"
        if fails_w(c, other, q, kk):
            wtag = "any"
    ex = extra_cur[0]
    try:
        kind, engaged = _still_fails(c, wname, q, kk, detail=True, extra=ex)
    except Exception as e:  # noqa
        kind, engaged = "harness-" + type(e).__name__, set()
    kind = kind or kind0
    # which optimisation is needed for the failure
    if ex:
        only_replace = only_skip = neither = None
    else:
        only_replace = _still_fails(c, wname, q, kk, usequality=False)
        only_skip = _still_fails(c, wname, q, kk, replace=0)
        neither = _still_fails(c, wname, q, kk, replace=0, usequality=False)
    if ex:
        opt = "wrapped"
    elif neither:
        opt = "none"
    elif only_replace and only_skip:
        opt = "replace-or-skip"
    elif only_replace:
        opt = "replace"
    elif only_skip:
        opt = "skip_to_quality"
    else:
        opt = "replace+skip_to_quality"
    causes = _explained_by(c, wname, q, kk, ex)
    if not causes:
        # the minimisation may have walked to a different defect: ask the original case too
        causes = _explained_by(corpus, arg[1], qd, k, extra)
    return {"corpus": c, "weighting": wname, "wtag": wtag, "q": q, "k": kk, "kind": kind, "opt": opt,
            "nodes": sorted(G.query_kinds(q)), "engaged": sorted(engaged), "extra": ex, "causes": causes}


def _corpus_simplifications(c):
    out = []
    n = len(c["docs"])
    if c["cuts"]:
        out.append(dict(c, cuts=[]))
        out.append(dict(c, cuts=c["cuts"][:-1]))
    if c["dels"]:
        out.append(dict(c, dels=[]))
    if any("boost" in d for d in c["docs"]):
        out.append(dict(c, docs=[{k2: v for k2, v in d.items() if k2 != "boost"} for d in c["docs"]]))
    if c.get("tboost", 1.0) != 1.0 or c.get("uboost", 1.0) != 1.0:
        out.append(dict(c, tboost=1.0, uboost=1.0))
    # drop the tail / head halves, then single documents
    if n > 2:
        for a, b in ((0, n // 2), (n // 2, n), (0, n - 1), (1, n)):
            docs = c["docs"][a:b]
            cuts = [x - a for x in c["cuts"] if a < x < b]
            dels = [x - a for x in c["dels"] if a <= x < b]
            out.append(dict(c, docs=docs, cuts=cuts, dels=dels))
    if n <= 14:
        for i in range(n):
            docs = c["docs"][:i] + c["docs"][i + 1:]
            cuts = sorted(set((x - 1 if x > i else x) for x in c["cuts"] if 0 < (x - 1 if x > i else x) < len(docs)))
            dels = [(x - 1 if x > i else x) for x in c["dels"] if x != i]
            out.append(dict(c, docs=docs, cuts=cuts, dels=dels))
    # shorten documents
    for i, d in enumerate(c["docs"]):
        if len(d["t"]) > 1 and n <= 10:
            nd = dict(d, t=d["t"][:-1])
            out.append(dict(c, docs=c["docs"][:i] + [nd] + c["docs"][i + 1:]))
    if c["blocklimit"] > 1:
        out.append(dict(c, blocklimit=1))
    return out


STD_WEIGHTINGS = ("freq", "bm25", "bm25b0", "bm25k", "tfidf", "any")


def _sites(engaged):
    """Coarsen the instrumentation record to the set of composite-matcher optimisation sites that
    fired (or, if none fired, were called) on the minimised case."""
    out = set()
    for e in engaged:
        called = e.startswith("called:")
        if called:
            e = e[len("called:"):]
        e = e.split("->")[0]
        if e.startswith("W3LeafMatcher") or e.startswith("ListMatcher"):
            continue
        out.add(("called:" if called else "") + e)
    return sorted(out)


def signature_of(m):
    if len(m.get("causes") or []) == 1:
        return "search(limit=k)!=ranking[:k]|root-cause=" + m["causes"][0]
    kind = m["kind"]
    w = "std" if m["wtag"] in STD_WEIGHTINGS else m["wtag"]
    if kind.startswith("raises-Hang"):
        # where the watchdog interrupts an endless loop is a matter of timing: name the loop by the query
        wrap = ("," + "+".join(sorted(k2 for k2 in m["extra"] if k2 != "collapse_limit"))) if m.get("extra") else ""
        return "search(limit=k%s)|raises-Hang(no answer within %.0fs)|w=%s|nodes=%s" % (
            wrap, SEARCH_TIMEOUT, w, "+".join(m["nodes"]))
    if m.get("extra"):
        wrap = "+".join(sorted(k2 for k2 in m["extra"] if k2 != "collapse_limit"))
        return "search(limit=k,%s)!=search(limit=None,%s)[:k]|%s|w=%s|sites=%s" % (
            wrap, wrap, kind, w, "+".join(_sites(m["engaged"])) or "leaf-only")
    if kind.startswith("search(limit=None)-raises-"):
        return "%s|w=%s" % (kind, w)
    if kind.startswith("raises-"):
        return "search(limit=k)|%s|needs=%s|w=%s" % (kind, m["opt"], w)
    if kind == "len":
        return "len(search(limit=k))!=len(search(limit=None))|needs=%s|w=%s|nodes=%s" % (
            m["opt"], w, "+".join(m["nodes"]))
    if w != "std":
        # a weighting model whose quality bounds are not bounds (C12): the matcher sites are incidental
        return "search(limit=k)!=ranking[:k]|%s|needs=%s|w=%s" % (kind, m["opt"], w)
    return "search(limit=k)!=ranking[:k]|%s|needs=%s|w=std|sites=%s" % (
        kind, m["opt"], "+".join(_sites(m["engaged"])) or "leaf-only")


def _shrink_all(ctx, args):
    """Minimise and classify failing cases. The quick tier has 90 s for everything: when many cases fail (a
    broken tree) only the first ones are minimised, the others are classified as they are (root-cause
    attribution does not need a minimal input), and past 80 s the remaining ones are dropped with a note."""
    if ctx.tier != "quick":
        return ctx.pmap(_shrink_worker, args)
    out, step = [], max(4, getattr(ctx, "workers", 4))
    for i in range(0, len(args), step):
        el = ctx.elapsed()
        if el > 80:
            ctx.note("%d failing cases not classified (quick time budget used up)" % (len(args) - i))
            break
        chunk = args[i:i + step]
        if el > 62:
            chunk = [tuple(a[:6]) + (0,) for a in chunk]
        out.extend(ctx.pmap(_shrink_worker, chunk))
    return out


def _stream_e2e(ctx):
    nq = 6
    mk = lambda i: ("%s:%d:%d" % (ctx.pid, ctx.seed, i) + ":e2e", nq, i % 8 == 7)
    if ctx.tier == "quick":
        # use the quick time budget: batches of corpora until ~40 s of the run are spent (the machine is
        # shared: the number of batches adapts to its load; every case is still determined by its index)
        recs, i0, batch, maxn = [], 0, 240, ctx.budget(3600, 3600)
        while i0 < maxn and (i0 < batch or ctx.elapsed() < 34):
            results = ctx.pmap(_e2e_worker, [mk(i) for i in range(i0, i0 + batch)], chunksize=4)
            recs.extend(r for rs in results for r in rs)
            i0 += batch
        ctx.stat("e2e:corpora", i0)
    else:
        ncorp = ctx.budget(160, 3000)
        results = ctx.pmap(_e2e_worker, [mk(i) for i in range(ncorp)], chunksize=4)
        recs = [r for rs in results for r in rs]
        ctx.stat("e2e:corpora", ncorp)
    infra = [r for r in recs if "infra" in r]
    if infra:
        raise RuntimeError("index construction failed: %s" % infra[0]["infra"])
    # the Lean specification as oracle on the exact stream
    lines, owners = [], []
    for ri, r in enumerate(recs):
        ra = r["res"]["all"]
        if ra[0] != "ok" or r["weighting"] not in EXACT_WEIGHTINGS:
            continue
        for k in r["res"]["tops"]:
            lines.append("c05 spec %d %s" % (int(k), G.hits_sexp(sorted(ra[1]))))
            owners.append((ri, k))
        lines.append("c05 spec none %s" % G.hits_sexp(sorted(ra[1])))
        owners.append((ri, None))
    replies = ctx.driver.ask(lines)
    spec = {}
    for (ri, k), rep in zip(owners, replies):
        spec[(ri, k)] = G.parse_hits(parse_sexp(rep)[0])
    failing = []
    for ri, r in enumerate(recs):
        exact = r["weighting"] in EXACT_WEIGHTINGS
        ra = r["res"]["all"]
        engaged = False
        for k, rt in sorted(r["res"]["tops"].items()):
            if rt[0] == "ok" and rt[4] == "TopCollector":
                ctx.stat("e2e:TopCollector")
                if rt[2] or rt[3] > 1:
                    engaged = True
                if rt[2]:
                    ctx.stat("e2e:skipped_times>0")
                if rt[3] > 1:
                    ctx.stat("e2e:replaced_times>1")
            kind = _fails(r["res"], k, exact)
            if kind is None and exact and ra[0] == "ok" and rt[0] == "ok":
                want = spec[(ri, k)]
                got = [(d, G.frac(sc)) for d, sc in rt[1]]
                if got != want:
                    kind = "lean-spec"
            if kind is not None:
                failing.append((ri, k, kind))
        # limit=None must itself be the ranking of its hits (order + no duplicates)
        if ra[0] == "ok" and exact:
            got = [(d, G.frac(sc)) for d, sc in ra[1]]
            if got != spec[(ri, None)]:
                ctx.violation("search(limit=None):not-ranked-by-score-desc-doc-asc", {"corpus": r["corpus"], "q": r["q"],
                              "weighting": r["weighting"]}, spec[(ri, None)][:10], got[:10],
                              "the exhaustive result list is not in ranking order")
        ctx.case(("e2e", repr(r["q"]), r["weighting"], repr(r["corpus"]), repr(r.get("extra"))), nontrivial=engaged)
        if r.get("extra"):
            ctx.stat("e2e:wrapped:" + "+".join(sorted(k2 for k2 in r["extra"] if k2 != "collapse_limit")))
        ctx.stat("e2e:weighting:" + r["weighting"])
        for kd in G.query_kinds(r["q"]):
            ctx.stat("e2e:node:" + kd)
        ctx.stat("e2e:blocklimit:%d" % r["corpus"]["blocklimit"])
        ctx.stat("e2e:segments:%d" % (len(r["corpus"]["cuts"]) + 1))
        if r["zero"]:
            ctx.stat("e2e:zero-boost-region")
    # the check is blind if the optimisations do not engage (DESIGN 5.3): broken infrastructure, not a pass
    ntop = ctx.stats.get("e2e:TopCollector", 0)
    # (floor for block skipping re-measured after the matcher repairs: the sound skip rule, which uses the
    # sibling's max_quality instead of its block quality, engages in about 2-3 % of limited searches)
    if ntop and (ctx.stats.get("e2e:skipped_times>0", 0) < 0.008 * ntop or
                 ctx.stats.get("e2e:replaced_times>1", 0) < 0.2 * ntop):
        raise RuntimeError("the end-to-end generator no longer engages the optimisations: %d limited searches, "
                           "%d with skipped_times>0, %d with replaced_times>1" % (
                               ntop, ctx.stats.get("e2e:skipped_times>0", 0), ctx.stats.get("e2e:replaced_times>1", 0)))
    ctx.stat("e2e:failing(query,k)", len(failing))
    ctx.stat("e2e:queries", len(recs))
    ctx.stat("e2e:failing-queries", len(set(ri for ri, _, _ in failing)))
    # minimise + classify one k per failing query
    todo = {}
    for ri, k, kind in failing:
        todo.setdefault(ri, (k, kind))
    cap = ctx.budget(60, 300)
    # spend the minimisation budget across the raw failure kinds, not on the most frequent one only
    bykind = {}
    for ri, (k, kind) in sorted(todo.items()):
        bykind.setdefault(kind, []).append((ri, (k, kind)))
    items = []
    while len(items) < cap and any(bykind.values()):
        for kind in sorted(bykind):
            if bykind[kind] and len(items) < cap:
                items.append(bykind[kind].pop(0))
    args = [(recs[ri]["corpus"], recs[ri]["weighting"], recs[ri]["q"], int(k), kind, recs[ri].get("extra"))
            for ri, (k, kind) in items]
    mins = _shrink_all(ctx, args)
    for m in mins:
        sig = signature_of(m)
        ctx.violation(sig, {"corpus": m["corpus"], "weighting": m["weighting"], "q": m["q"], "k": m["k"],
                            "nodes": m["nodes"], "extra": m.get("extra")},
                      "first k of the exhaustive ranking", m["kind"],
                      "search(q, limit=%d) differs from search(q, limit=None)[:%d]" % (m["k"], m["k"]))
    if recs:
        r = recs[0]
        ctx.sample({"e2e_query": r["q"], "weighting": r["weighting"], "docs": len(r["corpus"]["docs"]),
                    "blocklimit": r["corpus"]["blocklimit"]})


def _corpus_worker(rec):
    try:
        kind = _still_fails(rec["corpus"], rec["weighting"], rec["q"], rec["k"], extra=rec.get("extra"))
    except Exception as e:  # noqa
        return "harness-" + type(e).__name__
    return kind


def _stream_corpus(ctx):
    """corpus/C05/*.json: minimised inputs of defects that were repaired; they must stay repaired."""
    import glob
    import json
    here = os.path.dirname(os.path.dirname(os.path.dirname(os.path.abspath(__file__))))
    files = sorted(glob.glob(os.path.join(here, "corpus", "C05", "*.json")))
    recs = [json.load(open(f)) for f in files]
    for f, rec, kind in zip(files, recs, ctx.pmap(_corpus_worker, recs)):
        ctx.case(("corpus", os.path.basename(f)), nontrivial=True)
        ctx.stat("corpus")
        if kind:
            ctx.violation("corpus:" + rec["name"], rec, "first k of the exhaustive ranking", kind, rec.get("about", ""))


def _final_worker(seedstr):
    """A weighting with a final() hook (scores are rescaled per document): limit=k vs limit=None."""
    import random
    rng = random.Random(seedstr)
    corpus = G.gen_corpus(rng, maxdocs=30)
    out = []
    ix = G.build_index(corpus)
    with ix.searcher(weighting=G.build_weighting("finalhook")) as s:
        n = s.doc_count()
        for _ in range(4):
            qd = rng.choice([["or", [["term", "t", rng.choice(G.VOCAB)], ["term", "t", rng.choice(G.VOCAB)]]],
                             ["or", [["term", "t", rng.choice(G.VOCAB)], ["term", "u", rng.choice(G.VOCAB)],
                                     ["term", "t", rng.choice(G.VOCAB)]]],
                             ["dismax", [["term", "t", rng.choice(G.VOCAB)], ["term", "t", rng.choice(G.VOCAB)]]],
                             ["term", "t", rng.choice(G.VOCAB)]])
            res = _e2e_run_one(s, qd, [k for k in (1, 2, 3) if k < n], True)
            out.append({"corpus": corpus, "q": qd, "res": res})
    return out


def _stream_final(ctx):
    n = ctx.budget(24, 400)
    recs = [r for rs in ctx.pmap(_final_worker, ["%s:%d:%d:final" % (ctx.pid, ctx.seed, i) for i in range(n)]) for r in rs]
    for r in recs:
        bad = None
        for k in sorted(r["res"]["tops"]):
            kind = _fails(r["res"], k, True)
            if kind:
                bad = (k, kind)
                break
        ctx.case(("final", repr(r["q"]), repr(r["corpus"])), nontrivial=True)
        ctx.stat("e2e:final-hook")
        if bad:
            ctx.violation("search(limit=k)!=ranking[:k]|weighting-with-final()-hook|%s" % bad[1].split("@")[0],
                          {"corpus": r["corpus"], "weighting": "finalhook", "q": r["q"], "k": int(bad[0])},
                          "first k of the exhaustive ranking", bad[1],
                          "a weighting with use_final: the limited search differs from the exhaustive ranking")


def _union_tree_worker(seedstr):
    """Or of 3-5 terms evaluated as a *tree* of binary UnionMatchers (terms=True forces it): the
    children of a union must get the threshold minus what the sibling can still contribute."""
    import random
    rng = random.Random(seedstr)
    corpus = G.gen_corpus(rng, maxdocs=60)
    wname = rng.choice(["freq", "tfidf", "bm25", "bm25b0"])
    exact = wname in EXACT_WEIGHTINGS
    out = []
    ix = G.build_index(corpus)
    with ix.searcher(weighting=G.build_weighting(wname)) as s:
        n = s.doc_count()
        for _ in range(6):
            terms = rng.sample(G.VOCAB, rng.choice([3, 3, 4, 5]))
            qd = ["or", [["term", "t", t] if rng.random() < 0.8 else ["boost", ["term", "t", t], rng.choice([0.5, 0.25])]
                         for t in terms]]
            extra = {"terms": True}
            res = _e2e_run_one(s, qd, [k for k in (1, 2, 3) if k < n], exact, extra=_build_extra(extra))
            out.append({"corpus": corpus, "weighting": wname, "q": qd, "n": n, "res": res, "zero": False,
                        "extra": extra})
    return out


def _deleted_blocks_worker(seedstr):
    """Deleted documents among the best hits, tiny posting blocks: after a block skip the matcher must
    not rest on (and return) a deleted document (FilterMatcher re-alignment)."""
    import random
    rng = random.Random(seedstr)
    corpus = G.gen_corpus(rng, maxdocs=60)
    corpus["blocklimit"] = rng.choice([1, 2, 2, 3, 4])
    if rng.random() < 0.6:
        corpus["cuts"] = []
    word = rng.choice(G.VOCAB)
    # delete some of the highest-scoring documents of the query term
    best = sorted(range(len(corpus["docs"])), key=lambda i: (-corpus["docs"][i]["t"].count(word), i))
    best = [i for i in best if corpus["docs"][i]["t"].count(word) > 0][:10]
    corpus["dels"] = sorted(rng.sample(best, min(len(best), rng.choice([1, 2, 3, 5]))))
    wname = rng.choice(["freq", "freq", "tfidf", "bm25", "bm25b0"])
    exact = wname in EXACT_WEIGHTINGS
    out = []
    ix = G.build_index(corpus)
    with ix.searcher(weighting=G.build_weighting(wname)) as s:
        n = s.doc_count()
        other = rng.choice(G.VOCAB)
        for qd in (["term", "t", word], ["or", [["term", "t", word], ["term", "t", other]]],
                   ["and", [["term", "t", word], ["term", "t", other]]], ["boost", ["term", "t", word], 0.5]):
            res = _e2e_run_one(s, qd, [k for k in (1, 2, 3, 5) if k < n], exact)
            out.append({"corpus": corpus, "weighting": wname, "q": qd, "n": n, "res": res, "zero": False,
                        "extra": None})
    return out


def _binary_compound_worker(seedstr):
    """Binary nodes whose second operand is a compound matcher: AndNot(x, Or(a, b)) must never hand the
    threshold to the negated side, AndMaybe/Require must treat the optional/required side correctly."""
    import random
    rng = random.Random(seedstr)
    corpus = G.gen_corpus(rng, maxdocs=60)
    corpus["blocklimit"] = rng.choice([1, 2, 4, 8])
    wname = rng.choice(["freq", "freq", "tfidf", "bm25", "bm25b0"])
    exact = wname in EXACT_WEIGHTINGS
    out = []
    ix = G.build_index(corpus)

    def t():
        return ["term", rng.choice(["t", "t", "u"]), rng.choice(G.VOCAB)]

    def compound():
        return [rng.choice(["or", "or", "and", "dismax"]), [t() for _ in range(rng.choice([2, 2, 3]))]]
    with ix.searcher(weighting=G.build_weighting(wname)) as s:
        n = s.doc_count()
        for _ in range(6):
            left = t() if rng.random() < 0.5 else ["or", [t(), t()]]
            qd = [rng.choice(["andnot", "andnot", "andmaybe", "require"]), left, compound()]
            if rng.random() < 0.25:
                qd = ["or", [qd, t()]]
            res = _e2e_run_one(s, qd, [k for k in (1, 2, 3, 5) if k < n], exact)
            out.append({"corpus": corpus, "weighting": wname, "q": qd, "n": n, "res": res, "zero": False,
                        "extra": None})
    return out



def _frequent_words(corpus, rng, n=2):
    """n distinct words of field t, biased to the most frequent ones (long, multi-block posting lists whose
    intersection is not empty)."""
    cnt = {}
    for d in corpus["docs"]:
        for w in set(d["t"]):
            cnt[w] = cnt.get(w, 0) + 1
    ranked = sorted(G.VOCAB, key=lambda w: (-cnt.get(w, 0), w))
    out = []
    while len(out) < n:
        w = ranked[min(len(ranked) - 1, int(rng.random() ** 2 * 5))] if rng.random() < 0.8 else rng.choice(G.VOCAB)
        if w not in out:
            out.append(w)
    return out


def _dismax_tiebreak_worker(seedstr):
    """DisjunctionMax with a non-zero tie-breaker (directly, nested, and in the shape DisMaxParser builds:
    an Or of per-word DisjunctionMax over the fields), documents matching several sub-queries, k below the
    number of matches: whatever score() does with the tie-breaker, the quality bounds used for pruning must
    dominate it, i.e. limit=k must stay the prefix of the exhaustive ranking."""
    import random
    rng = random.Random(seedstr)
    corpus = G.gen_corpus(rng, maxdocs=60)
    corpus["blocklimit"] = rng.choice([1, 2, 2, 4])
    wname = rng.choice(["freq", "freq", "tfidf", "bm25", "bm25b0", "bm25k"])
    exact = wname in EXACT_WEIGHTINGS
    out = []
    ix = G.build_index(corpus)

    def t(w=None, f=None):
        return ["term", f or rng.choice(["t", "t", "t", "u"]), w or rng.choice(G.VOCAB)]
    with ix.searcher(weighting=G.build_weighting(wname)) as s:
        n = s.doc_count()
        for _ in range(6):
            tb = rng.choice([0.25, 0.5, 0.5, 1.0, 2.0])
            words = _frequent_words(corpus, rng, rng.choice([2, 2, 3]))
            shape = rng.choice(["plain", "plain", "plain", "parser", "parser", "nested-or", "nested-and", "boost",
                                "compound-sub"])
            if shape == "plain":
                qd = ["dismax", [t(w, "t") for w in words], tb]
            elif shape == "parser":
                # DisMaxParser({"t": 1.0, "u": 0.5}, schema, tiebreak=tb).parse("w1 w2"): Or of per-word dismax
                qd = ["or", [["dismax", [["term", "t", w], ["boost", ["term", "u", w], 0.5]], tb] for w in words[:2]]]
            elif shape == "nested-or":
                qd = ["or", [["dismax", [t(w, "t") for w in words[:2]], tb], t()]]
            elif shape == "nested-and":
                qd = ["and", [["dismax", [t(w, "t") for w in words[:2]], tb], t(words[-1], "t")]]
            elif shape == "boost":
                qd = ["boost", ["dismax", [t(w, "t") for w in words], tb], rng.choice([0.5, 0.25])]
            else:
                qd = ["dismax", [["or", [t(words[0], "t"), t()]], t(words[1], "t")], tb]
            res = _e2e_run_one(s, qd, [k for k in (1, 2, 3, 5) if k < n], exact)
            out.append({"corpus": corpus, "weighting": wname, "q": qd, "n": n, "res": res, "zero": False,
                        "extra": None})
    return out


def _binary_intersection_worker(seedstr):
    """Require / AndMaybe / AndNot whose *scored* side is an intersection (And of frequent terms, a Phrase, And
    with a union inside) over multi-block posting lists: the scored side steps forward document by document
    inside skip_to_quality() (reporting 0 skipped blocks), so the wrapper has to re-align with its second
    operand whatever the count says."""
    import random
    rng = random.Random(seedstr)
    corpus = G.gen_corpus(rng, maxdocs=80)
    corpus["blocklimit"] = rng.choice([1, 1, 2, 2, 3])
    if rng.random() < 0.6:
        corpus["cuts"] = []
    wname = rng.choice(["freq", "freq", "tfidf", "bm25", "bm25b0"])
    exact = wname in EXACT_WEIGHTINGS
    out = []
    ix = G.build_index(corpus)

    def t(w=None, f=None):
        return ["term", f or rng.choice(["t", "t", "u"]), w or rng.choice(G.VOCAB)]
    with ix.searcher(weighting=G.build_weighting(wname)) as s:
        n = s.doc_count()
        for _ in range(6):
            words = _frequent_words(corpus, rng, 3)
            sk = rng.choice(["and2", "and2", "and2", "and3", "phrase", "and-or"])
            if sk == "and2":
                scored = ["and", [t(words[0], "t"), t(words[1], "t")]]
            elif sk == "and3":
                scored = ["and", [t(w, "t") for w in words]]
            elif sk == "phrase":
                scored = ["phrase", "t", [words[0], words[1]], rng.choice([1, 2, 3])]
            else:
                scored = ["and", [t(words[0], "t"), ["or", [t(words[1], "t"), t()]]]]
            other = rng.choice([t(words[2], "t"), t(words[2], "t"), t(None, "u"), ["or", [t(), t()]], ["every", None],
                                ["and", [t(words[2], "t"), t()]]])
            qd = [rng.choice(["require", "require", "require", "andmaybe", "andnot"]), scored, other]
            x = rng.random()
            if x < 0.15:
                qd = ["or", [qd, t()]]
            elif x < 0.25:
                qd = ["boost", qd, 0.5]
            res = _e2e_run_one(s, qd, [k for k in (1, 2, 3, 5) if k < n], exact)
            out.append({"corpus": corpus, "weighting": wname, "q": qd, "n": n, "res": res, "zero": False,
                        "extra": None})
    return out

def _coord_worker(seedstr):
    """Or(..., scale=s) (what qparser.OrGroup.factory(s) builds): CoordMatcher adds a per-document bonus for
    every further matching term and translates the collector's threshold into its child union's units in
    replace() and skip_to_quality(); documents matching several frequent terms over multi-block posting lists
    with k below the number of matches: the translated threshold must stay a bound."""
    import random
    rng = random.Random(seedstr)
    corpus = G.gen_corpus(rng, maxdocs=80)
    corpus["blocklimit"] = rng.choice([1, 1, 2, 2, 3, 4])
    if rng.random() < 0.5:
        corpus["cuts"] = []
    wname = rng.choice(["bm25", "bm25", "bm25b0", "bm25k", "tfidf", "freq"])
    exact = wname in EXACT_WEIGHTINGS
    out = []
    ix = G.build_index(corpus)

    def t(w=None, f=None):
        return ["term", f or rng.choice(["t", "t", "t", "u"]), w or rng.choice(G.VOCAB)]
    with ix.searcher(weighting=G.build_weighting(wname)) as s:
        n = s.doc_count()
        for _ in range(8):
            scale = rng.choice(G.COORD_SCALES + [0.9, 0.5])
            words = _frequent_words(corpus, rng, rng.choice([2, 2, 2, 3, 4]))
            shape = rng.choice(["plain", "plain", "plain", "plain", "mixed", "boosted-sub", "boost", "nested", "terms"])
            extra = None
            if shape == "plain":
                qd = ["or", [t(w, "t") for w in words], scale]
            elif shape == "mixed":
                qd = ["or", [t(words[0], "t"), t(words[1], "t"), t()], scale]
            elif shape == "boosted-sub":
                qd = ["or", [t(words[0], "t"), ["boost", t(words[1], "t"), rng.choice([0.5, 0.25])]], scale]
            elif shape == "boost":
                qd = ["boost", ["or", [t(w, "t") for w in words], scale], rng.choice([0.5, 0.25])]
            elif shape == "nested":
                qd = [rng.choice(["andmaybe", "or", "and"])] + (
                    [t(), ["or", [t(w, "t") for w in words[:2]], scale]] if rng.random() < 0.5 else
                    [[["or", [t(w, "t") for w in words[:2]], scale], t()]])
                if qd[0] == "andmaybe" and len(qd) == 2:
                    qd = ["andmaybe", qd[1][0], qd[1][1]]
                elif qd[0] != "andmaybe" and len(qd) == 3:
                    qd = [qd[0], [qd[1], qd[2]]]
            else:
                qd = ["or", [t(w, "t") for w in words], scale]
                extra = {"terms": True}
            res = _e2e_run_one(s, qd, [k for k in (1, 2, 3, 5, 10) if k < n], exact, extra=_build_extra(extra))
            out.append({"corpus": corpus, "weighting": wname, "q": qd, "n": n, "res": res, "zero": False,
                        "extra": extra})
    return out


def _stream_focused(ctx, name, worker, n, about):
    recs = [r for rs in ctx.pmap(worker, ["%s:%d:%d:%s" % (ctx.pid, ctx.seed, i, name) for i in range(n)],
                                 chunksize=2) for r in rs]
    todo = []
    for r in recs:
        exact = r["weighting"] in EXACT_WEIGHTINGS
        bad = None
        engaged = False
        for k, rt in sorted(r["res"]["tops"].items()):
            if rt[0] == "ok" and (rt[2] or rt[3] > 1):
                engaged = True
            kind = _fails(r["res"], k, exact)
            if kind and bad is None:
                bad = (k, kind)
        ctx.case((name, repr(r["q"]), r["weighting"], repr(r["corpus"])), nontrivial=engaged)
        ctx.stat("e2e:" + name)
        if engaged:
            ctx.stat("e2e:%s:optimisation-engaged" % name)
        if bad:
            todo.append((r["corpus"], r["weighting"], r["q"], int(bad[0]), bad[1], r["extra"]))
    todo = todo[:ctx.budget(12, 60)]
    if ctx.tier == "quick" and ctx.elapsed() > 30:
        # a broken tree fails in many streams: past 30 s only a few cases per stream are minimised (with a smaller
        # budget), past 60 s they are classified as they are
        todo = [tuple(a[:6]) + (0 if ctx.elapsed() > 60 else 80,) for a in todo[:4]]
    for m in ctx.pmap(_shrink_worker, todo):
        ctx.violation(signature_of(m), {"corpus": m["corpus"], "weighting": m["weighting"], "q": m["q"], "k": m["k"],
                                        "nodes": m["nodes"], "extra": m.get("extra")},
                      "first k of the exhaustive ranking", m["kind"],
                      "%s: limit=%d differs from limit=None[:%d]" % (about, m["k"], m["k"]))


def _stream_union_tree(ctx):
    _stream_focused(ctx, "utree", _union_tree_worker, ctx.budget(60, 600),
                    "Or of several terms as a tree of unions (terms=True)")


def _stream_binary_compound(ctx):
    _stream_focused(ctx, "bincomp", _binary_compound_worker, ctx.budget(60, 600),
                    "AndNot/AndMaybe/Require with a compound second operand")


def _stream_dismax_tiebreak(ctx):
    _stream_focused(ctx, "dismaxtb", _dismax_tiebreak_worker, ctx.budget(80, 800),
                    "DisjunctionMax with a non-zero tie-breaker")


def _stream_binary_intersection(ctx):
    _stream_focused(ctx, "binand", _binary_intersection_worker, ctx.budget(100, 1000),
                    "Require/AndMaybe/AndNot whose scored side is an intersection, multi-block posting lists")


def _stream_coord(ctx):
    _stream_focused(ctx, "coord", _coord_worker, ctx.budget(120, 600),
                    "Or with a coordination scale (CoordMatcher), frequent terms, multi-block posting lists")


def _stream_deleted_blocks(ctx):
    _stream_focused(ctx, "delblocks", _deleted_blocks_worker, ctx.budget(120, 1200),
                    "deleted documents among the best hits, tiny posting blocks")


def run(ctx):
    _stream_collectors(ctx)
    with ctx.scratch() as base:
        G.set_base_tmp(base)
        try:
            _stream_corpus(ctx)
            _stream_final(ctx)
            _stream_union_tree(ctx)
            _stream_deleted_blocks(ctx)
            _stream_binary_compound(ctx)
            _stream_dismax_tiebreak(ctx)
            _stream_binary_intersection(ctx)
            _stream_coord(ctx)
            _stream_e2e(ctx)
        finally:
            G.cleanup_private_tmp()


def replay(ctx, rec):
    """Re-execute one stored failing input against the current tree."""
    case = rec.get("case", {})
    if isinstance(case, dict) and "corpus" in case:
        kind = _still_fails(case["corpus"], case["weighting"], case["q"], case["k"], extra=case.get("extra"))
        print("expected: search(q, limit=%d%s) == search(q, limit=None%s)[:%d] and equal len();  observed failure kind: %s" % (
            case["k"], ", **extra" if case.get("extra") else "", ", **extra" if case.get("extra") else "", case["k"], kind))
        G.cleanup_private_tmp()
        return kind is not None
    if isinstance(case, str) and case.startswith("c05 top "):
        # a collector-stream case: the protocol line carries the whole input
        p = parse_sexp(case)
        cfg, ft, segs, sched = p[2], p[3], p[4], p[5]
        c = {"limit": int(cfg[0]), "replace": int(cfg[1]), "usequality": cfg[2] == "1",
             "final": ({int(d): float(G.parse_rat(sc)) for d, sc in ft} if cfg[3] == "1" else None),
             "segs": [(int(o), su == "1", [(int(d), float(G.parse_rat(sc)), nb == "1") for d, sc, nb in ps])
                      for o, su, ps in segs],
             "sched": G.parse_sched(sched)}
        impl = _run_top_impl(c)
        model = _parse_top(ctx.driver.ask1(case))
        hits = G.all_hits(c["segs"], c["final"])
        want = G.parse_hits(parse_sexp(ctx.driver.ask1("c05 spec %d %s" % (c["limit"], G.hits_sexp(hits))))[0])
        print("model   :", model)
        print("whoosh  :", impl)
        print("spec top:", want)
        return model != impl or (impl[0] == "ok" and impl[1] != want)
    print(rec)
    return False
