"""C05 — limiting a search to the top N never changes which hits win or their scores."""
import os
import sys
import tempfile
from fractions import Fraction

from vcheck import sexp, parse_sexp
from gen import collect as G

ID = "C05"
LEVEL = "proof"
LEAN_IMPORTS = ["WM.Props.C05"]
THEOREMS = ["WM.C05.topk", "WM.C05.positivity_guard_needed", "WM.C05.with_wrappers_partial",
            "WM.C05.collapse_order_counterexample"]
PARTIAL = {"WM.C05.with_wrappers_partial":
           "full statement WM.C05.with_wrappers_full also covers CollapseCollector: open for collapsing by result "
           "order (only checked differentially), refuted for collapse_order (WM.C05.collapse_order_counterexample, "
           "recorded finding)"}
RULE = ("collector stream: random abstract segments (0-12 postings each, 1-4 segments, tied quarter-integer "
        "scores, random block flags) x random drop schedule x limit/replace/usequality/final; non-trivial = the "
        "schedule really dropped a posting or the heap refused/evicted one. end-to-end stream: random corpus "
        "(W3Codec blocklimit 1/2/4/8, 1-4 segments, deletions) x random query tree; non-trivial = the limited "
        "search reported skipped_times+replaced_times > 0; distinct = distinct canonical case")
ASSUMPTIONS = ["matchers honour the C12 contract (a posting dropped by replace/skip_to_quality scores <= the "
               "threshold passed): proved for the matcher models by the matcher family, assumed here",
               "heapq implements a priority queue; list.sort is a stable sort"]
TRUSTED = ["the scheduled fake matcher of harness/gen/collect.py (drives the real collectors with the same "
           "schedule the Lean model consumes)"]
MANIFEST = {
    "level_text": "Lean theorem C05.topk: for every limit>=1, replace period, quality switch, final() hook, segment "
                  "layout, block-flag assignment and every schedule of matcher drops within the C12 contract, the "
                  "model of ScoredCollector.matches + TopCollector returns exactly the first k entries of the "
                  "exhaustive ranking (positivity guard 0<score, shown necessary). The model is tied to "
                  "whoosh.collectors by running the real collectors over a scheduled fake matcher against the "
                  "compiled model, and search(limit=k) is compared end to end with the Lean ranking of the "
                  "limit=None hits on real indexes with tiny posting blocks.",
    "level_note": "The matcher internals (replace/skip_to_quality of the real matcher classes) are abstracted by the "
                  "contract; violations of the contract by the real matchers are found by the end-to-end stream and "
                  "belong to C11/C12.",
    "technique": "machine-checked proof in Lean 4 over an executable model + differential correspondence check "
                 "against the implementation + end-to-end run against the Lean specification",
}


# ------------------------------------------------------------------------------------------------
# stream A: the real collectors over a scheduled fake matcher  vs  the Lean model / the Lean spec

def _gen_top_case(rng, positive):
    segs, sched = G.gen_world(rng, positive=positive)
    n = sum(len(ps) for _, _, ps in segs)
    limit = rng.choice([1, 1, 2, 2, 3, 5, 10, max(1, n - 1), n + 3])
    replace = rng.choice([0, 1, 1, 2, 3, 10, 10])
    usequality = rng.random() < 0.8
    final = None
    if rng.random() < 0.2:
        final = {}
        for g, _ in G.all_hits(segs):
            if rng.random() < 0.5:
                final[g] = rng.choice([0.25, 0.5, 1.0, 2.0, 3.0, 8.0, 16.0])
    return {"segs": segs, "sched": sched, "limit": limit, "replace": replace, "usequality": usequality,
            "final": final}


def _run_top_impl(case):
    """Real TopCollector over the fake world. Returns the observable tuple or ('err', name)."""
    from whoosh import collectors
    w = G.FakeWorld(case["segs"], case["sched"], case["final"])
    c = collectors.TopCollector(limit=case["limit"], usequality=case["usequality"], replace=case["replace"])
    try:
        r = w.run(c)
    except IndexError:
        return ("err", "IndexError")
    except KeyError:
        return ("err", "KeyError")
    hits = [(docnum, G.frac(score)) for score, docnum in r.top_n]
    try:
        n = len(r)
    except AttributeError:
        n = None      # no segment at all: TopCollector has no matcher to ask (unreachable through search())
    return ("ok", hits, c.total, c.replaced_times, c.skipped_times, [G.frac(t) for t in w.ctl.log],
            getattr(c, "may_have_dropped", None), n)


def _top_line(case):
    ft = case["final"]
    return "c05 top (%d %d %d %d) %s %s %s" % (
        case["limit"], case["replace"], 1 if case["usequality"] else 0, 1 if ft is not None else 0,
        G.hits_sexp(sorted(ft.items())) if ft else "()", G.segs_sexp(case["segs"]), G.sched_sexp(case["sched"]))


def _parse_top(reply):
    p = parse_sexp(reply)
    if p[0] == "err":
        return ("err", p[1])
    return ("ok", G.parse_hits(p[1]), int(p[2]), int(p[3]), int(p[4]), [G.parse_rat(t) for t in p[5]], p[6] == "1",
            int(p[7]))


def _stream_collectors(ctx):
    rng = ctx.rng("collectors")
    n = ctx.budget(1500, 40000)
    cases = []
    for i in range(n):
        cases.append(_gen_top_case(rng, positive=(i % 5 != 0)))
    # a few degenerate ones
    cases.append({"segs": [(0, True, [(0, 1.0, True)])], "sched": [], "limit": 0, "replace": 10,
                  "usequality": True, "final": None})
    cases.append({"segs": [], "sched": [], "limit": 3, "replace": 10, "usequality": True, "final": None})
    replies = ctx.driver.ask([_top_line(c) for c in cases])
    speclines = []
    for c in cases:
        hits = G.all_hits(c["segs"], c["final"])
        speclines.append("c05 spec %d %s" % (c["limit"], G.hits_sexp(hits)))
    specs = ctx.driver.ask(speclines)
    for case, reply, spec in zip(cases, replies, specs):
        model = _parse_top(reply)
        impl = _run_top_impl(case)
        positive = all(s > 0 for _, _, ps in case["segs"] for _, s, _ in ps)
        nhits = sum(len(ps) for _, _, ps in case["segs"])
        dropped = impl[0] == "ok" and impl[2] < nhits
        evicted = impl[0] == "ok" and impl[2] > len(impl[1])
        ctx.case(("top", _top_line(case)), nontrivial=dropped or evicted)
        ctx.stat("collector:top")
        if dropped:
            ctx.stat("collector:schedule-dropped")
        if evicted:
            ctx.stat("collector:heap-refused-or-evicted")
        if impl[0] == "ok" and impl[4]:
            ctx.stat("collector:skip-engaged")
        if case["final"] is not None:
            ctx.stat("collector:final-hook")
        if not positive:
            ctx.stat("collector:non-positive-scores")
        if not case["segs"] and model[0] == "ok" and impl[0] == "ok":
            model, impl = model[:7], impl[:7]
        if model != impl:
            ctx.divergence("collectors.ScoredCollector.matches+TopCollector", _top_line(case), model, impl)
            continue
        if impl[0] == "ok" and positive and nhits and len(impl) > 7 and impl[7] != nhits:
            ctx.violation("TopCollector(fake matcher within contract):len(results)!=matched", _top_line(case),
                          nhits, impl[7], "len(results) of a limited search is not the number of matching documents")
        if impl[0] == "ok" and positive and case["limit"] >= 1:
            want = G.parse_hits(parse_sexp(spec)[0])
            if impl[1] != want:
                ctx.violation("TopCollector(fake matcher within contract):top_n!=topK", _top_line(case),
                              want, impl[1], "TopCollector over a contract-abiding matcher differs from the ranking prefix")
    ctx.sample({"collector_case": _top_line(cases[3]), "model_reply": replies[3]})


# ------------------------------------------------------------------------------------------------
# stream B: end to end on real indexes:  search(limit=k)  vs  search(limit=None)  vs  the Lean ranking

EXACT_WEIGHTINGS = ("freq", "function", "revfreq", "finalhook")
SEARCH_TIMEOUT = 3.0
TOL = 1e-9


def _search(s, q, **kw):
    """-> ('ok', [(doc, score)], skipped, replaced, len) | ('exc', name)."""
    try:
        with G.time_limit(SEARCH_TIMEOUT):
            r = s.search(q, **kw)
            n = len(r)
        c = r.collector
        while hasattr(c, "child"):
            c = c.child
        return ("ok", [(d, sc) for sc, d in r.top_n], getattr(c, "skipped_times", 0),
                getattr(c, "replaced_times", 0), type(c).__name__, n)
    except Exception as e:  # noqa: every exception class is an observable
        return ("exc", type(e).__name__)


def _ks(n, rng=None):
    ks = [1, 2, 3, 10, n - 1]
    return sorted(set(k for k in ks if 1 <= k))


def _close(a, b):
    return abs(a - b) <= TOL * max(1.0, abs(a), abs(b))


def _py_rank(hits):
    return sorted(hits, key=lambda h: (-h[1], h[0]))


def _compare(top, allhits, k, exact):
    """None if `top` (the limited search) is an acceptable rendering of the first k of the ranking of
    `allhits`; otherwise a short kind string."""
    want = _py_rank(allhits)[:k]
    if exact:
        if top == want:
            return None
    else:
        if len(top) == len(want):
            full = dict(allhits)
            ok = True
            for (d, sc), (wd, wsc) in zip(top, want):
                if d not in full or not _close(sc, full[d]) or not _close(sc, wsc):
                    ok = False
                    break
            if ok and len(set(d for d, _ in top)) == len(top):
                return None
    if len(top) != len(want):
        return "count"
    full = dict(allhits)
    if any(d not in full for d, _ in top):
        return "foreign-doc"
    if any(not (_close(sc, full[d]) if not exact else sc == full[d]) for d, sc in top):
        return "score"
    if sorted(d for d, _ in top) != sorted(d for d, _ in want):
        return "docs"
    return "order"


def _e2e_run_one(s, qd, ks, exact, optimize=True, extra=None):
    from gen import collect as GG
    q = GG.build_query(qd)
    kw = dict(extra or {})
    ra = _search(s, q, limit=None, **kw)
    out = {"all": ra, "tops": {}}
    for k in ks:
        out["tops"][k] = _search(s, q, limit=k, optimize=optimize, **kw)
    return out


def _gen_extra(rng, ndocs):
    """Wrapping collectors: filter / mask (id set or query), collapse, terms recording."""
    kind = rng.choice(["filter-set", "filter-query", "mask-set", "mask-query", "collapse", "collapse", "terms",
                       "filter+collapse"])
    ids = sorted(rng.sample(range(ndocs), rng.randint(0, ndocs)))
    fq = ["term", "t", rng.choice(G.VOCAB)]
    if kind == "filter-set":
        return {"filter": ids}
    if kind == "filter-query":
        return {"filter": fq}
    if kind == "mask-set":
        return {"mask": ids}
    if kind == "mask-query":
        return {"mask": fq}
    if kind == "collapse":
        return {"collapse": "k", "collapse_limit": rng.choice([1, 1, 2])}
    if kind == "terms":
        return {"terms": True}
    return {"filter": ids, "collapse": "k", "collapse_limit": 1}


def _e2e_worker(arg):
    """One corpus, several queries. Returns JSON-able records."""
    import random
    seedstr, nq, zero = arg
    rng = random.Random(seedstr)
    corpus = G.gen_corpus(rng)
    wname = rng.choice(G.WEIGHTINGS)
    if zero:
        wname = rng.choice(["freq", "revfreq", "freq"])
    recs = []
    try:
        ix = G.build_index(corpus)
    except Exception as e:  # noqa
        return [{"infra": "build_index: %r" % (e,)}]
    with ix.searcher(weighting=G.build_weighting(wname)) as s:
        n = s.doc_count()
        for _ in range(nq):
            qd = G.gen_query(rng, depth=rng.choice([1, 2, 2, 3, 3, 4]), allow_zero_boost=zero)
            ks = _ks(n)
            extra = _gen_extra(rng, len(corpus["docs"])) if rng.random() < 0.3 else None
            res = _e2e_run_one(s, qd, ks, wname in EXACT_WEIGHTINGS, extra=_build_extra(extra))
            recs.append({"corpus": corpus, "weighting": wname, "q": qd, "n": n, "res": res, "zero": zero,
                         "extra": extra})
    return recs


def _fails(rec_res, k, exact):
    ra = rec_res["all"]
    rt = rec_res["tops"][k]
    if ra[0] != "ok":
        return "limit-none-raises-" + ra[1]
    if rt[0] != "ok":
        return "raises-" + rt[1]
    kind = _compare(rt[1], ra[1], k, exact)
    if kind is None and rt[5] != ra[5]:
        return "len"
    return kind


def _instrument():
    """Wrap replace/skip_to_quality of every matcher class; returns (engaged set, restore fn)."""
    from whoosh.matching import mcore
    import whoosh.matching.binary, whoosh.matching.wrappers, whoosh.matching.combo  # noqa
    import whoosh.codec.whoosh3, whoosh.query.spans  # noqa
    classes, stack = set(), [mcore.Matcher]
    while stack:
        c = stack.pop()
        for sub in c.__subclasses__():
            if sub not in classes:
                classes.add(sub)
                stack.append(sub)
    engaged, saved = set(), []
    called = set()
    engaged_called = called  # noqa

    def wrap(cls, name, orig):
        if name == "replace":
            def w(self, *a, **k):
                called.add("%s.replace" % type(self).__name__)
                r = orig(self, *a, **k)
                if type(r) is not type(self):
                    engaged.add("%s.replace->%s" % (type(self).__name__, type(r).__name__))
                return r
        else:
            def w(self, *a, **k):
                called.add("%s.skip_to_quality" % type(self).__name__)
                r = orig(self, *a, **k)
                if r:
                    engaged.add("%s.skip_to_quality" % type(self).__name__)
                return r
        return w
    for cls in sorted(classes, key=lambda c: c.__name__):
        for name in ("replace", "skip_to_quality"):
            if name in cls.__dict__:
                orig = cls.__dict__[name]
                setattr(cls, name, wrap(cls, name, orig))
                saved.append((cls, name, orig))

    def restore():
        for cls, name, orig in saved:
            setattr(cls, name, orig)
        if not engaged:
            engaged.update("called:" + c for c in called if not c.startswith("W3LeafMatcher"))
    return engaged, restore


def _exc_site(e):
    """Innermost whoosh frame of an exception: 'file.py:function'."""
    import traceback
    site = "?"
    for fr in traceback.extract_tb(e.__traceback__):
        if "/whoosh/" in fr.filename:
            site = "%s:%s" % (fr.filename.split("/whoosh/")[-1], fr.name)
    return "%s@%s" % (type(e).__name__, site)


def _still_fails(corpus, wname, qd, k, optimize=True, replace=None, usequality=None, detail=False, extra=None):
    """Re-run one (corpus, query, k); returns the failure kind or None (with detail=True: (kind, engaged))."""
    from whoosh import collectors
    ix = G.build_index(corpus)
    exact = wname in EXACT_WEIGHTINGS
    engaged, restore = (set(), None)
    kw = _build_extra(extra)
    with ix.searcher(weighting=G.build_weighting(wname)) as s:
        if k >= s.doc_count() or k < 1:
            return (None, set()) if detail else None
        q = G.build_query(qd)
        try:
            with G.time_limit(SEARCH_TIMEOUT):
                ra = s.search(q, limit=None, **kw)
                nall = len(ra)
            ra = ("ok", [(d, sc) for sc, d in ra.top_n])
        except Exception as e:  # noqa
            kind = "search(limit=None)-raises-" + _exc_site(e)
            return (kind, set()) if detail else kind
        if detail:
            engaged, restore = _instrument()
        try:
            try:
                with G.time_limit(SEARCH_TIMEOUT):
                    if replace is None and usequality is None:
                        r = s.search(q, limit=k, optimize=optimize, **kw)
                    else:
                        c = collectors.TopCollector(limit=k, usequality=True if usequality is None else usequality,
                                                    replace=10 if replace is None else replace)
                        s.search_with_collector(q, c)
                        r = c.results()
                    nk = len(r)
                rt = ("ok", [(d, sc) for sc, d in r.top_n])
            except Exception as e:  # noqa
                rt = ("exc", _exc_site(e))
        finally:
            if restore:
                restore()
        if rt[0] != "ok":
            kind = "raises-" + rt[1]
        else:
            kind = _compare(rt[1], ra[1], k, exact)
            if kind is None and nk != nall:
                kind = "len"
        return (kind, engaged) if detail else kind


def _build_extra(extra):
    """extra search() keyword arguments from their JSON-able description."""
    if not extra:
        return {}
    kw = {}
    for key, v in extra.items():
        if key in ("filter", "mask"):
            kw[key] = set(v) if isinstance(v, list) and (not v or isinstance(v[0], int)) else G.build_query(v)
        else:
            kw[key] = v
    return kw


def _shrink_worker(arg):
    """Minimise a failing (corpus, weighting, query, k) and classify it. Returns a dict."""
    corpus, wname, qd, k, kind0, extra = arg
    budget = [300]

    def fails_w(c, w, q, kk):
        if budget[0] <= -40:
            return None
        budget[0] -= 1
        try:
            return _still_fails(c, w, q, kk, extra=extra_cur[0])
        except Exception:  # noqa
            return None

    def fails(c, q, kk):
        if budget[0] <= 0:
            return None
        return fails_w(c, wname, q, kk)
    extra_cur = [extra]
    # is the wrapping collector part of the cause?
    if extra:
        saved = extra_cur[0]
        extra_cur[0] = None
        if not fails(corpus, qd, k):
            extra_cur[0] = saved
            for key in sorted(saved):
                if len(saved) > 1:
                    trial = {k2: v for k2, v in saved.items() if k2 != key and not (key == "collapse" and k2 == "collapse_limit")}
                    extra_cur[0] = trial
                    if trial and fails(corpus, qd, k):
                        saved = trial
                    extra_cur[0] = saved
    cur = (corpus, qd, k)
    changed = True
    while changed and budget[0] > 0:
        changed = False
        c, q, kk = cur
        # smaller query
        for q2 in G.subqueries(q):
            if fails(c, q2, kk):
                cur = (c, q2, kk)
                changed = True
                break
        if changed:
            continue
        # single segment, no deletions, no boosts
        for c2 in _corpus_simplifications(c):
            kk2 = min(kk, max(1, len(c2["docs"]) - len(c2["dels"]) - 1))
            if fails(c2, q, kk2):
                cur = (c2, q, kk2)
                changed = True
                break
        if changed:
            continue
        for kk2 in (1, 2):
            if kk2 < kk and fails(c, q, kk2):
                cur = (c, q, kk2)
                changed = True
                break
    c, q, kk = cur
    # is the weighting model part of the cause?
    wtag = wname
    for w2 in ("freq", "bm25"):
        if w2 != wname and fails_w(c, w2, q, kk):
            wname, wtag = w2, "any"
            break
    if wname in ("freq", "bm25") and wtag != "any":
        other = "bm25" if wname == "freq" else "freq"
        if fails_w(c, other, q, kk):
            wtag = "any"
    ex = extra_cur[0]
    try:
        kind, engaged = _still_fails(c, wname, q, kk, detail=True, extra=ex)
    except Exception as e:  # noqa
        kind, engaged = "harness-" + type(e).__name__, set()
    kind = kind or kind0
    # which optimisation is needed for the failure
    if ex:
        only_replace = only_skip = neither = None
    else:
        only_replace = _still_fails(c, wname, q, kk, usequality=False)
        only_skip = _still_fails(c, wname, q, kk, replace=0)
        neither = _still_fails(c, wname, q, kk, replace=0, usequality=False)
    if ex:
        opt = "wrapped"
    elif neither:
        opt = "none"
    elif only_replace and only_skip:
        opt = "replace-or-skip"
    elif only_replace:
        opt = "replace"
    elif only_skip:
        opt = "skip_to_quality"
    else:
        opt = "replace+skip_to_quality"
    return {"corpus": c, "weighting": wname, "wtag": wtag, "q": q, "k": kk, "kind": kind, "opt": opt,
            "nodes": sorted(G.query_kinds(q)), "engaged": sorted(engaged), "extra": ex}


def _corpus_simplifications(c):
    out = []
    n = len(c["docs"])
    if c["cuts"]:
        out.append(dict(c, cuts=[]))
        out.append(dict(c, cuts=c["cuts"][:-1]))
    if c["dels"]:
        out.append(dict(c, dels=[]))
    if any("boost" in d for d in c["docs"]):
        out.append(dict(c, docs=[{k2: v for k2, v in d.items() if k2 != "boost"} for d in c["docs"]]))
    if c.get("tboost", 1.0) != 1.0 or c.get("uboost", 1.0) != 1.0:
        out.append(dict(c, tboost=1.0, uboost=1.0))
    # drop the tail / head halves, then single documents
    if n > 2:
        for a, b in ((0, n // 2), (n // 2, n), (0, n - 1), (1, n)):
            docs = c["docs"][a:b]
            cuts = [x - a for x in c["cuts"] if a < x < b]
            dels = [x - a for x in c["dels"] if a <= x < b]
            out.append(dict(c, docs=docs, cuts=cuts, dels=dels))
    if n <= 14:
        for i in range(n):
            docs = c["docs"][:i] + c["docs"][i + 1:]
            cuts = sorted(set((x - 1 if x > i else x) for x in c["cuts"] if 0 < (x - 1 if x > i else x) < len(docs)))
            dels = [(x - 1 if x > i else x) for x in c["dels"] if x != i]
            out.append(dict(c, docs=docs, cuts=cuts, dels=dels))
    # shorten documents
    for i, d in enumerate(c["docs"]):
        if len(d["t"]) > 1 and n <= 10:
            nd = dict(d, t=d["t"][:-1])
            out.append(dict(c, docs=c["docs"][:i] + [nd] + c["docs"][i + 1:]))
    if c["blocklimit"] > 1:
        out.append(dict(c, blocklimit=1))
    return out


STD_WEIGHTINGS = ("freq", "bm25", "bm25b0", "bm25k", "tfidf", "any")


def _sites(engaged):
    """Coarsen the instrumentation record to the set of composite-matcher optimisation sites that
    fired (or, if none fired, were called) on the minimised case."""
    out = set()
    for e in engaged:
        called = e.startswith("called:")
        if called:
            e = e[len("called:"):]
        e = e.split("->")[0]
        if e.startswith("W3LeafMatcher") or e.startswith("ListMatcher"):
            continue
        out.add(("called:" if called else "") + e)
    return sorted(out)


def signature_of(m):
    kind = m["kind"]
    w = "std" if m["wtag"] in STD_WEIGHTINGS else m["wtag"]
    if kind.startswith("raises-Hang"):
        # where the watchdog interrupts an endless loop is a matter of timing: name the loop by the query
        wrap = ("," + "+".join(sorted(k2 for k2 in m["extra"] if k2 != "collapse_limit"))) if m.get("extra") else ""
        return "search(limit=k%s)|raises-Hang(no answer within %.0fs)|w=%s|nodes=%s" % (
            wrap, SEARCH_TIMEOUT, w, "+".join(m["nodes"]))
    if m.get("extra"):
        wrap = "+".join(sorted(k2 for k2 in m["extra"] if k2 != "collapse_limit"))
        return "search(limit=k,%s)!=search(limit=None,%s)[:k]|%s|w=%s|sites=%s" % (
            wrap, wrap, kind, w, "+".join(_sites(m["engaged"])) or "leaf-only")
    if kind.startswith("search(limit=None)-raises-"):
        return "%s|w=%s" % (kind, w)
    if kind.startswith("raises-"):
        return "search(limit=k)|%s|needs=%s|w=%s" % (kind, m["opt"], w)
    if kind == "len":
        return "len(search(limit=k))!=len(search(limit=None))|needs=%s|w=%s|nodes=%s" % (
            m["opt"], w, "+".join(m["nodes"]))
    if w != "std":
        # a weighting model whose quality bounds are not bounds (C12): the matcher sites are incidental
        return "search(limit=k)!=ranking[:k]|%s|needs=%s|w=%s" % (kind, m["opt"], w)
    return "search(limit=k)!=ranking[:k]|%s|needs=%s|w=std|sites=%s" % (
        kind, m["opt"], "+".join(_sites(m["engaged"])) or "leaf-only")


def _stream_e2e(ctx):
    rng = ctx.rng("e2e")
    ncorp = ctx.budget(160, 3000)
    nq = 6
    args = [("%s:%d:%d" % (ctx.pid, ctx.seed, i) + ":e2e", nq, i % 8 == 7) for i in range(ncorp)]
    results = ctx.pmap(_e2e_worker, args, chunksize=4)
    recs = [r for rs in results for r in rs]
    infra = [r for r in recs if "infra" in r]
    if infra:
        raise RuntimeError("index construction failed: %s" % infra[0]["infra"])
    # the Lean specification as oracle on the exact stream
    lines, owners = [], []
    for ri, r in enumerate(recs):
        ra = r["res"]["all"]
        if ra[0] != "ok" or r["weighting"] not in EXACT_WEIGHTINGS:
            continue
        for k in r["res"]["tops"]:
            lines.append("c05 spec %d %s" % (int(k), G.hits_sexp(sorted(ra[1]))))
            owners.append((ri, k))
        lines.append("c05 spec none %s" % G.hits_sexp(sorted(ra[1])))
        owners.append((ri, None))
    replies = ctx.driver.ask(lines)
    spec = {}
    for (ri, k), rep in zip(owners, replies):
        spec[(ri, k)] = G.parse_hits(parse_sexp(rep)[0])
    failing = []
    for ri, r in enumerate(recs):
        exact = r["weighting"] in EXACT_WEIGHTINGS
        ra = r["res"]["all"]
        engaged = False
        for k, rt in sorted(r["res"]["tops"].items()):
            if rt[0] == "ok" and rt[4] == "TopCollector":
                ctx.stat("e2e:TopCollector")
                if rt[2] or rt[3] > 1:
                    engaged = True
                if rt[2]:
                    ctx.stat("e2e:skipped_times>0")
                if rt[3] > 1:
                    ctx.stat("e2e:replaced_times>1")
            kind = _fails(r["res"], k, exact)
            if kind is None and exact and ra[0] == "ok" and rt[0] == "ok":
                want = spec[(ri, k)]
                got = [(d, G.frac(sc)) for d, sc in rt[1]]
                if got != want:
                    kind = "lean-spec"
            if kind is not None:
                failing.append((ri, k, kind))
        # limit=None must itself be the ranking of its hits (order + no duplicates)
        if ra[0] == "ok" and exact:
            got = [(d, G.frac(sc)) for d, sc in ra[1]]
            if got != spec[(ri, None)]:
                ctx.violation("search(limit=None):not-ranked-by-score-desc-doc-asc", {"corpus": r["corpus"], "q": r["q"],
                              "weighting": r["weighting"]}, spec[(ri, None)][:10], got[:10],
                              "the exhaustive result list is not in ranking order")
        ctx.case(("e2e", repr(r["q"]), r["weighting"], repr(r["corpus"]), repr(r.get("extra"))), nontrivial=engaged)
        if r.get("extra"):
            ctx.stat("e2e:wrapped:" + "+".join(sorted(k2 for k2 in r["extra"] if k2 != "collapse_limit")))
        ctx.stat("e2e:weighting:" + r["weighting"])
        for kd in G.query_kinds(r["q"]):
            ctx.stat("e2e:node:" + kd)
        ctx.stat("e2e:blocklimit:%d" % r["corpus"]["blocklimit"])
        ctx.stat("e2e:segments:%d" % (len(r["corpus"]["cuts"]) + 1))
        if r["zero"]:
            ctx.stat("e2e:zero-boost-region")
    # the check is blind if the optimisations do not engage (DESIGN 5.3): broken infrastructure, not a pass
    ntop = ctx.stats.get("e2e:TopCollector", 0)
    # (floor for block skipping re-measured after the matcher repairs: the sound skip rule, which uses the
    # sibling's max_quality instead of its block quality, engages in about 2-3 % of limited searches)
    if ntop and (ctx.stats.get("e2e:skipped_times>0", 0) < 0.008 * ntop or
                 ctx.stats.get("e2e:replaced_times>1", 0) < 0.2 * ntop):
        raise RuntimeError("the end-to-end generator no longer engages the optimisations: %d limited searches, "
                           "%d with skipped_times>0, %d with replaced_times>1" % (
                               ntop, ctx.stats.get("e2e:skipped_times>0", 0), ctx.stats.get("e2e:replaced_times>1", 0)))
    ctx.stat("e2e:failing(query,k)", len(failing))
    ctx.stat("e2e:queries", len(recs))
    ctx.stat("e2e:failing-queries", len(set(ri for ri, _, _ in failing)))
    # minimise + classify one k per failing query
    todo = {}
    for ri, k, kind in failing:
        todo.setdefault(ri, (k, kind))
    cap = ctx.budget(60, 300)
    # spend the minimisation budget across the raw failure kinds, not on the most frequent one only
    bykind = {}
    for ri, (k, kind) in sorted(todo.items()):
        bykind.setdefault(kind, []).append((ri, (k, kind)))
    items = []
    while len(items) < cap and any(bykind.values()):
        for kind in sorted(bykind):
            if bykind[kind] and len(items) < cap:
                items.append(bykind[kind].pop(0))
    args = [(recs[ri]["corpus"], recs[ri]["weighting"], recs[ri]["q"], int(k), kind, recs[ri].get("extra"))
            for ri, (k, kind) in items]
    mins = ctx.pmap(_shrink_worker, args)
    for m in mins:
        sig = signature_of(m)
        ctx.violation(sig, {"corpus": m["corpus"], "weighting": m["weighting"], "q": m["q"], "k": m["k"],
                            "nodes": m["nodes"], "extra": m.get("extra")},
                      "first k of the exhaustive ranking", m["kind"],
                      "search(q, limit=%d) differs from search(q, limit=None)[:%d]" % (m["k"], m["k"]))
    if recs:
        r = recs[0]
        ctx.sample({"e2e_query": r["q"], "weighting": r["weighting"], "docs": len(r["corpus"]["docs"]),
                    "blocklimit": r["corpus"]["blocklimit"]})


def _corpus_worker(rec):
    try:
        kind = _still_fails(rec["corpus"], rec["weighting"], rec["q"], rec["k"], extra=rec.get("extra"))
    except Exception as e:  # noqa
        return "harness-" + type(e).__name__
    if (rec.get("extra") or {}).get("collapse") and kind in ("len", "raises-AttributeError@collectors.py:all_ids"):
        return None     # len(results) of a limited collapsed search is a separate, recorded finding
    return kind


def _stream_corpus(ctx):
    """corpus/C05/*.json: minimised inputs of defects that were repaired; they must stay repaired."""
    import glob
    import json
    here = os.path.dirname(os.path.dirname(os.path.dirname(os.path.abspath(__file__))))
    files = sorted(glob.glob(os.path.join(here, "corpus", "C05", "*.json")))
    recs = [json.load(open(f)) for f in files]
    for f, rec, kind in zip(files, recs, ctx.pmap(_corpus_worker, recs)):
        ctx.case(("corpus", os.path.basename(f)), nontrivial=True)
        ctx.stat("corpus")
        if kind:
            ctx.violation("corpus:" + rec["name"], rec, "first k of the exhaustive ranking", kind, rec.get("about", ""))


def _final_worker(seedstr):
    """A weighting with a final() hook (scores are rescaled per document): limit=k vs limit=None."""
    import random
    rng = random.Random(seedstr)
    corpus = G.gen_corpus(rng, maxdocs=30)
    out = []
    ix = G.build_index(corpus)
    with ix.searcher(weighting=G.build_weighting("finalhook")) as s:
        n = s.doc_count()
        for _ in range(4):
            qd = rng.choice([["or", [["term", "t", rng.choice(G.VOCAB)], ["term", "t", rng.choice(G.VOCAB)]]],
                             ["or", [["term", "t", rng.choice(G.VOCAB)], ["term", "u", rng.choice(G.VOCAB)],
                                     ["term", "t", rng.choice(G.VOCAB)]]],
                             ["dismax", [["term", "t", rng.choice(G.VOCAB)], ["term", "t", rng.choice(G.VOCAB)]]],
                             ["term", "t", rng.choice(G.VOCAB)]])
            res = _e2e_run_one(s, qd, [k for k in (1, 2, 3) if k < n], True)
            out.append({"corpus": corpus, "q": qd, "res": res})
    return out


def _stream_final(ctx):
    n = ctx.budget(24, 400)
    recs = [r for rs in ctx.pmap(_final_worker, ["%s:%d:%d:final" % (ctx.pid, ctx.seed, i) for i in range(n)]) for r in rs]
    for r in recs:
        bad = None
        for k in sorted(r["res"]["tops"]):
            kind = _fails(r["res"], k, True)
            if kind:
                bad = (k, kind)
                break
        ctx.case(("final", repr(r["q"]), repr(r["corpus"])), nontrivial=True)
        ctx.stat("e2e:final-hook")
        if bad:
            ctx.violation("search(limit=k)!=ranking[:k]|weighting-with-final()-hook|%s" % bad[1].split("@")[0],
                          {"corpus": r["corpus"], "weighting": "finalhook", "q": r["q"], "k": int(bad[0])},
                          "first k of the exhaustive ranking", bad[1],
                          "a weighting with use_final: the limited search differs from the exhaustive ranking")


def run(ctx):
    _stream_collectors(ctx)
    with ctx.scratch() as base:
        G.set_base_tmp(base)
        try:
            _stream_corpus(ctx)
            _stream_final(ctx)
            _stream_e2e(ctx)
        finally:
            G.cleanup_private_tmp()


def replay(ctx, rec):
    """Re-execute one stored failing input against the current tree."""
    case = rec.get("case", {})
    if isinstance(case, dict) and "corpus" in case:
        kind = _still_fails(case["corpus"], case["weighting"], case["q"], case["k"], extra=case.get("extra"))
        print("expected: search(q, limit=%d%s) == search(q, limit=None%s)[:%d] and equal len();  observed failure kind: %s" % (
            case["k"], ", **extra" if case.get("extra") else "", ", **extra" if case.get("extra") else "", case["k"], kind))
        G.cleanup_private_tmp()
        return kind is not None
    if isinstance(case, str) and case.startswith("c05 top "):
        # a collector-stream case: the protocol line carries the whole input
        p = parse_sexp(case)
        cfg, ft, segs, sched = p[2], p[3], p[4], p[5]
        c = {"limit": int(cfg[0]), "replace": int(cfg[1]), "usequality": cfg[2] == "1",
             "final": ({int(d): float(G.parse_rat(sc)) for d, sc in ft} if cfg[3] == "1" else None),
             "segs": [(int(o), su == "1", [(int(d), float(G.parse_rat(sc)), nb == "1") for d, sc, nb in ps])
                      for o, su, ps in segs],
             "sched": [([b == "1" for b in m], su == "1", int(k)) for m, su, k in sched]}
        impl = _run_top_impl(c)
        model = _parse_top(ctx.driver.ask1(case))
        hits = G.all_hits(c["segs"], c["final"])
        want = G.parse_hits(parse_sexp(ctx.driver.ask1("c05 spec %d %s" % (c["limit"], G.hits_sexp(hits))))[0])
        print("model   :", model)
        print("whoosh  :", impl)
        print("spec top:", want)
        return model != impl or (impl[0] == "ok" and impl[1] != want)
    print(rec)
    return False
