"""C14 — sorting, grouping, collapsing, filtering, paging are exact views of the results."""
import random
from fractions import Fraction

from vcheck import sexp, parse_sexp
from gen import collect as G

ID = "C14"
LEVEL = "proof"
LEAN_IMPORTS = ["WM.Props.C14Page", "WM.Props.C14", "WM.Props.C14Results", "WM.Props.C14Compose",
                "WM.Props.C14FilterObj"]
THEOREMS = ["WM.C14.page_fields", "WM.C14.page_tiling", "WM.C14.sorted", "WM.C14.kdLe_iff", "WM.C14.filter_mask",
            "WM.C14.filter_commutes_ranking", "WM.C14.filter_commutes_sorting", "WM.C14.facets_partition",
            "WM.C14.facets_count", "WM.C14.collapse", "WM.C14.rank_iso", "WM.C14.rank_missing",
            "WM.C14.len_sorted", "WM.C14.len_top", "WM.C14.extend_spec", "WM.C14.filter_spec", "WM.C14.upgrade_spec",
            "WM.C14.sorted_reverse_ties", "WM.C14.facets_ordered", "WM.C14.facets_best", "WM.C14.page_slice",
            "WM.C14.upgrade_and_extend_spec", "WM.C14.search_filter_mask_sorted", "WM.C14.search_filter_mask_scored",
            "WM.C14.search_collapse_sorted", "WM.C14.page_of_view", "WM.C14.results_docs_top",
            "WM.C14.results_docs_unlimited", "WM.C14.filter_object_forms", "WM.C14.search_filter_given_as_results",
            "WM.C14.results_object_of_limited_search"]
PARTIAL = {
    "WM.C14.len_top":
        "only the branch may_have_dropped = false has content (TopCollector.total counted every match); in the "
        "other branch count() falls back to docs_for_query(), which the model takes as given (nAll); len() of a "
        "limited *collapsed* search (recount through the wrappers, fix 17d200b) is checked differentially only",
    "WM.C14.rank_missing":
        "needs terms.length <= doc_count + 1: a multi-valued field with more distinct terms than documents is "
        "excluded (there the marker doc_count+1 collides with a term rank)",
    "WM.C14.sorted":
        "search(reverse=True) reverses the whole list, ties included (WM.C14.sorted_reverse_ties): the property's "
        "'document order on ties' holds for per-key reversal (FieldFacet(reverse=True)) only; recorded finding "
        "sortedby+reverse=True:ties-in-descending-document-order",
    "WM.C14.filter_commutes_ranking":
        "a fact about the specification order; composed with filter_mask, sorted and C05.with_wrappers_partial / "
        "C05.unlimited into WM.C14.search_filter_mask_sorted and WM.C14.search_filter_mask_scored; a filter / mask "
        "given as a query, an id set, a Results object or a ResultsPage is turned into the id set by the modelled "
        "Searcher._filter_to_comb / Results.docs (WM.C14.filter_object_forms, composed into "
        "WM.C14.search_filter_given_as_results). What docs_for_query yields for the filter query is an input of the "
        "model (C01's business); Results objects of sorted / faceted / collapsed searches used as filters are "
        "checked end to end only",
    "WM.C14.collapse":
        "composed with the filter and the SortingCollector into WM.C14.search_collapse_sorted (sorted searches, any "
        "limit, len(), collapsed_counts) and with ResultsPage into WM.C14.page_of_view; the *scored* stack "
        "FilterCollector(CollapseCollector(TopCollector)) with a limit is modelled (collectStack) and tied to the "
        "code differentially, but has no theorem (C05.with_wrappers_full is open without collapse_order and "
        "refuted with it)",
    "WM.C14.search_collapse_sorted":
        "under search(reverse=True) without collapse_order the collapser still keeps the documents with the "
        "*smallest* sort keys (SortingCollector.sort_key ignores reverse), which the reversed list shows last: "
        "'the best N per key' is in ascending key order, not in result order (Lean example next to the theorem)",
}
RULE = ("view-stack stream: Searcher.collector / Searcher.search_page (the real methods, over abstract segments with "
        "key tables) building FilterCollector(CollapseCollector(SortingCollector)) vs the Lean searchSorted / "
        "searchPageSorted; non-trivial = a document was filtered, collapsed or cut by the limit / page. "
        "filter-objects stream: the real Searcher._filter_to_comb and Searcher.collector(limit=, filter=, mask=) with "
        "filter/mask given as None, id set, query, Results of a limited (limit 1/2/3/10, before and after docs()) or "
        "unlimited scored search, ResultsPage, or an unusable object vs the Lean filterToComb / searchFilterObjs; "
        "non-trivial = a Results object whose limit is below the number of documents its query matched. "
        "collector stream: the real Sorting/Unlimited/Top/Filter/Facet/Collapse collectors over abstract segments "
        "with key tables (ties, missing keys, 0 keys) vs the Lean model; non-trivial = at least two documents tie on "
        "the key, or a document is filtered/collapsed. page stream: exhaustive total<=40 x pagelen<=12 x pagenum<=8. "
        "end-to-end stream: real multi-segment indexes with missing values and segments lacking the column; "
        "non-trivial = the view changed the plain result (reordered, removed or grouped something)")
ASSUMPTIONS = ["sort keys are modelled as tuples of numbers; keys of mixed Python types (None vs str) are not modelled",
               "list.sort is a stable sort; bisect.insort inserts after equal elements",
               "ColumnCategorizer, ReversedColumnCategorizer and multi-key direction mixing are modelled at the key "
               "level only (the key a categorizer returns); how columns produce keys belongs to C08/C13",
               "a collapse key None / '' / b'' means 'no key'; every other value, 0 included, is a key",
               "a boolean per-document column (columns.BitColumn) has no representation of a missing value: a document "
               "without a value, and every document of a segment without the column file, counts as False"]
TRUSTED = ["the table-driven facets of harness/props/c14.py (public FacetType/Categorizer extension API)"]
MANIFEST = {
    "level_text": "Lean theorems for the key-level model of whoosh.collectors / ResultsPage / PostingCategorizer; the "
                  "model is tied to the code by running the real collectors over abstract segments and key tables, "
                  "and the public search API is compared end to end with the Lean views on real indexes.",
    "level_note": "Categorizers are modelled at the key level; column readers and field types belong to C08/C13.",
    "technique": "machine-checked proof in Lean 4 over an executable model + differential correspondence check "
                 "against the implementation + end-to-end run against the Lean specification",
}


# ------------------------------------------------------------------------------------------------
# table driven facets (public extension API of whoosh.sorting)

def _facet_classes():
    from whoosh import sorting

    class TableCategorizer(sorting.Categorizer):
        def __init__(self, table, overlap, default):
            self.table = table
            self.allow_overlap = overlap
            self.default = default
            self.offset = 0

        def set_searcher(self, segment_searcher, docoffset):
            self.offset = docoffset

        def key_for(self, matcher, segment_docnum):
            v = self.table.get(self.offset + segment_docnum, self.default)
            if self.allow_overlap:
                return v[0] if v else None
            return v

        def keys_for(self, matcher, segment_docnum):
            return list(self.table.get(self.offset + segment_docnum, self.default))

    class TableFacet(sorting.FacetType):
        def __init__(self, table, overlap=False, default=None, maptype=None):
            self.table = table
            self.overlap = overlap
            self.default = default
            self.maptype = maptype

        def categorizer(self, global_searcher):
            return TableCategorizer(self.table, self.overlap, self.default)

    return TableFacet


def _key_sexp(k):
    if not isinstance(k, tuple):
        k = (k,)
    return "(" + " ".join(G.rat(x) for x in k) + ")"


def _docs_of(segs):
    return [off + d for off, _, ps in segs for d, _, _ in ps]


def _gen_keys(rng, docs, multi):
    keys = {}
    for d in docs:
        if multi:
            keys[d] = (rng.randint(0, 2), rng.choice([-1, 0, 1, 5]))
        else:
            keys[d] = rng.randint(0, 3)
    return keys


# ------------------------------------------------------------------------------------------------
# stream A: real collectors over abstract segments with key tables

def _stream_collectors(ctx):
    from whoosh import collectors, sorting
    TableFacet = _facet_classes()
    rng = ctx.rng("collectors")
    n = ctx.budget(5000, 30000)
    lines, checks = [], []

    def ask(line, fn):
        lines.append(line)
        checks.append(fn)

    for i in range(n):
        segs, sched = G.gen_world(rng, maxpost=9)
        docs = _docs_of(segs)
        kind = rng.choice(["sort", "sort", "filter", "facet", "facet", "collapse", "collapse", "collapse-sort",
                           "stack", "stack"])
        ctx.stat("collector:" + kind)
        if kind == "sort":
            multi = rng.random() < 0.4
            keys = _gen_keys(rng, docs, multi)
            limit = rng.choice([None, 0, 1, 2, 3, 50])
            reverse = rng.random() < 0.4
            w = G.FakeWorld(segs, [])
            c = collectors.SortingCollector(TableFacet(keys), limit=limit, reverse=reverse)
            r = w.run(c)
            impl = [(d, k if isinstance(k, tuple) else (k,)) for k, d in r.top_n]
            impl_len = len(r)
            line = "c14 sort %s %d (%s)" % ("none" if limit is None else limit, 1 if reverse else 0,
                                            " ".join("(%d %s)" % (d, _key_sexp(keys[d])) for d in docs))
            ties = len(set(keys.values())) < len(keys)

            def chk(reply, impl=impl, impl_len=impl_len, line=line, ties=ties, ndocs=len(docs)):
                model = [(int(d), tuple(G.parse_rat(x) for x in k)) for d, k in parse_sexp(reply)[0]]
                ctx.case(("sort", line), nontrivial=ties)
                if model != [(d, tuple(Fraction(x) for x in k)) for d, k in impl]:
                    ctx.divergence("collectors.SortingCollector", line, model, impl)
                if impl_len != ndocs:
                    ctx.violation("SortingCollector:len(results)!=matched", line, ndocs, impl_len)
            ask(line, chk)
        elif kind == "filter":
            allow = None if rng.random() < 0.3 else sorted(rng.sample(docs + [999], rng.randint(0, len(docs))))
            restrict = None if rng.random() < 0.4 else sorted(rng.sample(docs + [998], rng.randint(0, len(docs))))
            w = G.FakeWorld(segs, [])
            base = collectors.UnlimitedCollector()
            c = collectors.FilterCollector(base, None if allow is None else set(allow),
                                           None if restrict is None else set(restrict))
            r = w.run(c)
            impl = (sorted(d for _, d in r.top_n), r.filtered_count, len(r))
            line = "c14 filter %s %s (%s)" % ("none" if allow is None else sexp(allow),
                                              "none" if restrict is None else sexp(restrict),
                                              " ".join(map(str, docs)))

            def chk(reply, impl=impl, line=line):
                p = parse_sexp(reply)
                model = ([int(x) for x in p[0]], int(p[1]))
                ctx.case(("filter", line), nontrivial=model[1] > 0)
                if model != (impl[0], impl[1]):
                    ctx.divergence("collectors.FilterCollector", line, model, impl)
                if impl[2] != len(model[0]):
                    ctx.violation("FilterCollector:len(results)!=kept", line, len(model[0]), impl[2])
            ask(line, chk)
        elif kind == "facet":
            overlap = rng.random() < 0.4
            mt = rng.choice(["ordered", "unordered", "count", "best"])
            maptype = {"ordered": sorting.OrderedList, "unordered": sorting.UnorderedList,
                       "count": sorting.Count, "best": sorting.Best}[mt]
            if overlap:
                names = {d: tuple(sorted(rng.sample([1, 2, 3, 4], rng.randint(1, 3)))) for d in docs}
            else:
                names = {d: rng.randint(1, 4) for d in docs}
            keys = _gen_keys(rng, docs, False)
            w = G.FakeWorld(segs, [])
            base = collectors.SortingCollector(TableFacet(keys), limit=None)
            c = collectors.FacetCollector(base, TableFacet(names, overlap=overlap, default=()), maptype=maptype)
            r = w.run(c)
            groups = r.groups()
            impl = sorted((int(k), v if not isinstance(v, list) else list(v)) for k, v in groups.items())
            line = "c14 facet %s (%s)" % (mt, " ".join(
                "(%d (%s) %s)" % (d, " ".join(map(str, names[d] if overlap else (names[d],))), _key_sexp(keys[d]))
                for d in docs))

            def chk(reply, impl=impl, line=line, mt=mt, overlap=overlap):
                p = parse_sexp(reply)[0]
                if mt in ("ordered", "unordered"):
                    model = sorted((int(k), [int(x) for x in v]) for k, v in p)
                else:
                    model = sorted((int(k), int(v)) for k, v in p)
                ctx.case(("facet", line), nontrivial=overlap or len(model) > 1)
                if model != impl:
                    ctx.divergence("collectors.FacetCollector+sorting.%s" % mt, line, model, impl)
            ask(line, chk)
        elif kind in ("collapse", "collapse-sort"):
            climit = rng.choice([1, 1, 2, 3])
            ckeys = {d: rng.choice([None, 0, 1, 2, 3, 3]) for d in docs}
            order = _gen_keys(rng, docs, False) if rng.random() < 0.4 else None
            w = G.FakeWorld(segs, [])
            if kind == "collapse":
                base = collectors.UnlimitedCollector()
                scores = dict(G.all_hits(segs))
                skey = {d: (order[d] if order is not None else 0 - scores[d]) for d in docs}
            else:
                skeys = _gen_keys(rng, docs, False)
                base = collectors.SortingCollector(TableFacet(skeys), limit=None)
                skey = {d: (order[d] if order is not None else skeys[d]) for d in docs}
            c = collectors.CollapseCollector(base, TableFacet(ckeys), limit=climit,
                                             order=TableFacet(order) if order is not None else None)
            r = w.run(c)
            impl = (sorted(d for _, d in r.top_n), sorted((int(k), v) for k, v in r.collapsed_counts.items() if v),
                    len(r), sorted(r.docs()))
            line = "c14 collapse %d (%s)" % (climit, " ".join(
                "(%d %s %s)" % (d, "none" if ckeys[d] is None else ckeys[d], _key_sexp(skey[d])) for d in docs))

            def chk(reply, impl=impl, line=line):
                p = parse_sexp(reply)
                model = (sorted(int(x) for x in p[1]), sorted((int(k), int(v)) for k, v in p[2]))
                ctx.case(("collapse", line), nontrivial=bool(model[1]))
                if model != (impl[0], impl[1]):
                    ctx.divergence("collectors.CollapseCollector", line, model, impl)
                if impl[2] != len(model[0]):
                    ctx.violation("CollapseCollector:len(results)!=kept", line, len(model[0]), impl[2])
                if impl[3] != model[0]:
                    ctx.violation("CollapseCollector:results.docs()!=kept", line, model[0], impl[3])
            ask(line, chk)
        else:
            # the full Searcher.collector stack over a TopCollector with a live drop schedule
            nh = len(docs)
            limit = rng.choice([1, 2, 3, max(1, nh - 1)])
            replace = rng.choice([0, 1, 2, 10])
            usequality = rng.random() < 0.8
            allow = None if rng.random() < 0.5 else sorted(rng.sample(docs, rng.randint(0, len(docs))))
            restrict = None if rng.random() < 0.6 else sorted(rng.sample(docs, rng.randint(0, len(docs))))
            coll = None
            if rng.random() < 0.6:
                ckeys = {d: rng.choice([None, 0, 1, 2, 2]) for d in docs}
                order = _gen_keys(rng, docs, False) if rng.random() < 0.3 else None
                coll = (rng.choice([1, 1, 2]), ckeys, order)
            w = G.FakeWorld(segs, sched)
            c = collectors.TopCollector(limit=limit, usequality=usequality, replace=replace)
            top = c
            if rng.random() < 0.3:
                c = collectors.TermsCollector(c)
            if coll:
                c = collectors.CollapseCollector(c, TableFacet(coll[1]), limit=coll[0],
                                                 order=TableFacet(coll[2]) if coll[2] is not None else None)
            cc = c
            if allow is not None or restrict is not None:
                c = collectors.FilterCollector(c, None if allow is None else set(allow),
                                               None if restrict is None else set(restrict))
            try:
                r = w.run(c)
                impl = ("ok", [(d, G.frac(s)) for s, d in r.top_n], top.total, getattr(c, "filtered_count", 0),
                        sorted((int(k), v) for k, v in getattr(cc, "collapsed_counts", {}).items() if v),
                        getattr(top, "may_have_dropped", None))
            except IndexError:
                impl = ("err", "IndexError")
            co = "none"
            if coll:
                co = "(%d (%s) %s)" % (coll[0], " ".join("(%d %s)" % (d, "none" if coll[1][d] is None else coll[1][d])
                                                           for d in docs),
                                       "none" if coll[2] is None else "(" + " ".join(
                                           "(%d %s)" % (d, _key_sexp(coll[2][d])) for d in docs) + ")")
            line = "c05 stack (%d %d %d 0) () %s %s %s %s %s" % (
                limit, replace, 1 if usequality else 0, "none" if allow is None else sexp(allow),
                "none" if restrict is None else sexp(restrict), co, G.segs_sexp(segs), G.sched_sexp(sched))

            def chk(reply, impl=impl, line=line, coll=coll):
                p = parse_sexp(reply)
                if p[0] == "err":
                    model = ("err", p[1])
                else:
                    model = ("ok", G.parse_hits(p[1]), int(p[2]), int(p[3]),
                             sorted((int(k), int(v)) for k, v in p[4]), p[5] == "1")
                ctx.case(("stack", line), nontrivial=impl[0] == "ok" and (impl[3] > 0 or bool(impl[4])))
                if model != impl:
                    ctx.divergence("collectors.Filter/Collapse/Terms/TopCollector stack", line, model, impl)
            ask(line, chk)
    replies = ctx.driver.ask(lines)
    for rep, fn in zip(replies, checks):
        fn(rep)
    ctx.sample({"collector_line": lines[0][:300], "model_reply": replies[0][:200]})


def _stream_filter_objects(ctx):
    """Direct correspondence for `filterToComb` / `ResultsObj.docs` / `searchFilterObjs` (what the theorems
    filter_object_forms and search_filter_given_as_results speak about): the real Searcher._filter_to_comb and
    the real Searcher.collector(limit=, filter=, mask=) stack, with filter / mask given as None, an id set, a
    query, the Results of a limited or unlimited scored search (before and after docs() was called on it), a
    ResultsPage, or an unusable object."""
    from whoosh import collectors
    from whoosh.searching import Searcher, ResultsPage
    rng = ctx.rng("filter-objects")
    n = ctx.budget(1500, 6000)

    def gen_obj():
        kind = rng.choice(["none", "none", "ids", "query", "top", "top", "top", "page", "unl", "other"])
        if rng.random() < 0.01:
            kind = "other"
        elif kind == "other":
            kind = "top"
        if kind in ("none", "other"):
            return (kind,)
        fsegs, _ = G.gen_world(rng, maxseg=rng.choice([1, 2, 4]), maxpost=8)
        if kind == "ids":
            docs = sorted(set(_docs_of(fsegs)))
            return (kind, sorted(rng.sample(docs + [997], rng.randint(0, len(docs)))))
        if kind in ("query", "unl"):
            return (kind, fsegs)
        return (kind, fsegs, rng.choice([1, 1, 2, 3, 10]), rng.choice([0, 1, 10]), rng.random() < 0.7, rng.random() < 0.25)

    def build(o):
        """-> (the real object, its protocol text, limit-of-the-object < its matches)"""
        kind = o[0]
        if kind == "none":
            return None, "none", False
        if kind == "other":
            return 42, "other", False
        if kind == "ids":
            return set(o[1]), "(ids %s)" % sexp(o[1]), False
        fw = G.FakeWorld(o[1], [])
        if kind == "query":
            return fw.q, "(query %s)" % G.segs_sexp(o[1]), False
        if kind == "unl":
            return fw.run(collectors.UnlimitedCollector()), "(unl %s)" % G.segs_sexp(o[1]), False
        _, fsegs, limit, replace, uq, prior = o
        r = fw.run(collectors.TopCollector(limit=limit, usequality=uq, replace=replace))
        if prior:
            r.docs()
        text = "(%s (%d %d %d) %s %d)" % (kind, limit, replace, 1 if uq else 0, G.segs_sexp(fsegs), 1 if prior else 0)
        cut = limit < len(_docs_of(fsegs))
        if kind == "page":
            return ResultsPage(r, 1, pagelen=limit), text, cut
        return r, text, cut

    def comb(w, obj):
        c = w._filter_to_comb(obj)
        return None if c is None else sorted(set(c))
    lines, impls = [], []
    for i in range(n):
        segs, sched = G.gen_world(rng, maxpost=8)
        fo, mo = gen_obj(), gen_obj()
        limit = rng.choice([1, 2, 3, 10])
        uq = rng.random() < 0.7
        fobj, ftext, fcut = build(fo)
        mobj, mtext, mcut = build(mo)
        w = G.FakeWorld(segs, sched)
        try:
            try:
                r = w.search(w.q, limit=limit, filter=fobj, mask=mobj, optimize=uq)     # the real Searcher.search
                c = top = r.collector
                while hasattr(top, "child"):
                    top = top.child
                tail = ("ok", [(d, G.frac(s)) for s, d in r.top_n], getattr(c, "filtered_count", 0))
            except IndexError:
                tail, top = ("err", "IndexError"), None
            impl = ("ok", comb(w, fobj), comb(w, mobj), tail, getattr(top, "replace", 10))
        except Exception as e:  # noqa: the unusable object
            if "Don't know what to do with filter object" not in str(e):
                raise
            impl = ("exc", "unknown-object")
        replace = impl[4] if impl[0] == "ok" else 10
        lines.append("c05 ftc (%d %d %d 0) () %s %s %s %s" % (limit, replace, 1 if uq else 0, ftext, mtext,
                                                             G.segs_sexp(segs), G.sched_sexp(sched)))
        impls.append((impl[:4], fo[0], mo[0], fcut or mcut))
    replies = ctx.driver.ask(lines)
    for line, (impl, fk, mk, cut), reply in zip(lines, impls, replies):
        p = parse_sexp(reply)
        if p[0] == "exc":
            model = ("exc", p[1])
        else:
            t = p[3]
            tail = ("err", t[1]) if t[0] == "err" else ("ok", G.parse_hits(t[1]), int(t[2]))
            model = ("ok", None if p[1] == "none" else [int(x) for x in p[1]],
                     None if p[2] == "none" else [int(x) for x in p[2]], tail)
        ctx.case(("filter-objects", line), nontrivial=cut)
        ctx.stat("filter-objects:filter=%s" % fk)
        ctx.stat("filter-objects:mask=%s" % mk)
        if cut:
            ctx.stat("filter-objects:Results-object-with-limit<matches")
        if model != impl:
            ctx.divergence("searching.Searcher._filter_to_comb+Results.docs+FilterCollector(TopCollector)", line,
                           model, impl)
    ctx.sample({"filter_objects_line": lines[0][:300], "model_reply": replies[0][:200]})


def _stream_view_stack(ctx):
    """Direct correspondence for `searchSorted` / `searchPageSorted` (the functions the composed theorems
    search_filter_mask_sorted, search_collapse_sorted and page_of_view speak about): the real
    Searcher.collector(sortedby=, reverse=, limit=, filter=, mask=, collapse=, collapse_limit=,
    collapse_order=) stack and the real Searcher.search_page over abstract segments with key tables."""
    from whoosh.searching import Searcher
    TableFacet = _facet_classes()

    # the fake world is a real Searcher over fake readers: search() / search_page() / collector() are the real methods
    ViewWorld = G.FakeWorld
    rng = ctx.rng("view-stack")
    n = ctx.budget(2500, 15000)
    lines, checks = [], []
    for i in range(n):
        segs, _ = G.gen_world(rng, maxpost=8)
        docs = _docs_of(segs)
        multi = rng.random() < 0.3
        keys = _gen_keys(rng, docs, multi)
        reverse = rng.random() < 0.35
        allow = None if rng.random() < 0.5 else sorted(rng.sample(docs + [999], rng.randint(0, len(docs))))
        restrict = None if rng.random() < 0.6 else sorted(rng.sample(docs + [998], rng.randint(0, len(docs))))
        coll = None
        if rng.random() < 0.6:
            ckeys = {d: rng.choice([None, 0, 1, 2, 2, 3]) for d in docs}
            order = _gen_keys(rng, docs, False) if rng.random() < 0.35 else None
            coll = (rng.choice([1, 1, 2, 3]), ckeys, order)
        kw = {"sortedby": TableFacet(keys), "reverse": reverse}
        if allow is not None:
            kw["filter"] = set(allow)
        if restrict is not None:
            kw["mask"] = set(restrict)
        if coll:
            kw.update(collapse=TableFacet(coll[1]), collapse_limit=coll[0])
            if coll[2] is not None:
                kw["collapse_order"] = TableFacet(coll[2])
        rows = " ".join("(%d %s %s %s)" % (
            d, _key_sexp(keys[d]), "none" if not coll or coll[1][d] is None else coll[1][d],
            _key_sexp(coll[2][d]) if coll and coll[2] is not None else "()") for d in docs)
        tail = "%d %s %s %s (%s)" % (1 if reverse else 0, "none" if allow is None else sexp(allow),
                                     "none" if restrict is None else sexp(restrict),
                                     "none" if not coll else "(%d %d)" % (coll[0], 1 if coll[2] is not None else 0), rows)
        w = ViewWorld(segs, [])
        if rng.random() < 0.6:
            limit = rng.choice([None, None, 1, 2, 3, 50])
            kind = "view"
            line = "c14 view %s %s" % ("none" if limit is None else limit, tail)
            try:
                r = w.search(w.q, limit=limit, **kw)
                impl = "ok (%s) %d %d (%s)" % (
                    " ".join("(%d %s)" % (d, _key_sexp(k)) for k, d in r.top_n), len(r),
                    getattr(r, "filtered_count", 0) if (allow is not None or restrict is not None) else 0,
                    " ".join("(%d %d)" % (int(k), v) for k, v in getattr(r, "collapsed_counts", {}).items() if v))
                shown = len(r.top_n)
            except IndexError:
                impl, shown = "err IndexError", 0
            nontrivial = shown < len(docs)
        else:
            pagenum = rng.choice([0, 1, 1, 2, 2, 3, 7])
            pagelen = rng.choice([0, 1, 2, 3, 3, 5, 10])
            kind = "pageview"
            line = "c14 pageview %d %d %s" % (pagenum, pagelen, tail)
            try:
                pg = w.search_page(w.q, pagenum, pagelen, **kw)
                impl = "ok %d %d %d %d %d %s" % (pg.total, pg.pagecount, pg.pagenum, pg.offset, pg.pagelen,
                                                 sexp([h.docnum for h in pg]))
                nontrivial = pg.total > pg.pagelen
            except ValueError as e:
                impl = "err LimitValueError" if "limit" in str(e) and pagenum >= 1 else "err ValueError"
                nontrivial = False
            except ZeroDivisionError:
                impl, nontrivial = "err ZeroDivisionError", False
            except IndexError:
                impl, nontrivial = "err IndexError", False
        ctx.stat("view-stack:" + kind + (":collapse" if coll else "") + (":filter" if allow is not None or restrict is not None else ""))

        def chk(reply, impl=impl, line=line, kind=kind, nontrivial=nontrivial):
            ctx.case((kind, line), nontrivial=nontrivial)
            m = reply
            if kind == "view" and reply.startswith("ok") and impl.startswith("ok"):
                # collapsed_counts is a dict: compare as a set of (key, count)
                pm, pi = parse_sexp(reply), parse_sexp(impl)
                m = (pm[1], pm[2], pm[3], sorted(map(tuple, pm[4])))
                impl = (pi[1], pi[2], pi[3], sorted(map(tuple, pi[4])))
            if m != impl:
                ctx.divergence("searching.Searcher.%s (Filter/Collapse/SortingCollector stack)" % (
                    "collector" if kind == "view" else "search_page"), line, reply, impl)
        lines.append(line)
        checks.append(chk)
    for rep, fn in zip(ctx.driver.ask(lines), checks):
        fn(rep)


def _stream_pages(ctx):
    """ResultsPage arithmetic, exhaustively over a small box (a fake Results with only __len__)."""
    from whoosh.searching import ResultsPage

    class R(object):
        def __init__(self, n):
            self.n = n

        def __len__(self):
            return self.n
    lines, impls = [], []
    for total in list(range(0, 41)) + [99, 100, 101, 1000]:
        for pagelen in list(range(0, 13)) + [50]:
            for pagenum in range(0, 9):
                try:
                    p = ResultsPage(R(total), pagenum, pagelen)
                    impl = "ok %d %d %d %d %d" % (p.total, p.pagecount, p.pagenum, p.offset, p.pagelen)
                except ValueError:
                    impl = "err ValueError"
                except ZeroDivisionError:
                    impl = "err ZeroDivisionError"
                lines.append("c14 page %d %d %d" % (total, pagenum, pagelen))
                impls.append(impl)
    replies = ctx.driver.ask(lines)
    for line, rep, impl in zip(lines, replies, impls):
        ctx.case(("page", line), nontrivial=impl.startswith("ok") and not impl.endswith(" 0 0"))
        ctx.stat("page")
        if rep != impl:
            ctx.divergence("searching.ResultsPage.__init__", line, rep, impl)


# ------------------------------------------------------------------------------------------------
# end to end: the public search API on real indexes vs the Lean views

TXS = ["a", "b", "c", "d"]
GRPS = ["x", "y", "z"]
TAGS = ["p", "q", "r"]


def _gen_view_corpus(rng):
    import datetime
    n = rng.choice([5, 8, 12, 16, 24])
    pmiss = rng.choice([0.0, 0.2, 0.4])
    docs = []
    for i in range(n):
        d = {"id": i, "t": rng.choices(["aa", "ab", "ba"], [4, 2, 1], k=rng.choice([1, 2, 3, 5]))}
        if rng.random() >= pmiss:
            d["tx"] = rng.choice(TXS)
        if rng.random() >= pmiss:
            d["nm"] = rng.randint(0, 9)
        if rng.random() >= pmiss:
            d["dt"] = rng.randint(0, 6)
        if rng.random() >= pmiss:
            d["bl"] = rng.random() < 0.5
        if rng.random() >= pmiss:
            d["grp"] = rng.choice(GRPS)
        d["tag"] = sorted(set(rng.choices(TAGS, k=rng.choice([0, 1, 1, 2, 3]))))
        # boolean per-document columns: COLUMN(BitColumn()) and NUMERIC(sortable=BitColumn())
        if rng.random() >= pmiss:
            d["bc"] = rng.random() < 0.5
        if rng.random() >= pmiss:
            d["nb"] = rng.choice([0, 1])
        docs.append(d)
    nseg = rng.choice([1, 1, 2, 3])
    cuts = sorted(rng.sample(range(1, n), min(nseg - 1, n - 1)))
    dels = sorted(rng.sample(range(n), rng.choice([0, 0, 1, 2])))
    # segments lacking the column file of the bit fields: "hole" = no document of one segment has a value,
    # "late" = the fields are added to the schema after the first segment was written
    bitmode = rng.choice(["all", "hole", "hole", "late"]) if cuts else "all"
    bithole = rng.randrange(len(cuts) + 1) if bitmode == "hole" else None
    if bitmode != "all":
        bounds = [0] + cuts + [n]
        a, b = (bounds[bithole], bounds[bithole + 1]) if bitmode == "hole" else (0, cuts[0])
        for d in docs[a:b]:
            d.pop("bc", None)
            d.pop("nb", None)
    return {"docs": docs, "cuts": cuts, "dels": dels, "columns": rng.random() < 0.6,
            "late_column": rng.random() < 0.12, "blocklimit": rng.choice([2, 4, 128]), "bitmode": bitmode}


def _build_view_index(corpus):
    import datetime
    from whoosh import fields, analysis
    from whoosh.filedb.filestore import RamStorage
    from whoosh.codec.whoosh3 import W3Codec
    G.private_tmp()
    col = corpus["columns"]
    late = corpus["late_column"] and col and corpus["cuts"]

    from whoosh import columns as wcolumns
    bitlate = corpus.get("bitmode") == "late"

    def bitfields():
        return {"bc": fields.COLUMN(wcolumns.BitColumn()),
                "nb": fields.NUMERIC(int, 32, signed=False, sortable=wcolumns.BitColumn())}

    def mkschema(columns):
        sch = mkschema0(columns)
        if not bitlate:
            for name, ft in sorted(bitfields().items()):
                sch.add(name, ft)
        return sch

    def mkschema0(columns):
        return fields.Schema(
            id=fields.STORED(),
            t=fields.TEXT(analyzer=analysis.SpaceSeparatedTokenizer()),
            tx=fields.ID(sortable=columns, stored=True), nm=fields.NUMERIC(int, 32, sortable=columns, stored=True),
            dt=fields.DATETIME(sortable=columns), bl=fields.BOOLEAN(), grp=fields.ID(sortable=columns),
            tag=fields.KEYWORD(), st=fields.STORED())
    ix = RamStorage().create_index(mkschema(col and not late))
    docs = corpus["docs"]
    bounds = [0] + list(corpus["cuts"]) + [len(docs)]
    for si, (a, b) in enumerate(zip(bounds, bounds[1:])):
        w = ix.writer(codec=W3Codec(blocklimit=corpus["blocklimit"]))
        if late and si == 1:
            for f in ("tx", "nm", "dt", "grp"):
                w.remove_field(f)
            w.add_field("tx", fields.ID(sortable=True, stored=True))
            w.add_field("nm", fields.NUMERIC(int, 32, sortable=True, stored=True))
            w.add_field("dt", fields.DATETIME(sortable=True))
            w.add_field("grp", fields.ID(sortable=True))
        if bitlate and si == 1:
            for name, ft in sorted(bitfields().items()):
                w.add_field(name, ft)
        for d in docs[a:b]:
            kw = {"id": d["id"], "t": " ".join(d["t"])}
            if "tx" in d:
                kw["tx"] = d["tx"]
                kw["st"] = d["tx"]
            if "nm" in d:
                kw["nm"] = d["nm"]
            if "dt" in d:
                kw["dt"] = datetime.datetime(2000, 1, 1) + datetime.timedelta(days=d["dt"])
            if "bl" in d:
                kw["bl"] = d["bl"]
            if "grp" in d:
                kw["grp"] = d["grp"]
            if d["tag"]:
                kw["tag"] = " ".join(d["tag"])
            if "bc" in d:
                kw["bc"] = d["bc"]
            if "nb" in d:
                kw["nb"] = d["nb"]
            w.add_document(**kw)
        w.commit(merge=False)
    if corpus["dels"]:
        w = ix.writer(codec=W3Codec(blocklimit=corpus["blocklimit"]))
        for i in corpus["dels"]:
            w.delete_document(i)
        w.commit(merge=False)
    return ix


def _rank_of(field, d):
    """Spec-level sort rank of a document's value: its position in the value order, missing = last."""
    if field == "tx":
        return TXS.index(d["tx"]) if "tx" in d else len(TXS)
    if field == "grp":
        return GRPS.index(d["grp"]) if "grp" in d else len(GRPS)
    if field == "nm":
        return d["nm"] if "nm" in d else 10
    if field == "dt":
        return d["dt"] if "dt" in d else 7
    if field == "bl":
        return (1 if d["bl"] else 0) if "bl" in d else 2
    if field in ("bc", "nb"):
        # a bit column has no representation of "no value": it reads False (ASSUMPTIONS)
        return 1 if d.get(field) else 0
    raise ValueError(field)


def _alt_rank(field, d, corpus):
    """The rank the *column-backed* categorizer effectively uses: a missing text value reads as the empty
    string (sorts first); documents of a segment written before the field had a column read the column
    default (text: empty string, numbers and dates: the largest value)."""
    late = corpus["late_column"] and corpus["columns"] and corpus["cuts"]
    col = corpus["columns"] and field in ("tx", "nm", "dt", "grp")
    nocol_seg = late and d["id"] < corpus["cuts"][0] and field in ("tx", "nm", "dt", "grp")
    if col and (field not in d or nocol_seg):
        return -1 if field in ("tx", "grp") else _rank_of(field, {})
    return _rank_of(field, d)


def _alt_order(corpus, mids, byid, keyfn, rev=False, limit=None):
    order = sorted(mids, key=lambda i: (keyfn(byid[i]), i))
    if rev:
        order.reverse()
    return order[:limit] if limit else order


def _live(corpus):
    dels = set(corpus["dels"])
    return [d for d in corpus["docs"] if d["id"] not in dels]


def _matched(corpus, qd):
    """Spec: which live documents a (very small) query language matches."""
    docs = _live(corpus)
    if qd == ["every"]:
        return docs
    if qd[0] == "term":
        return [d for d in docs if qd[1] in d["t"]]
    if qd[0] == "or":
        return [d for d in docs if qd[1] in d["t"] or qd[2] in d["t"]]
    raise ValueError(qd)


def _build_q(qd):
    from whoosh import query
    if qd == ["every"]:
        return query.Every()
    if qd[0] == "term":
        return query.Term("t", qd[1])
    return query.Or([query.Term("t", qd[1]), query.Term("t", qd[2])])


def _score(d, qd):
    """Frequency weighting: the score is the number of occurrences of the query terms."""
    if qd == ["every"]:
        return 1.0
    return float(sum(d["t"].count(w) for w in qd[1:]))


def _views_worker(arg):
    """One corpus, a battery of views. Returns records: dict(kind, line, observed, ctx...).
    A corpus whose first segment was written before the fields had columns is run a second time with
    columns everywhere: a view that fails only in the first layout fails *because of* that layout."""
    seedstr = arg
    rng = random.Random(seedstr)
    corpus = _gen_view_corpus(rng)
    recs = _views_run(corpus, seedstr + ":v")
    for i, r in enumerate(recs):
        r["seed"], r["index"] = seedstr, i
    late = corpus["late_column"] and corpus["columns"] and corpus["cuts"]
    if late and recs and recs[0]["kind"] != "infra":
        recs2 = _views_run(dict(corpus, late_column=False), seedstr + ":v")
        for r, r2 in zip(recs, recs2):
            if r2.get("kind") == r["kind"]:
                r["nolate"] = r2
    return recs


def _views_run(corpus, seedstr):
    import datetime
    from whoosh import sorting, scoring, query
    rng = random.Random(seedstr)
    out = []
    try:
        ix = _build_view_index(corpus)
    except Exception as e:  # noqa
        return [{"kind": "infra", "error": repr(e)}]
    info = {"columns": corpus["columns"], "late_column": bool(corpus["late_column"] and corpus["columns"] and corpus["cuts"]),
            "segments": len(corpus["cuts"]) + 1, "multireader": bool(corpus["cuts"] or corpus["dels"])}
    with ix.searcher(weighting=scoring.Frequency()) as s:
        for _ in range(6):
            qd = rng.choice([["every"], ["every"], ["term", "aa"], ["term", "ab"], ["or", "ab", "ba"]])
            q = _build_q(qd)
            m = _matched(corpus, qd)
            mids = [d["id"] for d in m]
            byid = {d["id"]: d for d in corpus["docs"]}
            view = rng.choice(["sort", "sort", "sortmulti", "sortscore", "stored", "group", "group", "overlap",
                               "queryfacet", "rangefacet", "collapse", "collapse", "filter", "filter", "page", "len",
                               "sortbit", "sortbit", "collapsebit"])
            if view in ("collapse", "filter", "page") and qd[0] == "or":
                # limited scored searches go through TopCollector: keep the matcher a single posting list,
                # the optimisations of compound matchers are C05's business
                qd = ["term", qd[1]]
                q = _build_q(qd)
                m = _matched(corpus, qd)
                mids = [d["id"] for d in m]
            rec = {"kind": view, "q": qd, "corpus": corpus, "info": info, "missing": False}
            try:
                with G.time_limit(5.0):
                    if view == "sort":
                        f = rng.choice(["tx", "nm", "dt", "bl"])
                        frev = rng.random() < 0.35
                        rev = rng.random() < 0.25
                        limit = rng.choice([None, None, 3, 1])
                        rec.update(field=f, frev=frev, rev=rev, limit=limit,
                                   missing=any(f not in d for d in m))
                        r = s.search(q, sortedby=sorting.FieldFacet(f, reverse=frev), reverse=rev, limit=limit)
                        rec["observed"] = [h.docnum for h in r]
                        rec["len"] = len(r)
                        rec["line"] = "c14 sort %s %d (%s)" % (
                            "none" if limit is None else limit, 1 if rev else 0,
                            " ".join("(%d (%d))" % (i, -_rank_of(f, byid[i]) if frev else _rank_of(f, byid[i])) for i in mids))
                        rec["alt"] = _alt_order(corpus, mids, byid, lambda d: (-1 if frev else 1) * _alt_rank(f, d, corpus),
                                                rev, limit)
                    elif view == "sortbit":
                        # a boolean per-document column as sort key, alone or with a second key, per-key reversal
                        f = rng.choice(["bc", "bc", "nb"])
                        frev = rng.random() < 0.6
                        f2 = rng.choice([None, None, "nm", "bl"])
                        r2 = rng.random() < 0.4
                        rev = rng.random() < 0.15
                        limit = rng.choice([None, None, 3, 1])
                        rec.update(field=f + ("+" + f2 if f2 else ""), frev=(frev, r2) if f2 else frev, rev=rev, limit=limit,
                                   missing=any(f not in d for d in m) or bool(f2 and any(f2 not in d for d in m)))
                        facet = sorting.FieldFacet(f, reverse=frev)
                        if f2:
                            facet = sorting.MultiFacet([facet, sorting.FieldFacet(f2, reverse=r2)])
                        r = s.search(q, sortedby=facet, reverse=rev, limit=limit)
                        rec["observed"] = [h.docnum for h in r]
                        rec["len"] = len(r)

                        def bkey(i):
                            k = [(-1 if frev else 1) * _rank_of(f, byid[i])]
                            if f2:
                                k.append((-1 if r2 else 1) * _rank_of(f2, byid[i]))
                            return k
                        rec["line"] = "c14 sort %s %d (%s)" % (
                            "none" if limit is None else limit, 1 if rev else 0,
                            " ".join("(%d (%s))" % (i, " ".join(map(str, bkey(i)))) for i in mids))
                    elif view == "collapsebit":
                        f = rng.choice(["bc", "nb"])
                        frev = rng.random() < 0.5
                        climit = rng.choice([1, 1, 2])
                        rec.update(field=f, frev=frev, climit=climit, limit=None, sortf=None, order=False,
                                   missing=any(f not in d for d in m))
                        r = s.search(q, collapse=sorting.FieldFacet(f, reverse=frev), collapse_limit=climit, limit=None)
                        rec["observed"] = [h.docnum for h in r]
                        rec["len"] = len(r)
                        # no document at all has a value: no segment has the column file, the facet falls back to
                        # the (empty) postings of the field and no document has a key
                        anyval = any(f in d for d in corpus["docs"])
                        rec["line"] = "c14 collapse %d (%s)" % (climit, " ".join(
                            "(%d %s (%s))" % (i, (_rank_of(f, byid[i]) + 1) if anyval else "none",
                                              G.rat(0 - _score(byid[i], qd))) for i in mids))
                        rec["final_keys"] = {i: [G.rat(0 - _score(byid[i], qd))] for i in mids}
                    elif view == "sortmulti":
                        f1, f2 = rng.sample(["tx", "nm", "dt", "bl"], 2)
                        r1, r2 = rng.random() < 0.4, rng.random() < 0.4
                        rec.update(field=f1 + "+" + f2, frev=(r1, r2), missing=any(f1 not in d or f2 not in d for d in m))
                        mf = sorting.MultiFacet([sorting.FieldFacet(f1, reverse=r1), sorting.FieldFacet(f2, reverse=r2)])
                        r = s.search(q, sortedby=mf, limit=None)
                        rec["observed"] = [h.docnum for h in r]
                        rec["len"] = len(r)
                        rec["line"] = "c14 sort none 0 (%s)" % " ".join(
                            "(%d (%d %d))" % (i, (-1 if r1 else 1) * _rank_of(f1, byid[i]),
                                              (-1 if r2 else 1) * _rank_of(f2, byid[i])) for i in mids)
                        rec["alt"] = _alt_order(corpus, mids, byid, lambda d: (
                            (-1 if r1 else 1) * _alt_rank(f1, d, corpus), (-1 if r2 else 1) * _alt_rank(f2, d, corpus)))
                    elif view == "sortscore":
                        f = rng.choice(["tx", "nm", "bl"])
                        rec.update(field=f + "+score", missing=any(f not in d for d in m))
                        mf = sorting.MultiFacet([sorting.FieldFacet(f), sorting.ScoreFacet()])
                        r = s.search(q, sortedby=mf, limit=None)
                        rec["observed"] = [h.docnum for h in r]
                        rec["len"] = len(r)
                        rec["line"] = "c14 sort none 0 (%s)" % " ".join(
                            "(%d (%d %s))" % (i, _rank_of(f, byid[i]), G.rat(0 - _score(byid[i], qd))) for i in mids)
                        rec["alt"] = _alt_order(corpus, mids, byid, lambda d: (_alt_rank(f, d, corpus), 0 - _score(d, qd)))
                    elif view == "stored":
                        rec.update(field="st", missing=any("tx" not in d for d in m))
                        r = s.search(q, sortedby=sorting.StoredFieldFacet("st"), limit=None)
                        rec["observed"] = [h.docnum for h in r]
                        rec["len"] = len(r)
                        rec["line"] = "c14 sort none 0 (%s)" % " ".join(
                            "(%d (%d))" % (i, _rank_of("tx", byid[i])) for i in mids)
                    elif view in ("group", "overlap", "queryfacet", "rangefacet"):
                        mt = rng.choice(["ordered", "unordered", "count", "best"])
                        maptype = {"ordered": sorting.OrderedList, "unordered": sorting.UnorderedList,
                                   "count": sorting.Count, "best": sorting.Best}[mt]
                        if view == "group":
                            f = rng.choice(["tx", "nm", "bl", "grp", "dt"])
                            facet = sorting.FieldFacet(f, maptype=maptype)
                            names = {i: [_rank_of(f, byid[i])] for i in mids}
                            rec.update(field=f, missing=any(f not in d for d in m))
                            missing_name = _rank_of(f, {})
                        elif view == "overlap":
                            facet = sorting.FieldFacet("tag", allow_overlap=True, maptype=maptype)
                            names = {i: ([TAGS.index(x) for x in byid[i]["tag"]] or [len(TAGS)]) for i in mids}
                            rec.update(field="tag", missing=any(not d["tag"] for d in m))
                            missing_name = len(TAGS)
                        elif view == "queryfacet":
                            facet = sorting.QueryFacet({"A": query.Term("t", "ab"), "B": query.Term("t", "ba")},
                                                       other="O", allow_overlap=True, maptype=maptype)
                            names = {}
                            for i in mids:
                                ns = [k for k, wd in ((0, "ab"), (1, "ba")) if wd in byid[i]["t"]]
                                names[i] = ns or [2]
                            rec.update(field="queryfacet")
                            missing_name = 2
                        else:
                            facet = sorting.RangeFacet("nm", 0, 10, 4, maptype=maptype)
                            names = {i: [byid[i]["nm"] // 4 if "nm" in byid[i] else 3] for i in mids}
                            rec.update(field="rangefacet", missing=any("nm" not in d for d in m))
                            missing_name = 3
                        r = s.search(q, groupedby=facet, limit=None)
                        groups = r.groups()
                        rec["maptype"] = mt
                        rec["observed_raw"] = {repr(k): (list(v) if isinstance(v, list) else v) for k, v in groups.items()}
                        rec["observed"] = _canon_groups(view, rec.get("field"), groups, mt)
                        rec["missing_name"] = missing_name
                        sk = {i: 0 - _score(byid[i], qd) for i in mids}
                        rec["line"] = "c14 facet %s (%s)" % (mt, " ".join(
                            "(%d (%s) (%s))" % (i, " ".join(map(str, names[i])), G.rat(sk[i])) for i in mids))
                    elif view == "collapse":
                        climit = rng.choice([1, 1, 2])
                        order = rng.random() < 0.3
                        sortf = rng.choice([None, None, "nm"])
                        limit = rng.choice([None, None, 2, 3])
                        rec.update(field="grp", climit=climit, order=order, sortf=sortf, limit=limit,
                                   missing=any("grp" not in d for d in m) or (order and any("nm" not in d for d in m))
                                   or (sortf and any("nm" not in d for d in m)))
                        kw = dict(collapse="grp", collapse_limit=climit, limit=limit, optimize=False)
                        if order:
                            kw["collapse_order"] = sorting.FieldFacet("nm")
                        if sortf:
                            kw["sortedby"] = sortf
                        crev = bool(sortf) and not order and rng.random() < 0.35
                        if crev:
                            # sorted descending and collapsed: "the best N per key" is in result order
                            kw["reverse"] = True
                            rec["rev"] = True
                            rec["view_line"] = "c14 view %s 1 none none (%d 0) (%s)" % (
                                "none" if not limit else limit, climit, " ".join(
                                    "(%d (%d) %s ())" % (i, _rank_of("nm", byid[i]),
                                                         GRPS.index(byid[i]["grp"]) + 1 if "grp" in byid[i] else "none")
                                    for i in mids))
                            groups = {}
                            for i in mids:
                                groups.setdefault(byid[i].get("grp"), []).append(i)
                            keep = []
                            for g, members in groups.items():
                                members.sort(key=lambda i: (-_rank_of("nm", byid[i]), -i))
                                keep.extend(members if g is None else members[:climit])
                            keep.sort(key=lambda i: (-_rank_of("nm", byid[i]), -i))
                            rec["rev_spec"] = keep[:limit] if limit else keep
                        r = s.search(q, **kw)
                        rec["observed"] = [h.docnum for h in r]
                        rec["len"] = len(r)
                        rec["counts"] = sorted((GRPS.index(k if isinstance(k, str) else k.decode()), v)
                                               for k, v in r.collapsed_counts.items() if v)
                        if order:
                            sk = {i: "(%d)" % _rank_of("nm", byid[i]) for i in mids}
                        elif sortf:
                            sk = {i: "(%d)" % _rank_of("nm", byid[i]) for i in mids}
                        else:
                            sk = {i: "(%s)" % G.rat(0 - _score(byid[i], qd)) for i in mids}
                        rec["line"] = "c14 collapse %d (%s)" % (climit, " ".join(
                            "(%d %s %s)" % (i, GRPS.index(byid[i]["grp"]) + 1 if "grp" in byid[i] else "none", sk[i])
                            for i in mids))
                        rec["final_keys"] = {i: ([_rank_of("nm", byid[i])] if sortf else [G.rat(0 - _score(byid[i], qd))])
                                             for i in mids}
                        if limit and not sortf:
                            # what TopCollector + CollapseCollector do without any matcher drops (Lean stack model)
                            rec["stack_line"] = "c05 stack (%d 10 0 0) () none none (%d (%s) %s) ((0 0 (%s))) ()" % (
                                limit, climit,
                                " ".join("(%d %s)" % (i, GRPS.index(byid[i]["grp"]) + 1 if "grp" in byid[i] else "none")
                                         for i in mids),
                                "none" if not order else "(" + " ".join("(%d (%d))" % (i, _rank_of("nm", byid[i]))
                                                                         for i in mids) + ")",
                                " ".join("(%d %s 0)" % (i, G.rat(_score(byid[i], qd))) for i in mids))
                    elif view == "filter":
                        how = rng.choice(["set", "query", "results", "emptyset", "emptyresults"])
                        which = rng.choice(["filter", "mask", "both"])
                        fdocs = sorted(rng.sample(range(len(corpus["docs"])), rng.randint(0, len(corpus["docs"]))))
                        if how in ("emptyset", "emptyresults"):
                            fdocs = []
                        if how in ("query", "results"):
                            fq = rng.choice([["term", "ab"], ["term", "ba"], ["term", "zz"]])
                            fdocs = [d["id"] for d in _matched(corpus, fq)] if fq[1] != "zz" else []
                            fobj = _build_q(fq) if fq[1] != "zz" else query.Term("t", "zz")
                            if how == "results":
                                # the document set of a Results object is every document its query matched,
                                # whatever limit / order / page the object was produced with
                                rhow = rng.choice(["none", "k", "k", "k", "default", "sorted-k", "page", "k-len"])
                                rk = rng.choice([1, 1, 2, 3, 5])
                                if rhow == "none":
                                    fobj = s.search(fobj, limit=None)
                                elif rhow in ("k", "k-len"):
                                    fobj = s.search(fobj, limit=rk, optimize=rng.random() < 0.5)
                                    if rhow == "k-len":
                                        len(fobj)
                                elif rhow == "default":
                                    fobj = s.search(fobj)
                                elif rhow == "sorted-k":
                                    fobj = s.search(fobj, limit=rk, sortedby="nm", reverse=rng.random() < 0.5)
                                else:
                                    fobj = s.search_page(fobj, rng.choice([1, 1, 2]), pagelen=rk)
                                rec["results_as"] = rhow
                        elif how == "emptyresults":
                            fobj = s.search(query.Term("t", "zz"), limit=None)
                        else:
                            fobj = set(fdocs)
                        limit = rng.choice([None, None, 1, 2, 3])
                        sortf = rng.choice([None, None, "nm"])
                        rec.update(field=how + ":" + which, limit=limit, sortf=sortf,
                                   missing=bool(sortf) and any("nm" not in d for d in m))
                        kw = {"limit": limit, "optimize": rng.random() < 0.5}
                        allow = restrict = None
                        if which in ("filter", "both"):
                            kw["filter"] = fobj
                            allow = fdocs
                        if which == "mask":
                            kw["mask"] = fobj
                            restrict = fdocs
                        if which == "both":
                            # an independent mask: some documents the filter lets through are masked out
                            if rng.random() < 0.3:
                                restrict = [d["id"] for d in _matched(corpus, ["term", "ba"])]
                                kw["mask"] = query.Term("t", "ba")
                            else:
                                restrict = sorted(rng.sample(range(len(corpus["docs"])),
                                                             rng.randint(0, max(1, len(corpus["docs"]) // 2))))
                                kw["mask"] = set(restrict)
                        if sortf:
                            kw["sortedby"] = sortf
                        r = s.search(q, **kw)
                        rec["observed"] = [h.docnum for h in r]
                        rec["len"] = len(r)
                        rec["filtered_count"] = getattr(r, "filtered_count", None)
                        rec["line"] = "c14 filter %s %s (%s)" % (
                            "none" if allow is None else sexp(allow), "none" if restrict is None else sexp(restrict),
                            " ".join(map(str, mids)))
                        rec["final_keys"] = {i: ([_rank_of("nm", byid[i])] if sortf else [G.rat(0 - _score(byid[i], qd))])
                                             for i in mids}
                    elif view == "page":
                        pagelen = rng.choice([1, 2, 3, 5, 10])
                        pagenum = rng.choice([1, 1, 2, 3, 7])
                        sortf = rng.choice([None, "nm"])
                        rec.update(field="page", pagelen=pagelen, pagenum=pagenum, sortf=sortf,
                                   missing=bool(sortf) and any("nm" not in d for d in m))
                        kw = {"sortedby": sortf} if sortf else {"optimize": rng.random() < 0.5}
                        pmids = mids
                        if rng.random() < 0.4:
                            # a filtered and masked page: total / pagecount count what passes both
                            pallow = sorted(rng.sample(range(len(corpus["docs"])),
                                                       rng.randint(len(corpus["docs"]) // 2, len(corpus["docs"]))))
                            prestrict = sorted(rng.sample(range(len(corpus["docs"])), rng.randint(0, len(corpus["docs"]) // 3)))
                            kw["filter"], kw["mask"] = set(pallow), set(prestrict)
                            pmids = [i for i in mids if i in kw["filter"] and i not in kw["mask"]]
                            rec["field"] = "page+filter+mask"
                        pg = s.search_page(q, pagenum, pagelen=pagelen, **kw)
                        rec["observed"] = ("ok %d %d %d %d %d" % (pg.total, pg.pagecount, pg.pagenum, pg.offset, pg.pagelen),
                                           [h.docnum for h in pg])
                        rec["line"] = "c14 page %d %d %d" % (len(pmids), pagenum, pagelen)
                        rec["final_keys"] = {i: ([_rank_of("nm", byid[i])] if sortf else [G.rat(0 - _score(byid[i], qd))])
                                             for i in pmids}
                    else:
                        limit = rng.choice([1, 2, 3, 5, None])
                        opt = rng.random() < 0.7 and not corpus["dels"]
                        rec.update(field="len", limit=limit)
                        r = s.search(q, limit=limit, optimize=opt)
                        rec["observed"] = len(r)
                        rec["line"] = "c14 filter none none (%s)" % " ".join(map(str, mids))
            except Exception as e:  # noqa
                rec["exc"] = G_exc_site(e)
            rec["nmatched"] = len(mids)
            out.append(rec)
    return out


def G_exc_site(e):
    import traceback
    site = "?"
    for fr in traceback.extract_tb(e.__traceback__):
        if "/whoosh/" in fr.filename:
            site = "%s:%s" % (fr.filename.split("/whoosh/")[-1], fr.name)
    return "%s@%s" % (type(e).__name__, site)


def _canon_groups(view, field, groups, mt):
    """whoosh group names -> the integer names the spec uses (None/missing handled by the caller)."""
    import datetime
    out = {}
    for k, v in groups.items():
        name = ("raw", repr(k))
        if view == "group":
            if field in ("tx", "grp"):
                vals = TXS if field == "tx" else GRPS
                kk = k.decode() if isinstance(k, bytes) else k
                if kk in vals:
                    name = vals.index(kk)
                elif k is None or kk == "":
                    name = "none"   # a text column reads a missing value as '': still "no key"
            elif field == "dt":
                if isinstance(k, datetime.datetime):
                    name = (k - datetime.datetime(2000, 1, 1)).days
                elif k is None:
                    name = "none"
            elif field == "nm":
                if isinstance(k, int) and 0 <= k <= 9:
                    name = k
                elif k is None:
                    name = "none"
            elif field == "bl":
                if k in ("t", "f", True, False):
                    name = 1 if k in ("t", True) else 0
                elif k is None:
                    name = "none"
        elif view == "overlap":
            kk = k.decode() if isinstance(k, bytes) else k
            if kk in TAGS:
                name = TAGS.index(kk)
            elif k is None:
                name = "none"
        elif view == "queryfacet":
            name = {"A": 0, "B": 1, "O": 2}.get(k, "none" if k is None else ("raw", repr(k)))
        elif view == "rangefacet":
            if isinstance(k, tuple) and len(k) == 2 and k[0] % 4 == 0:
                name = k[0] // 4
            elif k is None:
                name = "none"
        out[name] = list(v) if isinstance(v, list) else v
    return out


def _sort_signature(rec):
    """Classify a sorting mismatch by what the minimised facts of the case are."""
    info = rec["info"]
    parts = []
    if info["late_column"]:
        parts.append("segment-without-column")
    elif info["columns"]:
        parts.append("column")
    else:
        parts.append("postings")
    parts.append("missing-values" if rec.get("missing") else "all-values-present")
    return ":".join(parts)


def _stream_views(ctx):
    ncorp = ctx.budget(2000, 8000)
    args = ["%s:%d:%d:views" % (ctx.pid, ctx.seed, i) for i in range(ncorp)]
    recs = [r for rs in ctx.pmap(_views_worker, args, chunksize=4) for r in rs]
    infra = [r for r in recs if r["kind"] == "infra"]
    if infra:
        raise RuntimeError("index construction failed: " + infra[0]["error"])
    allrecs = recs + [r["nolate"] for r in recs if "nolate" in r]
    lines = sorted(set(r["line"] for r in allrecs if "line" in r))
    replies = dict(zip(lines, ctx.driver.ask(lines))) if lines else {}
    # second round: rankings of kept documents (collapse / filter / page need the final order)
    second, owners = [], []
    for r in allrecs:
        if "exc" in r or "line" not in r:
            continue
        rep = replies[r["line"]]
        if r["kind"] in ("collapse", "collapsebit"):
            p = parse_sexp(rep)
            if p[0] == "ok":
                kept = [int(x) for x in p[1]]
                second.append(_final_sort_line(r, kept, r.get("limit")))
                owners.append(r)
        elif r["kind"] == "filter":
            p = parse_sexp(rep)
            kept = [int(x) for x in p[0]]
            second.append(_final_sort_line(r, kept, r.get("limit")))
            owners.append(r)
        elif r["kind"] == "page":
            second.append(_final_sort_line(r, sorted(r["final_keys"], key=int), None))
            owners.append(r)
    rep2 = ctx.driver.ask(second) if second else []
    for r, rep in zip(owners, rep2):
        r["final"] = [int(d) for d, _ in parse_sexp(rep)[0]]
    vrecs = [r for r in allrecs if "view_line" in r and "exc" not in r]
    for r, rep in zip(vrecs, ctx.driver.ask([r["view_line"] for r in vrecs]) if vrecs else []):
        p = parse_sexp(rep)
        r["view_model"] = [int(d) for d, _ in p[1]] if p[0] == "ok" else None
    srecs = [r for r in allrecs if "stack_line" in r and "exc" not in r]
    for r, rep in zip(srecs, ctx.driver.ask([r["stack_line"] for r in srecs]) if srecs else []):
        p = parse_sexp(rep)
        r["stack"] = [int(d) for d, _ in p[1]] if p[0] == "ok" else None
    for r in recs:
        _judge_view(ctx, r, replies.get(r.get("line")), replies)


def _strict_reverse_order(line):
    """Key descending, document number ASCENDING on equal keys, first `limit`: the strict reading of
    'reversed, document order on ties' for a `c14 sort limit 1 ((doc (key...)) ...)` line."""
    p = parse_sexp(line)
    limit = None if p[2] == "none" else int(p[2])
    items = sorted((int(d), [Fraction(x) for x in k]) for d, k in p[4])
    items.sort(key=lambda it: it[1], reverse=True)       # stable: ties keep ascending document order
    docs = [d for d, _ in items]
    return docs[:limit] if limit else docs


def _final_sort_line(r, docs, limit):
    fk = r["final_keys"]
    fk = {int(k): v for k, v in fk.items()}
    return "c14 sort %s 0 (%s)" % ("none" if not limit else limit, " ".join(
        "(%d (%s))" % (d, " ".join(str(x) for x in fk[d])) for d in sorted(docs)))


def _verdicts(r, reply):
    """-> (nontrivial, [(signature, expected, observed, description)]) for one view record."""
    kind = r["kind"]
    out = []
    nontrivial = [True]

    class _C(object):
        def case(self, key, nontrivial_=True, **kw):
            nontrivial[0] = kw.get("nontrivial", nontrivial_)

        def violation(self, sig, case, expected, observed, desc=""):
            out.append((sig, expected, observed, desc))
    ctx = _C()
    case = {"corpus": r["corpus"], "q": r["q"], "view": {k: r[k] for k in r if k in (
        "kind", "field", "frev", "rev", "limit", "maptype", "climit", "order", "sortf", "pagelen", "pagenum")}}
    late = r["info"]["late_column"]
    if "exc" in r:
        ctx.case((kind, repr(case)), nontrivial=True)
        if kind in ("sortbit", "collapsebit") and r["exc"].startswith("TermNotFound@reading.py") and \
                r["field"].split("+")[0] == "bc" and not any("bc" in d for d in r["corpus"]["docs"]):
            sig = "FieldFacet(COLUMN-field):no-segment-has-the-column-file:TermNotFound"
        elif kind == "stored" and r["exc"].startswith("TypeError") and r.get("missing"):
            sig = "sortedby:StoredFieldFacet:missing-value:TypeError-None-vs-str"
        elif kind == "group" and r.get("field") == "dt" and r["exc"].startswith("OverflowError") and \
                r["info"]["columns"] and (r.get("missing") or late):
            sig = "groupedby:ColumnCategorizer.key_to_name:datetime-column:missing-value:OverflowError"
        elif kind in ("sort", "sortmulti") and r["exc"].startswith("ValueError@sorting.py:key_for") and \
                r["info"]["columns"] and r["info"]["multireader"]:
            sig = "sortedby:ReversedColumnCategorizer:MultiReader.column_reader-value-list-incomplete:ValueError"
        else:
            sig = "%s(%s) raises %s [%s]" % (kind, r.get("field"), r["exc"], _sort_signature(r))
        ctx.violation(sig, case, "a result", r["exc"], "the view raises")
        return nontrivial[0], out
    if kind in ("sortbit", "collapsebit"):
        bm = r["corpus"].get("bitmode", "all")
        layout = "bit-column:%s:%s" % ({"all": "every-segment-has-the-column", "hole": "segment-without-column",
                                        "late": "segment-written-before-the-field"}[bm],
                                       "per-key-reverse" if (r["frev"][0] if isinstance(r["frev"], (list, tuple)) else r["frev"])
                                       else "ascending")
    if kind == "sortbit":
        want = [int(d) for d, _ in parse_sexp(reply)[0]]
        got = r["observed"]
        ctx.case((kind, repr(case)), nontrivial=want != sorted(want))
        if got != want:
            ctx.violation("sortedby(%s)!=spec-order [%s]" % (r["field"].replace("bc", "bit").replace("nb", "bit"), layout),
                          case, want, got, "results sorted on a boolean column are not in (key, docnum) order")
        elif r.get("rev"):
            strict = _strict_reverse_order(r["line"])
            if strict != got:
                ctx.violation("sortedby+reverse=True:ties-in-descending-document-order", case, strict, got,
                              "search(reverse=True) returns documents with equal sort keys in descending document order")
        if r["len"] != r["nmatched"]:
            ctx.violation("len(results)!=matched [sortedby]", case, r["nmatched"], r["len"])
    elif kind == "collapsebit":
        p = parse_sexp(reply)
        if p[0] != "ok":
            return nontrivial[0], out
        want = r["final"]
        ctx.case((kind, repr(case)), nontrivial=bool(p[2]))
        if r["observed"] != want:
            ctx.violation("collapse(bit)!=best-N-per-key [%s]" % layout, case, want, r["observed"],
                          "results collapsed on a boolean column are not the best N per value")
        elif r["len"] != len(want):
            ctx.violation("collapse(bit):len(results)!=kept [%s]" % layout, case, len(want), r["len"])
    elif kind in ("sort", "sortmulti", "sortscore", "stored"):
        want = [int(d) for d, _ in parse_sexp(reply)[0]]
        got = r["observed"]
        plain = sorted(want)
        ctx.case((kind, repr(case)), nontrivial=want != plain)
        if got != want:
            if "alt" in r and got == r["alt"]:
                sig = "sortedby:ColumnCategorizer:text-column:missing-value-sorts-as-empty-string"
            else:
                sig = "sortedby(%s)!=spec-order [%s]" % (_field_class(r["field"]), _sort_signature(r))
            ctx.violation(sig, case, want, got, "sorted results are not in (key, docnum) order")
        elif r.get("rev"):
            # the model (WM.C14.sorted) reverses the whole list; the property says "document order on ties"
            strict = _strict_reverse_order(r["line"])
            if strict != got:
                ctx.violation("sortedby+reverse=True:ties-in-descending-document-order", case, strict, got,
                              "search(reverse=True) returns documents with equal sort keys in descending document order")
        if r["len"] != r["nmatched"]:
            ctx.violation("len(results)!=matched [sortedby]", case, r["nmatched"], r["len"])
    elif kind in ("group", "overlap", "queryfacet", "rangefacet"):
        p = parse_sexp(reply)[0]
        mt = r["maptype"]
        if mt in ("ordered", "unordered"):
            want = {int(k): [int(x) for x in v] for k, v in p}
        else:
            want = {int(k): int(v) for k, v in p}
        got = {}
        default_named = False
        for k, v in r["observed"].items():
            if k == "none":
                k = r["missing_name"]
            elif isinstance(k, (list, tuple)) and k[0] == "raw":
                if r.get("field") == "nm" and k[1] in ("2147483647", "4294967295"):
                    default_named = True
                    k = r["missing_name"]
                else:
                    k = tuple(k)
            if mt == "unordered" and isinstance(v, list):
                v = sorted(v)
            got[k] = v
        if mt == "unordered":
            want = {k: sorted(v) for k, v in want.items()}
        ctx.case((kind, repr(case)), nontrivial=len(want) > 1)
        if got != want:
            ctx.violation("groupedby(%s)!=spec-groups [%s]" % (_field_class(r["field"]), _sort_signature(r)), case,
                          want, r["observed_raw"], "facet groups are not the partition of the matched documents by key")
        elif default_named:
            ctx.violation("groupedby:ColumnCategorizer.key_to_name:numeric-column:missing-value-named-by-column-default",
                          case, "group name None", r["observed_raw"],
                          "documents without a value are grouped under the column's default number")
    elif kind == "collapse" and r.get("rev"):
        # search(sortedby=, reverse=True, collapse=): the property's "best N per key" is in result order
        ctx.case((kind, repr(case)), nontrivial=r["observed"] != sorted(r["observed"], reverse=True))
        if r["observed"] != r["rev_spec"]:
            if r.get("view_model") is not None and r["observed"] == r["view_model"]:
                sig = "collapse+sortedby+reverse=True:keeps-the-N-smallest-keys-per-group-which-the-reversed-list-shows-last"
            else:
                sig = "collapse(limit=%s,sortedby=True,reverse=True)!=best-N-per-key [%s]" % (
                    "k" if r["limit"] else "None", _sort_signature(r))
            ctx.violation(sig, case, r["rev_spec"], r["observed"],
                          "collapsed descending results are not the best N per key in result order")
    elif kind == "collapse":
        p = parse_sexp(reply)
        if p[0] != "ok":
            return nontrivial[0], out
        counts = sorted((int(k) - 1, int(v)) for k, v in p[2])
        want = r["final"]
        ctx.case((kind, repr(case)), nontrivial=bool(counts))
        nkept = len([int(x) for x in p[1]])
        if r["observed"] != want:
            stack = r.get("stack")
            if r["limit"] and r["order"] and stack is not None and r["observed"] == stack:
                sig = "collapse_order+limit:TopCollector-forgot-a-document-that-collapsing-lets-back-in"
            else:
                sig = "collapse(limit=%s,order=%s,sortedby=%s)!=best-N-per-key [%s]" % (
                    "k" if r["limit"] else "None", bool(r["order"]), bool(r["sortf"]), _sort_signature(r))
            ctx.violation(sig, case, want, r["observed"], "collapsed results are not the best N per key in result order")
        else:
            if r["limit"] is None and r["counts"] != counts:
                ctx.violation("collapse:collapsed_counts!=discarded [%s]" % _sort_signature(r), case, counts, r["counts"])
            if r["len"] != nkept:
                if r["limit"] and not r["sortf"] and r["len"] == r["nmatched"]:
                    sig = "collapse+limit:len(results)-is-TopCollector.count-of-all-matches"
                else:
                    sig = "collapse:len(results)!=kept [limit=%s,sortedby=%s]" % ("k" if r["limit"] else "None", bool(r["sortf"]))
                ctx.violation(sig, case, nkept, r["len"])
    elif kind == "filter":
        p = parse_sexp(reply)
        want = r["final"]
        nkept, nfilt = len(p[0]), int(p[1])
        ctx.case((kind, repr(case)), nontrivial=nfilt > 0)
        sig = "filter(%s,limit=%s,sortedby=%s)" % (r["field"], "k" if r["limit"] else "None", bool(r["sortf"]))
        if r["observed"] != want:
            sig = "%s!=restricted-ranking [%s]" % (sig, _sort_signature(r))
            ctx.violation(sig, case, want, r["observed"],
                          "filtered results are not the unfiltered order restricted to the allowed documents")
        elif r["len"] != nkept:
            ctx.violation("%s:len(results)!=kept [%s]" % (sig, _sort_signature(r)), case, nkept, r["len"])
        elif r["filtered_count"] is not None and r["filtered_count"] != nfilt and not r["limit"]:
            ctx.violation("%s:filtered_count [%s]" % (sig, _sort_signature(r)), case, nfilt, r["filtered_count"])
    elif kind == "page":
        fields, hits = r["observed"]
        ctx.case((kind, repr(case)), nontrivial=r["nmatched"] > r["pagelen"])
        if fields != reply:
            ctx.violation("search_page:fields!=spec [%s]" % _sort_signature(r), case, reply, fields)
        elif reply.startswith("ok"):
            _, total, pc, pn, off, plen = reply.split()
            want = r["final"][int(off):int(off) + int(plen)]
            if hits != want:
                sig = "search_page:hits!=slice-of-ranking(sortedby=%s) [%s]" % (bool(r["sortf"]), _sort_signature(r))
                ctx.violation(sig, case, want, hits)
    elif kind == "len":
        ctx.case((kind, repr(case)), nontrivial=r["limit"] is not None and r["limit"] < r["nmatched"])
        if r["observed"] != r["nmatched"]:
            ctx.violation("len(results)!=matched [limit=%s]" % ("k" if r["limit"] else "None"), case, r["nmatched"], r["observed"])
    return nontrivial[0], out


def _judge_view(ctx, r, reply, replies):
    kind = r["kind"]
    ctx.stat("e2e:" + kind)
    ctx.stat("e2e:layout:" + _sort_signature(r))
    if kind in ("sortbit", "collapsebit"):
        frev = r.get("frev")
        ctx.stat("e2e:bit-column:%s:%s" % (r["corpus"].get("bitmode", "all"),
                                            "per-key-reverse" if (frev[0] if isinstance(frev, (list, tuple)) else frev) else "ascending"))
    if r.get("results_as"):
        ctx.stat("e2e:filter-given-as-Results:" + r["results_as"])
    case = {"corpus": r["corpus"], "q": r["q"], "seed": r.get("seed"), "index": r.get("index"),
            "view": {k: r[k] for k in r if k in (
                "kind", "field", "frev", "rev", "limit", "maptype", "climit", "order", "sortf", "pagelen", "pagenum",
                "results_as")}}
    nontrivial, vs = _verdicts(r, reply)
    ctx.case((kind, repr(case)), nontrivial=nontrivial)
    if vs and "nolate" in r:
        r2 = r["nolate"]
        _, vs2 = _verdicts(r2, replies.get(r2.get("line")))
        if not vs2:
            vs = [("%s:ColumnCategorizer:segment-without-column-reads-default-values" % (
                "sortedby" if kind in ("sort", "sortbit", "sortmulti", "sortscore", "stored", "page", "filter") else
                "groupedby" if kind in ("group", "overlap", "queryfacet", "rangefacet") else kind),
                vs[0][1], vs[0][2], "fails only when the first segment was written before the field had a column")]
        else:
            vs = vs2
    for sig, expected, observed, desc in vs:
        ctx.violation(sig, case, expected, observed, desc)


def _field_class(f):
    return {"tx": "text", "nm": "numeric", "dt": "datetime", "bl": "boolean", "st": "stored", "grp": "text",
            "tag": "keyword-overlap"}.get(f, f)


def _stream_results_ops(ctx):
    """Results.extend / filter / upgrade / upgrade_and_extend on real Results objects (from the real
    collectors over abstract segments) vs the Lean model."""
    from whoosh import collectors
    rng = ctx.rng("results-ops")
    n = ctx.budget(3000, 15000)
    lines, checks = [], []

    def mk(segs, limit):
        w = G.FakeWorld(segs, [])
        c = collectors.UnlimitedCollector() if limit is None else collectors.TopCollector(limit=limit, usequality=False)
        return w.run(c)

    def enc(r):
        return "(%s %s %d)" % (G.hits_sexp([(s_, d) for s_, d in r.top_n]).replace("(", "(").replace(")", ")"),
                               sexp(sorted(r.docs())), len(r))
    for i in range(n):
        univ, _ = G.gen_world(rng, maxseg=2, maxpost=9)
        # two result sets over the same document space: independent random selections with their own scores
        segs, segs2 = [], []
        for off, sup, ps in univ:
            segs.append((off, sup, [p for p in ps if rng.random() < 0.6]))
            segs2.append((off, sup, [(d, rng.choice([0.5, 1.0, 2.0, 3.0]), nb) for d, sc, nb in ps if rng.random() < 0.5]))
        if rng.random() < 0.15:
            segs2 = [(off, sup, []) for off, sup, ps in segs2]
        la = rng.choice([None, None, 2, 3])
        lb = rng.choice([None, None, 1, 2])
        a, b = mk(segs, la), mk(segs2, lb)
        op = rng.choice(["extend", "filter", "upgrade", "upgrade-rev", "upgrade-extend"])

        def item_sexp(r):
            return "(" + " ".join("(%s %d)" % (G.rat(sc), d) for sc, d in r.top_n) + ")"
        line = "c14 results %s (%s %s %d) (%s %s %d)" % (op, item_sexp(a), sexp(sorted(a.docs())), len(a),
                                                        item_sexp(b), sexp(sorted(b.docs())), len(b))
        try:
            if op == "extend":
                a.extend(b)
            elif op == "filter":
                a.filter(b)
            elif op == "upgrade":
                a.upgrade(b)
            elif op == "upgrade-rev":
                a.upgrade(b, reverse=True)
            else:
                a.upgrade_and_extend(b)
            impl = "%s %s %d" % (item_sexp(a), sexp(sorted(a.docs())), len(a))
        except Exception as e:  # noqa
            impl = "raises " + type(e).__name__
        ctx.stat("results:" + op)

        def chk(reply, impl=impl, line=line):
            ctx.case(("results-op", line), nontrivial=reply != line.split(" (", 1)[0])
            if reply != impl:
                ctx.divergence("searching.Results." + line.split()[2], line, reply, impl)
        lines.append(line)
        checks.append(chk)
    for rep, fn in zip(ctx.driver.ask(lines), checks):
        fn(rep)


def _stream_categorizers(ctx):
    """sorting.py PostingCategorizer on small real indexes (no columns) vs the Lean model: the rank array,
    key_for in both directions and key_to_name (what groupedby / collapse show as the group name)."""
    from whoosh import fields, sorting, analysis
    from whoosh.filedb.filestore import RamStorage
    rng = ctx.rng("categorizers")
    n = ctx.budget(300, 2000)
    lines, checks = [], []
    with ctx.scratch() as base:
        G.set_base_tmp(base)
        G.private_tmp()
        for ci in range(n):
            ndocs = rng.choice([1, 2, 3, 5, 8, 13])
            vocab = ["a", "b", "c", "d", "e"][:rng.randint(1, 5)]
            vals = [rng.choice(vocab + [None]) for _ in range(ndocs)]
            schema = fields.Schema(f=fields.ID(stored=True), x=fields.ID())
            ix = RamStorage().create_index(schema)
            cut = rng.randint(0, ndocs)
            for a, b in ((0, cut), (cut, ndocs)):
                if a == b:
                    continue
                w = ix.writer()
                for v in vals[a:b]:
                    if v is None:
                        w.add_document(x="y")
                    else:
                        w.add_document(f=v, x="y")
                w.commit(merge=False)
            present = sorted(set(v for v in vals if v is not None))
            terms = [[i for i, v in enumerate(vals) if v == t] for t in present]
            for reverse in (False, True):
                with ix.searcher() as s:
                    cat = sorting.FieldFacet("f", reverse=reverse).categorizer(s)
                    if not isinstance(cat, sorting.PostingCategorizer):
                        ctx.divergence("sorting.FieldFacet.categorizer", ci, "PostingCategorizer", type(cat).__name__)
                        continue
                    arr = list(cat.array)
                    cat.set_searcher(s, 0)
                    keys = [cat.key_for(None, d) for d in range(ndocs)]
                    names = []
                    for k in keys:
                        try:
                            nm = cat.key_to_name(k)
                            names.append("none" if nm is None else str(present.index(nm)))
                        except IndexError:
                            names.append("err IndexError")
                line = "c14 postarr %d %s" % (ndocs, sexp(terms))

                def chk(reply, arr=arr, line=line):
                    model = [int(x) for x in parse_sexp(reply)[0]]
                    ctx.case(("postarr", line), nontrivial=len(set(model)) > 1)
                    ctx.stat("categorizer:array")
                    if model != arr:
                        ctx.divergence("sorting.PostingCategorizer.__init__", line, model, arr)
                lines.append(line)
                checks.append(chk)
                for d in range(ndocs):
                    l1 = "c14 postkey %d %d %d" % (len(present), 1 if reverse else 0, arr[d])

                    def chk1(reply, want=keys[d], line=l1):
                        ctx.case(("postkey", line), nontrivial=True)
                        if int(reply) != want:
                            ctx.divergence("sorting.PostingCategorizer.key_for", line, reply, want)
                    lines.append(l1)
                    checks.append(chk1)
                    l2 = "c14 postname %d %d %d" % (len(present), 1 if reverse else 0, keys[d])

                    def chk2(reply, want=names[d], line=l2, v=vals[d]):
                        ctx.case(("postname", line), nontrivial=True)
                        ctx.stat("categorizer:key_to_name")
                        if reply != want:
                            ctx.divergence("sorting.PostingCategorizer.key_to_name", line, reply, want)
                        # the property: the name is the document's own value (None if it has none)
                        spec = "none" if v is None else str(sorted(set(x for x in [v])).index(v) if False else 0)
                    lines.append(l2)
                    checks.append(chk2)
                    # end to end: name == the document's value
                    wantname = "none" if vals[d] is None else str(present.index(vals[d]))
                    if names[d] != wantname:
                        ctx.violation("PostingCategorizer.key_to_name(key_for(doc))!=value(doc)",
                                      {"values": vals, "doc": d, "reverse": reverse}, wantname, names[d],
                                      "the group name of a document is not its field value")
        G.cleanup_private_tmp()
    replies = ctx.driver.ask(lines)
    for rep, fn in zip(replies, checks):
        fn(rep)


def run(ctx):
    _stream_collectors(ctx)
    _stream_view_stack(ctx)
    _stream_filter_objects(ctx)
    _stream_pages(ctx)
    _stream_results_ops(ctx)
    _stream_categorizers(ctx)
    with ctx.scratch() as base:
        G.set_base_tmp(base)
        try:
            _stream_views(ctx)
        finally:
            G.cleanup_private_tmp()


def replay(ctx, rec):
    """Re-execute one stored failing input against the current tree."""
    case = rec.get("case", {})
    if isinstance(case, dict) and "corpus" in case and "seed" in case:
        recs = _views_worker(case["seed"])
        r = recs[case["index"]]
        allrecs = [r] + ([r["nolate"]] if "nolate" in r else [])
        replies = {}
        for x in allrecs:
            if "line" in x:
                replies[x["line"]] = ctx.driver.ask1(x["line"])
        for x in allrecs:
            if "exc" in x or "line" not in x:
                continue
            rep = replies[x["line"]]
            if x["kind"] in ("collapse", "collapsebit", "filter"):
                p = parse_sexp(rep)
                kept = [int(v) for v in (p[1] if x["kind"] != "filter" else p[0])] if (x["kind"] == "filter" or p[0] == "ok") else None
                if kept is not None:
                    x["final"] = [int(d) for d, _ in parse_sexp(ctx.driver.ask1(_final_sort_line(x, kept, x.get("limit"))))[0]]
            elif x["kind"] == "page":
                x["final"] = [int(d) for d, _ in parse_sexp(ctx.driver.ask1(
                    _final_sort_line(x, sorted(x["final_keys"], key=int), None)))[0]]
            if "view_line" in x:
                p = parse_sexp(ctx.driver.ask1(x["view_line"]))
                x["view_model"] = [int(d) for d, _ in p[1]] if p[0] == "ok" else None
            if "stack_line" in x:
                p = parse_sexp(ctx.driver.ask1(x["stack_line"]))
                x["stack"] = [int(d) for d, _ in p[1]] if p[0] == "ok" else None
        _, vs = _verdicts(r, replies.get(r.get("line")))
        for sig, expected, observed, desc in vs:
            print("signature:", sig)
            print("expected :", expected)
            print("observed :", observed)
        G.cleanup_private_tmp()
        return bool(vs)
    if isinstance(case, str) and case.startswith("c"):
        print("model reply:", ctx.driver.ask1(case))
        print("stored expected/observed:", rec.get("expected"), rec.get("observed"))
        return True
    print(rec)
    return False
