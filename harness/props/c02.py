"""C02 — a commit is atomic with respect to process crashes."""
import os
import random
import re
import shutil
import tempfile
import time

from vcheck import sexp, parse_sexp
from gen import tracefs as T
from whoosh.codec.base import Segment
from whoosh.filedb.filestore import RamStorage

ID = "C02"
LEVEL = "proof"
LEAN_IMPORTS = ["WM.Props.C02"]
THEOREMS = ["WM.C02.crash_atomic", "WM.C02.cancel", "WM.C02.commit", "WM.C02.orphans_removed",
            "WM.C02.next_commit", "WM.C02.pattern", "WM.C02.consistent_at",
            "WM.C02.segFiles_segOf", "WM.C02.clean_codec", "WM.C02.toc_tmp_leaks",
            "WM.C02.committed_files_untouched", "WM.C02.committed_files_untouched_commit"]
PARTIAL = {}
RULE = ("histories of random writer transactions (adds/deletes/updates/schema changes, every merge policy, "
        "compound and loose segments, commit/cancel/failing with-block) on a tracing FileStorage, plus scripted "
        "histories (five small segments then really merging default commits; a field with a column of its own added, "
        "given values in loose/compound segments and removed again by a committing / cancelled / failing writer); one case = "
        "one crash point (event boundary x truncation of the files open there) re-opened with the real API; "
        "non-trivial = the crash point lies inside the transaction (not before its first or after its last "
        "event) of a transaction that writes at least one file; distinct = distinct (canonical trace prefix, "
        "truncation). Pattern/recovery/clean-up functions: generated listings incl. near-miss names.")
ASSUMPTIONS = [
    "a file that was closed before the process died is complete on disk (process crash, not power loss; no fsync modelling)",
    "os.rename is atomic; os.remove / open('wb') behave as POSIX says",
    "the index name contains no regex metacharacters (it is interpolated into the TOC/segment patterns)",
    "in the trace requests the files of a loose segment are the names of the directory listing that start with its id "
    "(`<id>.seg` for compound ones); the codec-files stream ties that listing to the Lean model of the codec's own file "
    "list (FS.segFiles: .trm, .pst, one .<column>.col per column the per-document writer created, .vps), where which columns "
    "exist is computed from the schema and the documents by the harness (TEXT with a value: _<f>_len; vector=True: "
    "_<f>_vec, _<f>_vecL and .vps; sortable NUMERIC with a value: <f>; _stored always)",
    "the index name starts with a character other than '_' and '.' (GoodIx, hypothesis of clean_codec / toc_tmp_leaks)",
]
TRUSTED = ["harness-side TracingFileStorage subclass (event log, boundary hook, snapshot copier)"]
MANIFEST = {
    "level_text": "Lean theorems over all storage traces accepted by the decidable commit-protocol predicates "
                  "(every crash point, every truncation of open files, any junk left by earlier crashes): recovery "
                  "yields exactly old or new, readable; cancel leaves old; the next protocol-following commit with the "
                  "clean_files pass leaves no orphan. The predicates are evaluated by the compiled Lean driver on the "
                  "storage traces of real writer transactions, the model's recovery is compared with the real re-open "
                  "at every crash point, and every crash snapshot is re-opened, dumped, written to and inspected with "
                  "the real public API.",
    "level_note": "Proof is about the abstract file system + protocol predicates; that real traces satisfy the predicates "
                  "is checked per run on generated transactions, not proved. Process death only (no power loss/fsync), "
                  "POSIX rename atomicity and flock release on death are assumptions.",
    "technique": "machine-checked proof in Lean 4 over an executable model + trace-predicate correspondence + real crash-point enumeration",
}

IX = T.INDEXNAME


# ------------------------------------------------------------------------------------------------
# worker: one history of transactions with crash-point enumeration

def _later_writer(snap, want_trace):
    """A fresh writer on the re-opened crashed directory commits one more document; returns what
    is needed for the orphan inspection and (optionally) its storage trace."""
    from whoosh import index
    out = {}
    st = T.TracingFileStorage(snap)
    st.tracer.enabled = False
    try:
        entries0 = T.dir_entries(st, IX, torn=())
        out["listing0"] = sorted(os.listdir(snap))
        ix = index.FileIndex(st, indexname=IX)
        gen0 = ix.latest_generation()
        old = T.toc_info(st, IX, gen0)
        st.tracer.enabled = bool(want_trace)
        w = ix.writer()
        w.add_document(k=u"kz", t=u"zulu", g=u"alfa", n=99)
        w.commit()
        st.tracer.finish()
        st.tracer.enabled = False
        gen1 = ix.latest_generation()
        new = T.toc_info(st, IX, gen1)
        r = ix.reader()
        try:
            d = T.dump_reader(r)
        finally:
            r.close()
        out.update(gen0=gen0, gen1=gen1, new=new, old=old, keys=T.dump_keys(d),
                   listing=sorted(os.listdir(snap)), sub={n: sorted(os.listdir(os.path.join(snap, n)))
                                                        for n in os.listdir(snap)
                                                        if os.path.isdir(os.path.join(snap, n))})
        if want_trace:
            tmp = None
            for ev in st.tracer.events:
                if ev[1] == "rename":
                    tmp = ev[2]
            out["trace"] = {"entries": entries0, "events": st.tracer.events, "tmp": tmp}
    except Exception as e:  # noqa
        out["error"] = "%s: %s" % (T.errname(e), str(e)[:200])
    return out


def _eval_snapshot(snap, later, want_trace):
    from whoosh import index
    res = {}
    try:
        ix = index.open_dir(snap, indexname=IX)
        res["gen"] = ix.latest_generation()
        r = ix.reader()
        try:
            res["dump"] = T.dump_reader(r)
        finally:
            r.close()
        s = ix.searcher()
        try:
            from whoosh.query import Term, Every
            res["search"] = sorted(hit["k"] for hit in s.search(Every(), limit=None))
        finally:
            s.close()
    except Exception as e:  # noqa
        res["error"] = "%s: %s" % (T.errname(e), str(e)[:200])
        return res
    if later:
        res["later"] = _later_writer(snap, want_trace)
    return res


def history_job(job):
    """Runs in a worker process.  job = dict(seed, ntxn, full, scratch, mutate)."""
    try:
        return _history_job(job)
    except Exception as e:  # noqa
        import traceback
        return {"seed": job["seed"], "txns": [], "fatal": "%s: %s" % (T.errname(e), str(e)[:200]),
                "tb": traceback.format_exc()[-1500:]}


def _history_job(job):
    from whoosh import index
    rng = random.Random(job["seed"])
    base = tempfile.mkdtemp(prefix="c02-", dir=job["scratch"])
    d = os.path.join(base, "ix")
    os.makedirs(d)
    out = {"seed": job["seed"], "txns": [], "planned": job["ntxn"], "pre": job.get("pre", 0)}
    try:
        st = T.TracingFileStorage(d, supports_mmap=rng.random() < 0.7)
        tr = st.tracer
        tr.enabled = False
        index.FileIndex.create(st, T.make_schema(), IX)
        ix = index.FileIndex(st, indexname=IX)   # no schema override: the TOC's schema is used
        # some histories start at a higher generation, so that the transactions cross a change in
        # the number of digits of the generation (9 -> 10, 99 -> 100)
        for _ in range(job.get("pre", 0)):
            ix.writer().commit()
        docs = {}
        state = {"next": 0, "live": []}
        snapno = [0]
        for ti in range(job["ntxn"]):
            # wall-clock bound of the enumeration: no new transaction after the deadline (the one
            # in progress is always finished); the parent records how many were done
            force = job.get("force", [None] * job["ntxn"])[ti] if job.get("force") else None
            if job.get("deadline") and time.time() > job["deadline"] and not job.get("nodeadline") \
                    and not (force and force.get("must")):
                out["stopped"] = True
                break
            # set-up transactions of scripted histories are run without the crash-point enumeration
            nosnap = bool(force and force.get("nosnap"))
            if force:
                force = dict((k_, v_) for k_, v_ in force.items() if k_ not in ("nosnap", "must"))
            txn = T.gen_txn(rng, state, force=force)
            entries0 = T.dir_entries(st, IX)
            gen_old = ix.latest_generation()
            old_info = T.toc_info(st, IX, gen_old)
            r0 = ix.reader()
            dump_old = T.dump_reader(r0)
            r0.close()
            snaps = []     # (boundary k, variant, {name: status}, evaluation)
            later_stride = job["later_stride"]
            trunc_rng = random.Random(job["seed"] + ":t%d" % ti)

            def hook(tracer, k):
                tracer.flush_open_files()
                openf = {n: f.written for n, f in tracer.open_w.items()}
                variants = [("full", None)]
                if any(openf.values()):
                    allv = [("zero", lambda w: 0), ("one", lambda w: min(1, w)),
                            ("half", lambda w: w // 2), ("allbut1", lambda w: max(0, w - 1))]
                    if job["full"]:
                        variants += allv
                    else:
                        variants.append(trunc_rng.choice(allv))
                for vname, fn in variants:
                    trunc = None
                    if fn is not None:
                        trunc = {}
                        for n, wr in openf.items():
                            # length on disk (flushed) may exceed a prefix of what was written only
                            # through seeks; a prefix of the current content is what survives
                            trunc[n] = fn(wr)
                    snap = os.path.join(base, "s%d" % snapno[0])
                    snapno[0] += 1
                    T.snapshot_dir(d, snap, truncate=trunc)
                    later = (k % later_stride == 0) or vname != "full" and trunc_rng.random() < 0.3
                    ev = _eval_snapshot(snap, later, want_trace=later and trunc_rng.random() < job["trace_share"])
                    ev["torn"] = sorted(openf)
                    shutil.rmtree(snap, ignore_errors=True)
                    snaps.append((k, vname, ev))

            tr.events[:] = []
            tr.enabled = True
            tr.hook = None if nosnap else hook
            err = None
            try:
                outcome = T.run_txn(ix, txn)
            except Exception as e:  # noqa
                outcome = "error"
                err = "%s: %s" % (T.errname(e), str(e)[:200])
            tr.finish()
            tr.hook = None
            tr.enabled = False
            events = list(tr.events)
            gen_new = ix.latest_generation()
            new_info = T.toc_info(st, IX, gen_new)
            r1 = ix.reader()
            dump_new = T.dump_reader(r1)
            r1.close()
            docs_new = T.model_apply(docs, txn)
            tmp = None
            for ev in events:
                if ev[1] == "rename":
                    tmp = ev[2]
            out["txns"].append({
                "txn": txn, "outcome": outcome, "error": err, "entries0": entries0,
                "old": old_info, "new": new_info, "tmp": tmp, "events": events,
                "dump_old": dump_old, "dump_new": dump_new,
                "model_old": T.stored_of_model(docs), "model_new": T.stored_of_model(docs_new),
                "snaps": snaps, "listing_end": sorted(os.listdir(d)),
            })
            docs = docs_new
            state["live"] = sorted(int(k[1:]) for k in docs)
    finally:
        shutil.rmtree(base, ignore_errors=True)
    return out


# ------------------------------------------------------------------------------------------------
# parent side: Lean requests and comparisons

def canon_events(events):
    """Canonical form of a trace for distinctness: segment ids and temp names replaced by their
    order of first appearance, byte counts dropped."""
    ren = {}

    def cn(name):
        def sub(m):
            return ren.setdefault(m.group(0), "s%d" % len(ren))
        name = re.sub(r"%s_[0-9a-z]{16}" % IX, sub, name)
        name = re.sub(r"\.toc\.[0-9.]+$", ".toc.T", name)
        name = re.sub(r"/[0-9a-z]+\.(ctmp|run)$", r"/R.\1", name)
        return name
    return tuple((e[1],) + tuple(cn(x) if isinstance(x, str) else None for x in e[2:3]) for e in events)


def _commit_request(txn_rec, entries, events, old, new, tmp):
    tab = T.NameTable()
    fs = T.fs_sexp(tab, entries)
    o = T.toc_sexp(tab, old)
    if tmp is None:
        evs, _ = T.events_sexp(tab, events)
        return "c02 cancel %s %s %s %s %s" % (T.name_sexp(IX), "%s", o, fs, evs), tab, None
    n = T.toc_sexp(tab, new)
    evs, ins = T.events_sexp(tab, events, tmp=tmp, newinfo=new)
    ti = tab(tmp)
    return "c02 commit %s %s %s %s %d %s %s" % (T.name_sexp(IX), "%s", o, n, ti, fs, evs), tab, ins


def _finish(req, tab):
    return req % tab.sexp()


def _check_history(ctx, h, stream):
    reqs = []      # (kind, payload, request line)
    if h.get("fatal"):
        ctx.violation("index-setup-or-harness-step-raises", {"seed": h["seed"]}, "history runs", h["fatal"], h["tb"])
    for ti, t in enumerate(h["txns"]):
        txn, events = t["txn"], t["events"]
        ctx.stat("%s:outcome:%s" % (stream, t["outcome"]))
        ctx.stat("%s:merge:%s" % (stream, txn["merge"]))
        ctx.stat("%s:compound:%s" % (stream, txn["compound"]))
        for ev in events:
            ctx.stat("event:" + ev[1])
        if t["error"]:
            ctx.violation("writer-transaction-raises", {"seed": h["seed"], "pre": h.get("pre", 0), "txn": ti, "spec": txn},
                          "transaction completes", t["error"], "a plain writer transaction raised")
            continue
        # dictionary model vs the completed transaction (C07-style sanity of old/new themselves)
        if t["dump_new"]["stored"] != t["model_new"]:
            ctx.violation("commit-result!=dictionary-model", {"seed": h["seed"], "pre": h.get("pre", 0), "txn": ti, "spec": txn},
                          t["model_new"], t["dump_new"]["stored"],
                          "stored documents after the completed transaction differ from the dictionary model")
        committed = t["tmp"] is not None
        if committed != (t["outcome"] == "commit"):
            ctx.violation("toc-rename-presence", {"seed": h["seed"], "pre": h.get("pre", 0), "txn": ti, "spec": txn},
                          t["outcome"], "rename" if committed else "no rename",
                          "a TOC was published by a cancelled writer, or none by a committing one")
        if committed and t["new"][0] != t["old"][0] + 1:
            ctx.violation("generation-step", {"seed": h["seed"], "pre": h.get("pre", 0), "txn": ti}, t["old"][0] + 1, t["new"][0])
        # 1. the protocol predicate on the real trace
        req, tab, ins = _commit_request(t, t["entries0"], events, t["old"], t["new"], t["tmp"])
        # 2. the model's recovery at every boundary
        ks = sorted(set(k for k, _v, _e in t["snaps"]))

        def mk(k):
            return k + 1 if (ins is not None and k >= ins) else k
        tab2 = T.NameTable()
        fs2 = T.fs_sexp(tab2, t["entries0"])
        evs2, ins2 = T.events_sexp(tab2, events, tmp=t["tmp"], newinfo=t["new"] if committed else None)
        rec = "c02 recover %s %s %s %s (%s)" % (T.name_sexp(IX), tab2.sexp(), fs2, evs2,
                                                " ".join(str(mk(k)) for k in ks))
        reqs.append(("commit", (h, ti, t), _finish(req, tab)))
        reqs.append(("recover", (h, ti, t, ks), rec))
        tab4 = T.NameTable()
        evs4, _ = T.events_sexp(tab4, events)
        reqs.append(("delmatched", (h, ti, t), "c02 delmatched %s %s %s" % (T.name_sexp(IX), tab4.sexp(), evs4)))
        # 3. later writers on crashed snapshots
        for k, vname, ev in t["snaps"]:
            lt = ev.get("later")
            if lt and "trace" in lt and "error" not in lt:
                trc = lt["trace"]
                entries = [(n, ("t" if n in ev["torn"] else st_), ln, ti_)
                           for n, st_, ln, ti_ in trc["entries"]]
                r2, tab3, _ = _commit_request(None, entries, trc["events"], lt["old"], lt["new"], trc["tmp"])
                reqs.append(("later", (h, ti, t, k, vname), _finish(r2, tab3)))
            if lt and "error" not in lt:
                reqs.append(("clean", (h, ti, t, k, vname, lt),
                             "c02 clean %s %d (%s) (%s)" % (
                                 T.name_sexp(IX), lt["new"][0],
                                 " ".join(T.name_sexp(s[0]) for s in lt["new"][2]),
                                 " ".join(T.name_sexp(n) for n in lt["listing"]))))
    return reqs


def _judge(ctx, reqs, answers, stream):
    for (kind, payload, line), ans in zip(reqs, answers):
        if kind == "commit":
            h, ti, t = payload
            committed = t["tmp"] is not None
            want = "ok post 1" if committed else "ok"
            if ans != want:
                ctx.divergence("SafeCommitTrace" if committed else "SafeCancelTrace",
                               {"seed": h["seed"], "pre": h.get("pre", 0), "txn": ti, "spec": t["txn"],
                                "events": [list(e) for e in t["events"]][:400]},
                               want, ans)
        elif kind == "delmatched":
            h, ti, t = payload
            ctx.stat("delmatched-traces")
            ctx.stat("delmatched:" + ans)
            if ans != "1":
                # only a hypothesis of C02.toc_tmp_leaks (every delete hits a pattern-matched name or the temp
                # storage): a writer that also deletes other names is not wrong for that; what the theorem
                # concludes is checked on the real directory (toc-temp-file:fate-differs-from-model)
                ctx.note("a writer trace deletes names matched by neither pattern nor in the temp storage: %r"
                         % ([e[2] for e in t["events"] if e[1] == "delete"][:6],))
        elif kind == "later":
            h, ti, t, k, vname = payload
            ctx.stat("later-writer-traces")
            if ans != "ok post 1":
                ctx.divergence("SafeCommitTrace+CleansOrphans(later writer)",
                               {"seed": h["seed"], "pre": h.get("pre", 0), "txn": ti, "boundary": k, "variant": vname}, "ok post 1", ans)
        elif kind == "clean":
            h, ti, t, k, vname, lt = payload
            ctx.stat("orphan-inspections")
            if ans != "()":
                left = ["".join(chr(int(c)) for c in n) for n in parse_sexp(ans)[0]]
                ctx.violation("orphans-left-after-next-commit",
                              {"seed": h["seed"], "pre": h.get("pre", 0), "txn": ti, "boundary": k, "variant": vname, "spec": t["txn"]},
                              [], left, "files of unreferenced segments / stale TOCs survive the next commit")
            if any(lt["sub"].values()) or lt["sub"]:
                ctx.stat("temp-dir-left")
        elif kind == "recover":
            h, ti, t, ks = payload
            pred = dict(zip(ks, parse_sexp(ans)[0]))
            _judge_snaps(ctx, h, ti, t, pred, stream)


def _judge_snaps(ctx, h, ti, t, pred, stream):
    events = t["events"]
    nwrites = sum(1 for e in events if e[1] in ("create", "write", "close", "rename", "delete"))
    canon = canon_events(events)
    old_gen, new_gen = t["old"][0], t["new"][0]
    ren_at = None
    for i, e in enumerate(events):
        if e[1] == "rename":
            ren_at = i
    for k, vname, ev in t["snaps"]:
        inside = 0 < k < len(events) and nwrites > 0
        ctx.case(("crash", canon[:k], vname, t["txn"]["merge"], t["txn"]["compound"]), nontrivial=inside)
        ctx.stat("%s:crash-points" % stream)
        ctx.stat("variant:" + vname)
        case = {"seed": h["seed"], "pre": h.get("pre", 0), "txn": ti, "boundary": k, "of": len(events), "variant": vname,
                "next_event": list(events[k]) if k < len(events) else None, "spec": t["txn"]}
        after = ren_at is not None and k > ren_at
        want_gen = new_gen if after else old_gen
        want_dump = t["dump_new"] if after else t["dump_old"]
        mp = pred.get(k)
        if "error" in ev:
            ctx.violation("reopen-after-crash-raises:" + ("after-rename" if after else "before-rename"),
                          case, "index opens", ev["error"], "open_dir/dump of the crash snapshot raised")
            continue
        # model prediction vs real re-open (correspondence of step/crash/readToc)
        if mp is None or mp[0] != "ok" or int(mp[1]) != ev["gen"] or mp[2] != "1":
            ctx.divergence("recover(crash(run))", case, mp, ["ok", ev["gen"]])
        if ev["gen"] != want_gen:
            ctx.violation("recovered-generation:" + ("after-rename" if after else "before-rename"), case,
                          want_gen, ev["gen"], "re-opened index is neither at the expected generation")
        if ev["dump"] != want_dump:
            which = "old" if ev["dump"] == t["dump_old"] else "new" if ev["dump"] == t["dump_new"] else "mixture"
            parts = sorted(p for p in set(want_dump) | set(ev["dump"]) if want_dump.get(p) != ev["dump"].get(p))
            ctx.violation("recovered-content-is-%s:%s" % (which, "after-rename" if after else "before-rename"),
                          case, T.dump_keys(want_dump), T.dump_keys(ev["dump"]),
                          "content of the re-opened index differs from the committed state it must show "
                          "(differing parts of the dump: %s)" % ", ".join(parts))
        if ev["search"] != sorted(T.dump_keys(want_dump)):
            ctx.violation("search-after-crash", case, sorted(T.dump_keys(want_dump)), ev["search"])
        lt = ev.get("later")
        if lt is not None:
            ctx.stat("later-writers")
            if "error" in lt:
                ctx.violation("later-writer-raises", case, "commit succeeds", lt["error"],
                              "a fresh writer on the crashed directory could not commit")
                continue
            if lt["gen1"] != lt["gen0"] + 1 or lt["gen0"] != ev["gen"]:
                ctx.violation("later-writer-generation", case, ev["gen"] + 1, lt["gen1"])
            # the model's statement about leaked TOC temp files (C02.toc_tmp_leaks): the later writer removes
            # none of them and leaves none of its own
            tpat = re.compile(r"^_%s_[0-9]+\.toc\." % IX)
            t0 = sorted(n for n in lt.get("listing0", []) if tpat.match(n))
            t1 = sorted(n for n in lt["listing"] if tpat.match(n))
            ctx.stat("toc-temp:leaked-before-later-writer", len(t0))
            if t0:
                ctx.stat("toc-temp:later-writers-on-a-directory-with-a-leaked-temp")
            if t0 != t1:
                ctx.violation("toc-temp-file:fate-differs-from-model(toc_tmp_leaks)", case, t0, t1,
                              "TOC temp files after the next commit are not exactly the leaked ones")
            wantk = sorted(set(T.dump_keys(want_dump)) | {"kz"})
            if sorted(lt["keys"]) != wantk:
                ctx.violation("later-writer-lost-or-mixed-documents", case, wantk, sorted(lt["keys"]),
                              "documents after the next commit are not committed-state + the new document")
    ctx.sample({"seed": h["seed"], "txn": t["txn"]["merge"], "compound": t["txn"]["compound"],
                "events": len(events), "crash_points": len(t["snaps"])}, cap=4)


def _histories(ctx, stream, njobs, ntxn, full, later_stride, trace_share, scratch, seeds=None, force=None,
               deadline=None, pre=0, forces=None):
    jobs = []
    for i in range(njobs):
        jobs.append({"seed": seeds[i] if seeds else "%s:%s:%s:%d" % (ID, ctx.seed, stream, i),
                     "ntxn": len(forces[i % len(forces)]) if forces else ntxn,
                     "full": full, "scratch": scratch, "later_stride": later_stride,
                     "trace_share": trace_share, "force": forces[i % len(forces)] if forces else force,
                     "deadline": deadline,
                     "pre": pre if seeds else [0, 8, 0, 9, 0, 0, 98, 7][i % 8],
                     # replays and the first history always run in full
                     "nodeadline": bool(seeds) or i == 0})
    results = ctx.pmap(history_job, jobs)
    planned = sum(h.get("planned", ntxn) for h in results)
    done = sum(len(h["txns"]) for h in results)
    ctx.stat("%s:transactions-planned" % stream, planned)
    ctx.stat("%s:transactions-done" % stream, done)
    ctx.stat("%s:histories-cut-by-deadline" % stream, sum(1 for h in results if h.get("stopped")))
    if done < planned:
        ctx.note("%s stream: wall-clock bound reached, %d of %d planned transactions enumerated (%d histories cut)"
                 % (stream, done, planned, sum(1 for h in results if h.get("stopped"))))
    reqs = []
    for h in results:
        reqs.extend(_check_history(ctx, h, stream))
    answers = ctx.driver.ask_parallel([r[2] for r in reqs])
    _judge(ctx, reqs, answers, stream)
    return results


# ------------------------------------------------------------------------------------------------
# correspondence of the small functions: patterns, _latest_generation, clean_files

def _gen_name(rng, ix):
    digits = "".join(rng.choice("0123456789") for _ in range(rng.choice([1, 1, 2, 3, 7])))
    sid = "".join(rng.choice("0123456789abcdefghijklmnopqrstuvwxyz") for _ in range(rng.choice([1, 4, 16])))
    ext = rng.choice(["seg", "trm", "pst", "vps", "_stored.col", "n.col", "x", "A_b.c", ""])
    forms = [
        "_%s_%s.toc" % (ix, digits), "_%s_%s.toc.%s" % (ix, digits, rng.random()), "_%s_%sxtoc" % (ix, digits),
        "_%s_%s.toc\n" % (ix, digits), "_%s_%s\ntoc" % (ix, digits), "_%s_%stoc" % (ix, digits),
        "_%s_.toc" % ix, "_%s_%s.tocx" % (ix, digits), "_%s_0%s.toc" % (ix, digits), "%s_%s.toc" % (ix, digits),
        "_%s_%s.toc\n\n" % (ix, digits), "_%sx_%s.toc" % (ix, digits), "_%s_%s.TOC" % (ix, digits),
        "%s_%s.%s" % (ix, sid, ext), "%s_%s%s" % (ix, sid, ext), "%s_%s..%s" % (ix, sid, ext),
        "%s_%s.-%s" % (ix, sid, ext), "%s_%sA.%s" % (ix, sid, ext), "%s_.%s" % (ix, ext),
        "x%s_%s.%s" % (ix, sid, ext), "%s_WRITELOCK" % ix, "%s.tmp" % ix, ".%s_%s.%s" % (ix, sid, ext),
        "_%s_%s.toc.tmp" % (ix, digits), "%s_%s.seg" % (ix, sid), "%s_%s._stored.col" % (ix, sid),
        "".join(rng.choice("_.%sabz019\n" % ix) for _ in range(rng.randint(0, 12))),
    ]
    return rng.choice(forms)


def _patterns(ctx):
    from whoosh.index import TOC
    rng = ctx.rng("patterns")
    n = ctx.budget(4000, 60000)
    cases = []
    for _ in range(n):
        ix = rng.choice(["MAIN", "MAIN", "ix2", "a", "T0"])
        cases.append((ix, _gen_name(rng, ix)))
    ans = ctx.driver.ask(["c02 tocgen %s %s" % (T.name_sexp(ix), T.name_sexp(nm)) for ix, nm in cases] +
                         ["c02 segof %s %s" % (T.name_sexp(ix), T.name_sexp(nm)) for ix, nm in cases])
    for i, (ix, nm) in enumerate(cases):
        m = TOC._pattern(ix).match(nm)
        impl = str(int(m.group(1))) if m else "none"
        ctx.case(("tocgen", ix, nm), nontrivial=m is not None)
        ctx.stat("pattern:toc-match" if m else "pattern:toc-nomatch")
        if ans[i] != impl:
            ctx.divergence("TOC._pattern", [ix, nm], ans[i], impl)
        m2 = TOC._segment_pattern(ix).match(nm)
        impl2 = T.name_sexp(m2.group(1)) if m2 else "none"
        ctx.case(("segof", ix, nm), nontrivial=m2 is not None)
        ctx.stat("pattern:seg-match" if m2 else "pattern:seg-nomatch")
        if ans[n + i] != impl2:
            ctx.divergence("TOC._segment_pattern", [ix, nm], ans[n + i], impl2)
    # file names
    gens = list(range(0, 300)) + [rng.getrandbits(rng.randint(1, 64)) for _ in range(300)]
    out = ctx.driver.ask(["c02 tocname %s %d" % (T.name_sexp("MAIN"), g) for g in gens])
    for g, a in zip(gens, out):
        ctx.case(("tocname", g), nontrivial=g >= 10)
        if a != T.name_sexp(TOC._filename("MAIN", g)):
            ctx.divergence("TOC._filename", g, a, TOC._filename("MAIN", g))
        # end to end: the name the writer will use is found again, its temp name is not
        tmpname = "%s.%s" % (TOC._filename("MAIN", g), rng.random() * 1e9)
        if not TOC._pattern("MAIN").match(TOC._filename("MAIN", g)) or TOC._pattern("MAIN").match(tmpname):
            ctx.violation("TOC.write:temp-name-matches-pattern", [g, tmpname], "final matches, temp does not", "?")


class _ListStorage(RamStorage):
    """A directory listing as a storage for `_latest_generation` / `clean_files`: a real RamStorage (the
    whole public storage interface works on it) holding one empty file per listed name; deletions are
    recorded."""

    def __init__(self, names):
        RamStorage.__init__(self)
        for n in names:
            self.files[n] = b""
        self.deleted = []

    def delete_file(self, n):
        self.deleted.append(n)
        return RamStorage.delete_file(self, n)


class _Seg(Segment):
    """A segment of the current TOC, known by its id only (subclass of the codec's Segment base class)."""

    def __init__(self, indexname, sid):
        Segment.__init__(self, indexname)
        self.sid = sid
        if sid.startswith(indexname + "_"):
            self.segid = sid[len(indexname) + 1:]

    def codec(self):
        from whoosh.codec import default_codec
        return default_codec()

    def segment_id(self):
        return self.sid

    def doc_count_all(self):
        return 0

    def doc_count(self):
        return 0

    def deleted_count(self):
        return 0

    def has_deletions(self):
        return False

    def deleted_docs(self):
        return iter(())

    def is_deleted(self, docnum):
        return False

    def delete_document(self, docnum, delete=True):
        raise NotImplementedError


def _listings(ctx):
    from whoosh.index import TOC, clean_files
    rng = ctx.rng("listings")
    n = ctx.budget(1500, 20000)
    cases = []
    for _ in range(n):
        ix = rng.choice(["MAIN", "MAIN", "ix2"])
        names = []
        for _ in range(rng.randint(0, 10)):
            names.append(_gen_name(rng, ix))
        names = list(dict.fromkeys(names))
        segids = list({m.group(1) for m in (TOC._segment_pattern(ix).match(x) for x in names) if m})
        cur = [s for s in segids if rng.random() < 0.5]
        gen = rng.choice([0, 1, 2, 5, 12, 33])
        cases.append((ix, names, cur, gen))
    ans = ctx.driver.ask(
        ["c02 latest %s (%s)" % (T.name_sexp(ix), " ".join(T.name_sexp(x) for x in names)) for ix, names, _, _ in cases] +
        ["c02 clean %s %d (%s) (%s)" % (T.name_sexp(ix), gen, " ".join(T.name_sexp(s) for s in cur),
                                        " ".join(T.name_sexp(x) for x in names)) for ix, names, cur, gen in cases])
    for i, (ix, names, cur, gen) in enumerate(cases):
        st = _ListStorage(names)
        impl = TOC._latest_generation(st, ix)
        ctx.case(("latest", ix, tuple(names)), nontrivial=impl >= 0)
        if ans[i] != (str(impl) if impl >= 0 else "none"):
            ctx.divergence("TOC._latest_generation", [ix, names], ans[i], impl)
        clean_files(st, ix, gen, [_Seg(ix, s) for s in cur])
        model = ["".join(chr(int(c)) for c in nm) for nm in parse_sexp(ans[n + i])[0]]
        ctx.case(("clean", ix, tuple(names), tuple(cur), gen), nontrivial=bool(st.deleted))
        ctx.stat("clean:deleted", len(st.deleted))
        if sorted(model) != sorted(st.deleted):
            ctx.divergence("clean_files", [ix, names, cur, gen], sorted(model), sorted(st.deleted))


# ------------------------------------------------------------------------------------------------
# the codec's file list: FS.segFiles / FS.listFiles vs real segments (compound and loose), and
# clean_files end to end on loose segments whose column files carry unusual field names

NUMNAMES = [u"n", u"N2", u"9z", u"a-b", u"\xe9t", u"\u540d", u"x.y", u"+p"]
TXTNAMES = [u"t", u"Body", u"t\xe4"]


def codec_job(job):
    try:
        return _codec_job(job)
    except Exception as e:  # noqa
        import traceback
        return {"seed": job["seed"], "fatal": "%s: %s" % (T.errname(e), str(e)[:200]), "tb": traceback.format_exc()[-1500:]}


def _codec_job(job):
    from whoosh import index, fields
    from whoosh.filedb.filestore import FileStorage
    rng = random.Random(job["seed"])
    base = tempfile.mkdtemp(prefix="c02c-", dir=job["scratch"])
    try:
        st = FileStorage(base)
        schema = fields.Schema(k=fields.ID(stored=rng.random() < 0.8, unique=True))
        nums = rng.sample(NUMNAMES, rng.randint(0, 3))
        txts = [(n, rng.random() < 0.6) for n in rng.sample(TXTNAMES, rng.randint(0, 2))]
        for n in nums:
            schema.add(n, fields.NUMERIC(sortable=True))
        for n, vec in txts:
            schema.add(n, fields.TEXT(vector=vec, stored=rng.random() < 0.5))
        ix = st.create_index(schema, indexname=IX)
        out = {"seed": job["seed"], "commits": []}
        key = 0
        ncommits = rng.randint(1, 3)
        for ci in range(ncommits):
            compound = rng.random() < 0.4
            w = ix.writer(compound=compound)
            docs = []
            for _ in range(rng.randint(1, 3)):
                d = {"k": u"k%d" % key}
                key += 1
                for n in nums:
                    if rng.random() < 0.7:
                        d[n] = rng.randint(0, 9)
                for n, _v in txts:
                    if rng.random() < 0.7:
                        d[n] = u" ".join(rng.choice(T.WORDS) for _ in range(rng.randint(1, 3)))
                w.add_document(**d)
                docs.append(d)
            last = ci == ncommits - 1
            merge = "optimize" if (last and ncommits > 1 and rng.random() < 0.7) else "nomerge"
            if merge == "optimize":
                w.commit(optimize=True)
            else:
                w.commit(merge=False)
            # the shape of the segment this writer wrote, from the schema and the documents only
            toc = index.TOC.read(st, IX)
            listing = sorted(st.list())
            segs = []
            for seg in toc.segments:
                sid = seg.segment_id()
                if seg.is_compound():
                    cs = seg.open_compound_file(st)
                    inner = sorted(cs.list())
                    cs.close()
                else:
                    inner = None
                segs.append({"sid": sid, "segid": seg.segid, "compound": bool(seg.is_compound()),
                             "list_files": sorted(seg.list_files(st)), "inner": inner})
            out["commits"].append({"compound": compound, "merge": merge, "docs": docs, "listing": listing,
                                   "segs": segs, "gen": toc.generation})
        out["schema"] = {"stored_k": bool(schema["k"].stored), "nums": nums, "txts": txts,
                         "stored_t": {n: bool(schema[n].stored) for n, _v in txts}}
        return out
    finally:
        shutil.rmtree(base, ignore_errors=True)


def _shape_columns(schema, docs):
    """which columns the per-document writer creates for these documents (harness-side rule, see ASSUMPTIONS)"""
    cols = set(["_stored"])      # W3PerDocWriter.__init__ creates the stored-fields column unconditionally
    vectors = False
    for d in docs:
        for n in schema["nums"]:
            if n in d:
                cols.add(n)
        for n, vec in schema["txts"]:
            if n in d:
                cols.add("_%s_len" % n)
                if vec:
                    cols.add("_%s_vec" % n)
                    cols.add("_%s_vecL" % n)
                    vectors = True
    return sorted(cols), vectors


def _codec_files(ctx, scratch, seeds=None):
    n = ctx.budget(48, 400)
    jobs = [{"seed": "%s:%s:codec:%d" % (ID, ctx.seed, i), "scratch": scratch} for i in range(n)]
    if seeds:
        jobs = [{"seed": sd, "scratch": scratch} for sd in seeds]
    results = ctx.pmap(codec_job, jobs)
    lines, keep = [], []
    for r in results:
        if r.get("fatal"):
            ctx.violation("codec-files-stream:writer-raises", {"seed": r["seed"]}, "runs", r["fatal"], r["tb"])
            continue
        alldocs = []
        for ci, c in enumerate(r["commits"]):
            alldocs += c["docs"]
            cur = set(s["sid"] for s in c["segs"])
            case = {"seed": r["seed"], "commit": ci, "merge": c["merge"], "compound": c["compound"],
                    "fields": r["schema"]["nums"] + [x for x, _ in r["schema"]["txts"]]}
            # end to end: after the commit every file that carries a segment id belongs to a segment of
            # the TOC (pattern-independent test: prefix `<ix>_`), i.e. clean_files left no orphan
            left = [f for f in c["listing"] if f.startswith(IX + "_") and f != IX + "_WRITELOCK"
                    and not any(f.startswith(sid + ".") for sid in cur)]
            ctx.case(("codec-clean", tuple(case["fields"]), c["merge"], c["compound"]),
                     nontrivial=c["merge"] == "optimize")
            if left:
                ctx.violation("clean_files:file-of-unreferenced-segment-left", case, [], left,
                              "files of segments the new TOC does not reference survive the commit's clean-up")
            # the segment written by this commit: the newest one (optimize: the only one)
            seg = c["segs"][-1]
            docs = alldocs if c["merge"] == "optimize" else c["docs"]
            cols, vectors = _shape_columns(r["schema"], docs)
            ctx.stat("codec:segment:" + ("compound" if seg["compound"] else "loose"))
            ctx.stat("codec:columns", len(cols))
            for comp in ([1, 0] if seg["compound"] else [0]):
                lines.append("c02 segfiles %s %s %d (%s) %d" % (T.name_sexp(IX), T.name_sexp(seg["segid"]), comp,
                                                                " ".join(T.name_sexp(x) for x in cols), 1 if vectors else 0))
                keep.append(("segfiles", case, seg, comp))
            lines.append("c02 listfiles %s (%s)" % (T.name_sexp(seg["sid"]), " ".join(T.name_sexp(x) for x in c["listing"])))
            keep.append(("listfiles", case, seg, None))
    answers = ctx.driver.ask(lines)
    for (kind, case, seg, comp), ans in zip(keep, answers):
        model = sorted("".join(chr(int(ch)) for ch in nm) for nm in parse_sexp(ans)[0])
        if kind == "listfiles":
            ctx.case(("listfiles", tuple(model)), nontrivial=bool(model))
            if model != seg["list_files"]:
                ctx.divergence("Segment.list_files", case, model, seg["list_files"])
            continue
        ctx.case(("segfiles", comp, tuple(case["fields"]), tuple(n[len(seg["sid"]):] for n in model)), nontrivial=len(model) > 2)
        if seg["compound"] and comp == 1:
            impl = seg["list_files"]          # what is in the directory: only <id>.seg
        elif seg["compound"]:
            impl = seg["inner"]               # what create_compound_file assembled: the loose files
        else:
            impl = seg["list_files"]
        if model != impl:
            ctx.divergence("W3 segment file list (FS.segFiles)", dict(case, as_compound=comp), model, impl)


# ------------------------------------------------------------------------------------------------

# scripted histories: the default merge policy (MERGE_SMALL) only merges once there are at least
# five small segments, which random 3-4 transaction histories hardly ever reach; here five
# non-merging commits are followed by default commits that really merge (and an optimize)
_FEW = [{"merge": "nomerge", "outcome": "commit", "schema": None}] * 5
MERGING_SCRIPT = _FEW + [{"merge": "default", "outcome": "commit", "schema": None},
                         {"merge": "default", "outcome": "commit"}, {"merge": "optimize", "outcome": "commit"}]


def _schema_script(loose1, second, loose2=None, snap_add=False):
    """schema-change histories: a field with a column of its own is added and gets values in a segment
    (loose or compound), then a transaction removes it again and commits / is cancelled / fails in its
    with-block, then the removal is committed.  Every boundary of the removing transactions is a crash
    point, so 'a schema change is invisible until the TOC rename' is looked at on per-field segment files
    as well as on the pickled schema.  (`snap_add`: the adding transaction is enumerated as well.)"""
    # "must": the transaction the script is about is enumerated even when the wall-clock bound is reached
    s2 = dict(second, schema="remove", must=True)
    if loose2 is not None:
        s2["compound"] = not loose2
    script = [{"merge": "nomerge", "outcome": "commit", "schema": None, "compound": not loose1, "min_adds": 1,
               "nosnap": True, "must": True},
              {"merge": "nomerge", "outcome": "commit", "schema": "add", "compound": not loose1, "min_adds": 2,
               "nosnap": not snap_add, "must": True},
              s2]
    if s2["outcome"] != "commit":
        # the removal was not committed: the schema still has the field, so it is removed once more
        script.append({"outcome": "commit", "schema": "remove"})
    return script


SCHEMA_SCRIPTS = [
    _schema_script(True, {"outcome": "cancel"}),
    _schema_script(True, {"outcome": "commit", "merge": "nomerge"}, loose2=True),
    _schema_script(True, {"outcome": "exception"}),
    _schema_script(True, {"outcome": "commit", "merge": "optimize"}, snap_add=True),
    _schema_script(False, {"outcome": "cancel"}),
    _schema_script(True, {"outcome": "commit", "merge": "default"}, loose2=False),
]


def _script_of(seed):
    """the script a scripted stream gave the history with this seed (replays rebuild it from the seed)"""
    parts = str(seed).split(":")
    if len(parts) < 4 or not parts[3].isdigit():
        return None
    if parts[2] in ("merging", "search-merging"):
        return MERGING_SCRIPT
    if parts[2] in ("schema", "search-schema"):
        return SCHEMA_SCRIPTS[int(parts[3]) % len(SCHEMA_SCRIPTS)]
    return None


def run(ctx):
    _corpus(ctx)
    _patterns(ctx)
    _listings(ctx)
    with ctx.scratch() as scratch:
        _codec_files(ctx, scratch)
    with ctx.scratch() as scratch:
        quick = ctx.tier == "quick"
        # the enumeration is bounded in wall-clock time (measured from the start of the check):
        # ~60 s quick / ~10 min thorough; boosted budgets and a loaded machine then mean fewer
        # transactions, not a longer run
        deadline = ctx.t0 + (36 if quick else 600)
        _histories(ctx, "main", njobs=ctx.budget(16, 48), ntxn=(3 if quick else 4) * ctx.boost, full=not quick,
                   later_stride=7 if quick else 4, trace_share=0.3 if quick else 0.4, scratch=scratch,
                   deadline=deadline)
        script = MERGING_SCRIPT
        ndiv = len(ctx.divergences) + len(ctx.violations)
        _histories(ctx, "schema", njobs=ctx.budget(len(SCHEMA_SCRIPTS), 3 * len(SCHEMA_SCRIPTS)),
                   ntxn=len(SCHEMA_SCRIPTS[0]), full=not quick, later_stride=7 if quick else 4,
                   trace_share=0.3 if quick else 0.4, scratch=scratch, forces=SCHEMA_SCRIPTS,
                   deadline=max(time.time(), deadline) + (10 if quick else 90))
        if len(ctx.divergences) + len(ctx.violations) > ndiv and not ctx.violations:
            _histories(ctx, "search-schema", njobs=len(SCHEMA_SCRIPTS), ntxn=len(SCHEMA_SCRIPTS[0]), full=True,
                       later_stride=2, trace_share=0.2, scratch=scratch, forces=SCHEMA_SCRIPTS,
                       deadline=max(time.time(), deadline) + (20 if quick else 120))
        _histories(ctx, "merging", njobs=ctx.budget(4, 12), ntxn=len(script), full=not quick,
                   later_stride=7 if quick else 4, trace_share=0.3 if quick else 0.4, scratch=scratch,
                   force=script, deadline=max(time.time(), deadline) + (16 if quick else 120))
        if ctx.stats.get("divergence:SafeCommitTrace", 0) or ctx.divergences or ctx.violations:
            # something is off: look for a failing input among *all* crash points of merging histories
            _histories(ctx, "search-merging", njobs=4, ntxn=len(script), full=True, later_stride=2,
                       trace_share=0.2, scratch=scratch, force=script,
                       deadline=max(time.time(), deadline) + (25 if quick else 150))
        if ctx.divergences and not ctx.violations:
            # still no concrete failing input: spend some more budget looking for one
            _histories(ctx, "search", njobs=ctx.budget(16, 64), ntxn=2 if quick else 4, full=True,
                       later_stride=5 if quick else 2, trace_share=0.2, scratch=scratch,
                       deadline=max(time.time(), deadline) + (15 if quick else 150))


def _corpus(ctx):
    cdir = os.path.join(os.path.dirname(os.path.dirname(os.path.dirname(os.path.abspath(__file__)))), "corpus", ID)
    if not os.path.isdir(cdir):
        return
    import json
    with ctx.scratch() as scratch:
        for n in sorted(os.listdir(cdir)):
            if n.endswith(".json"):
                rec = json.load(open(os.path.join(cdir, n)))
                ctx.stat("corpus-replayed")
                _replay_case(ctx, rec, scratch)


def _replay_case(ctx, rec, scratch):
    case = rec.get("case", rec)
    seed = case.get("seed")
    if seed is None:
        return False
    before = len(ctx.violations) + len(ctx.divergences)
    if ":codec:" in str(seed):
        _codec_files(ctx, scratch, seeds=[seed])
        return len(ctx.violations) + len(ctx.divergences) > before
    script = _script_of(seed)
    ntxn = case.get("txn", 0) + 1
    if script:
        ntxn = min(ntxn, len(script))
    _histories(ctx, "replay", njobs=1, ntxn=ntxn, full=True, later_stride=1, trace_share=1.0,
               scratch=scratch, seeds=[seed], pre=case.get("pre", 0), force=script)
    return len(ctx.violations) + len(ctx.divergences) > before


def replay(ctx, rec):
    with ctx.scratch() as scratch:
        hit = _replay_case(ctx, rec, scratch)
    for v in ctx.violations:
        print("expected:", v["expected"], "observed:", v["observed"], v["signature"])
    for dv in ctx.divergences[:3]:
        print("divergence:", dv["component"], dv["model"], dv["impl"])
    return hit
