"""C01 — search returns exactly the documents that satisfy the query."""
import glob
import json
import os

from gen import search as G

ID = "C01"
LEVEL = "proof"
LEAN_IMPORTS = ["WM.Props.C01"]
THEOREMS = ["WM.C01.matcher_den", "WM.C01.segments", "WM.C01.paths_agree"]
PARTIAL = {}
RULE = ("random schema (TEXT with positions/chars, KEYWORD, ID, NUMERIC 8..64 bit, DATETIME, BOOLEAN), corpus, "
        "history (1-5 commits, deletes, merges, W3Codec(blocklimit 1-4 or default)) and query trees (depth <= 5, all "
        "public node types) per sub-seed; a case = (index, query, access path) or (segment, query, context) for the "
        "matcher stepping; non-trivial = the expected answer is neither empty nor all live documents, or a "
        "compound tree runs over >= 2 segments; distinct = distinct (corpus seed, query, path)")
ASSUMPTIONS = [
    "theorems are about the list-level model WM.Compile.compile (what a matcher tree enumerates); that the "
    "cursor implementations in whoosh/matching enumerate these lists is C11's claim, tied here by stepping the "
    "real matcher of every segment in every run",
    "positive boosts and leaf scores, no empty term (hypotheses PosQ, PosLeaf, NoEmptyTerm; evaluated by the "
    "driver on every generated case, see stats hyp:*); zero/negative boosts are outside the theorems",
    "NumericRange/DateRange are modelled on values (their decomposition into tier terms is C13's claim)",
    "regular expressions: the matching term set is computed by Python's re on the corpus lexicon",
]
TRUSTED = [
    "term bytes of NUMERIC/DATETIME/BOOLEAN fields are taken from the field type's to_bytes()/index() (C13 verifies "
    "the codec); layout (which document sits where, which are deleted) is read back from the real index",
]
MANIFEST = {
    "level_text": "Lean theorems over the list-level denotational model of Query.matcher(): for every query tree, "
                  "every binary tree shape over the clauses, each Or strategy and every search context the compiled "
                  "per-segment list has exactly the live satisfying documents (matcher_den), segments concatenate "
                  "with offsets to the specified answer (segments), all access paths agree (paths_agree); the model "
                  "is tied to whoosh on every run by stepping real matchers per segment and by running the public "
                  "API (7 access paths) against the Lean specification.",
    "level_note": "Hypotheses: positive boosts/leaf scores, no empty term, valid tree shapes. Cursor-level "
                  "correctness of whoosh/matching (C11) and the numeric tier decomposition (C13) are other "
                  "properties; their known defects surface here as narrow findings.",
    "technique": "machine-checked proof in Lean 4 over an executable model + differential correspondence check "
                 "against the implementation + end-to-end run of the public API against the Lean specification",
}
EXPLANATION = ("expected sets come from WM.Search.answer/hits evaluated by the compiled Lean driver; observed from "
               "search(limit=None|1|3|10), terms=True, scored=False, sortedby, docs_for_query, Query.docs")


def absorb(ctx, results, component):
    for r in results:
        ctx.evaluations += r["ncases"]
        for k in r["keys"]:
            ctx.case(k, nontrivial=True, n=0)
        for k, v in r["stats"].items():
            ctx.stat(k, v)
        for f in r["failures"]:
            case = {"seed": r["seed"], "q": f["q"], "path": f["path"], "layout": f.get("layout"),
                    "opts": r.get("opts"), "explicit": r.get("explicit")}
            if f.get("corr") and f["sig"].startswith("matcher:wrong"):
                ctx.divergence(component, case, f["exp"], f["obs"])
            else:
                ctx.violation(f["sig"], case, f["exp"], f["obs"],
                              "minimised query %s on path %s" % (json.dumps(f["q"]), f["path"]))


def floor_check(ctx):
    """a generator that stops producing non-trivial cases is broken infrastructure, not a pass"""
    from vcheck import InfraError
    if ctx.evaluations and len(ctx._keys) < 0.2 * ctx.evaluations:
        raise InfraError("only %d of %d cases were non-trivial" % (len(ctx._keys), ctx.evaluations))


def corpus_jobs(pid, scratch):
    """explicit, hand-minimised cases of corpus/<pid>/*.json (replayed first on every run)"""
    root = os.path.join(os.path.dirname(os.path.dirname(os.path.dirname(os.path.abspath(__file__)))), "corpus", pid)
    jobs = []
    for path in sorted(glob.glob(os.path.join(root, "*.json"))):
        rec = json.load(open(path))
        if "seed" in rec:   # a generated case, pinned by its sub-seed, with a minimised query
            opts = dict(rec.get("opts", {}), scratch=scratch, queries=rec["queries"])
            jobs.append((rec["seed"], opts))
        else:
            opts = dict(rec.get("opts", {}), scratch=scratch, explicit_case=rec["case"])
            jobs.append(("corpus:" + os.path.basename(path), opts))
    return jobs


def run(ctx):
    n = ctx.budget(110, 1900)
    seeds = ["%s:%d:%d" % (ctx.pid, ctx.seed, i) for i in range(n)]
    with ctx.scratch() as scratch:
        opts = {"nq": 8, "scratch": scratch, "scores": False, "corr": True, "hyp": True}
        jobs = corpus_jobs(ID, scratch) + [(sd, opts) for sd in seeds]
        if ctx.tier == "thorough":
            # larger corpora: more blocks per posting list, array-union parts, long histories
            big = dict(opts, ndocs=300, nq=6, max_shrinks=3)
            jobs += [("%s:%d:big%d" % (ctx.pid, ctx.seed, i), big) for i in range(48)]
        results = ctx.pmap(G.work, jobs, chunksize=2)
    absorb(ctx, results, "Compile.compile")
    floor_check(ctx)
    ctx.sample({"seed": results[-1]["seed"], "stats": results[-1]["stats"]})


def replay(ctx, rec):
    """re-run one stored case (seed or explicit corpus, minimised query, one path)"""
    case = rec["case"]
    with ctx.scratch() as scratch:
        opts = dict(case.get("opts") or {}, scratch=scratch, corr=False)
        if case.get("explicit"):
            opts["explicit_case"] = case["explicit"]
        if case.get("q") is not None:
            opts["queries"] = [case["q"]]
        path = case.get("path", "")
        if not path.startswith(("matcher", "stats", "build", "construct")):
            opts["paths"] = [path]
        else:
            opts["corr"] = True
        r = G.work((case["seed"], opts))
    for f in r["failures"]:
        print("expected %s\nobserved %s\nsignature %s path %s" % (f["exp"], f["obs"], f["sig"], f["path"]))
    return bool(r["failures"])
