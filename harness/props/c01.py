"""C01 — search returns exactly the documents that satisfy the query."""
import glob
import json
import os

from gen import search as G

ID = "C01"
LEVEL = "proof"
LEAN_IMPORTS = ["WM.Props.C01", "WM.Props.C01Cursor", "WM.Props.C01Numeric", "WM.Props.C01Multi"]
THEOREMS = ["WM.C01.matcher_den", "WM.C01.segments", "WM.C01.paths_agree", "WM.C01.docs_overrides",
            "WM.C01.cursor_den", "WM.C01.cursor_answers", "WM.C01.numeric_range_compiled", "WM.C01.term_top"]
_LIST = ("list level: about WM.Compile.compile, the posting list a per-segment matcher tree enumerates, not about "
         "the cursors of whoosh/matching (synchronised advance, skip_to, the AndNot/Inverse leaks are invisible "
         "to it); the Lean bridge to the matcher family's cursor model is cursor_den (term/null/Every leaves, "
         "multi-term expansions, boolean constructors, union trees and the scored array union); Phrase (spans), "
         "numeric ranges and the unscored array union are tied to the real matchers only by stepping them in "
         "every run. ")
_POS = ("Hypotheses PosQ (every boost > 0) and PosLeaf (leaf scores of occurring terms > 0) narrow 'for all query "
        "trees incl. boosts': with a zero or negative boost the array union (membership = accumulated score > 0) "
        "drops satisfying documents - Lean counterexample in WM/Props/C01.lean, observable finding "
        "ArrayUnionMatcher:document-with-non-positive-accumulated-score-is-dropped (C09, ReverseWeighting). ")
PARTIAL = {
    "WM.C01.matcher_den": _LIST + _POS + "NumericRange/DateRange (but see numeric_range_compiled), Every(None) and "
                          "the outer complement of Not are the specification verbatim in the model (value level), "
                          "so the theorem says nothing about them beyond the combination with the other nodes.",
    "WM.C01.numeric_range_compiled": _LIST + "integer NUMERIC fields (1..32 bytes, any signedness and shift step) "
                                     "with bounds in the field's domain and constantscore=True; float fields "
                                     "(C13.range_query_float*), DATETIME (a 64-bit integer field after "
                                     "datetime_to_long) and Decimal scaling are not restated here; hypothesis "
                                     "IntFieldDoc: the document's terms of the field are the tier terms C13's "
                                     "indexTermsList gives for its values (the harness takes the terms from the real "
                                     "field's index(), and runs the cursor model on the query the real "
                                     "_compile_query returns: stats cursor:numeric-range-compiled).",
    "WM.C01.segments": _LIST + _POS,
    "WM.C01.paths_agree": _LIST + _POS + "'access path' here = search context (needs_current x scored) x tree shape "
                          "oracle, plus the specification-side fact that ranking permutes the answer; limit=k "
                          "(C09.search_limit composes C05's TopCollector model with the compiled lists), the "
                          "Query.docs overrides (docs_overrides); sortedby and filter/mask (C14) are not parameters "
                          "of a theorem here: they are compared on the real code (nine paths per query in every run).",
    "WM.C01.docs_overrides": _LIST + _POS + "the run is segment by segment; Query.docs on a multi-segment searcher "
                             "runs one matcher over the MultiReader: for a Term that MultiMatcher is in Lean "
                             "(term_top); for compound and multi-term queries on the top searcher (FuzzyTerm there "
                             "expands through MultiReader.terms_within - recorded finding) it is compared on the real "
                             "code by the paths q.docs and q.matcher:skip (the top matcher moved with skip_to only, "
                             "every landing point checked against the specification's answer).",
    "WM.C01.term_top": "Term queries only (any boost; PosQ for the answer conjunct): the MultiMatcher that "
                       "Searcher.postings builds on a multi-segment searcher over ListMatcher-modelled posting readers "
                       "(the block structure of the real W3 leaf matcher is C10/C11's leaf model), with C11's "
                       "multi_constructor_wf; compound queries over such leaves on the top searcher are not restated "
                       "(their constructors are those of cursor_den, over multi leaves instead of list leaves) and are "
                       "covered by the end-to-end paths q.docs / q.matcher:skip; tied to the code by stepping the real "
                       "Term.matcher(top searcher) and the model with one next/skip_to/replace program (stats top:*).",
    "WM.C01.cursor_den": "fragment CursorOK: term, null and Every leaves; Prefix/Wildcard/TermRange/FuzzyTerm/Regex "
                         "as expansions against the segment lexicon (0/1/many terms, constantscore through "
                         "ConstantScoreWrapperMatcher resp. the all_ids() pre-read); And/Or/DisjunctionMax through the "
                         "binary tree; Or / multi-term through the *scored* ArrayUnionMatcher when its sub-matchers are "
                         "plain term matchers (boost 1, what a multi-term query expands to) with positive leaf scores "
                         "and the boost is positive; Not, AndNot, AndMaybe, Require, boosts, ConstantScoreQuery. "
                         "Outside: Phrase (span matchers have no node in the matcher family's tree), NumericRange/"
                         "DateRange (tier terms are C13's), the unscored array union (scored=False: >= 3 clauses in a "
                         "boolean / weighting=None context without needs_current on <= 5000 documents) and an array "
                         "union over sub-matchers of different classes - the driver answers `notimpl` there and the "
                         "run counts them (stats cursor:notimpl:*). The pre-read of a constant-score query uses the "
                         "base all_ids() generator (C11.all_ids shows the overrides agree with it). The cursor "
                         "constructors are the matcher family's model (C11 proves them faithful cursors); that "
                         "Query.matcher builds this tree is checked in every run by stepping model tree and real "
                         "matcher with one generated program of next/skip_to/replace calls (stream cursor:*).",
    "WM.C01.cursor_answers": "cursor_den's fragment and matcher_den's hypotheses (PosQ, PosLeaf, ValidOracle)",
}
RULE = ("random schema (TEXT with positions/chars, KEYWORD, ID, NUMERIC 8..64 bit, DATETIME, BOOLEAN), corpus over "
        "an ASCII + non-ASCII vocabulary, history (1-5 commits, deletes, merges, W3Codec(blocklimit 1-4 or default)) "
        "and query trees (depth <= 5, all public node types; AndNot/AndMaybe/Require with sparse required sides "
        "nested under And/Or) per sub-seed; a stream of 2-5 unmerged segments with a 24/36-word vocabulary over 12-30 "
        "documents (segment lexicons differ) with prefix-less Wildcard/Regex expansions bare and as clauses, one third "
        "of them read through old_searcher.refresh() after the last commits; in 30% of the cases field t is phrase-focused: a 2-4 word vocabulary, "
        "documents that are random sequences over it or a planted phrase whose non-last words are doubled / followed "
        "by fillers, phrases of 3-5 words with slop 1-5 (bare and as clauses of compounds); two 2300-document single-segment corpora per run cross the array "
        "union's 2048-document part boundary (with Or of >= 3 sparse plain terms, bare and under And/AndNot/Require/"
        "AndMaybe, stepped with skip_to() calls that end in, at the end of and beyond a part); a case = (index, query, access path) or (segment, query, context) "
        "for the matcher stepping; non-trivial = the expected answer is neither empty nor all live documents, or a "
        "compound tree runs over >= 2 segments; distinct = distinct (corpus seed, query, path)")
ASSUMPTIONS = [
    "theorems are about the list-level model WM.Compile.compile (what a matcher tree enumerates); for term/null "
    "/Every leaves, multi-term expansions, the boolean constructors and the scored array union cursor_den proves that "
    "the cursor tree of the matcher family's model (C11) denotes exactly that list; for the remaining node types "
    "(phrase, numeric ranges, unscored array union) the tie to whoosh/matching is the stepping of the real matcher "
    "of every segment in every run",
    "positive boosts and leaf scores (hypotheses PosQ, PosLeaf; evaluated by the driver on every generated case, "
    "see stats hyp:*); zero/negative boosts are outside the theorems",
    "the empty term is an ordinary term in the model: this mirrors the repair of MultiTerm.matcher proposed on "
    "branch r2-search (9ad90ad); on a tree without it corpus/C01/empty-term.json shows the recorded finding "
    "MultiTerm.matcher:empty-term-is-skipped-by-the-expansion",
    "terms are UTF-8 byte strings ordered bytewise (TermRange, Prefix); Wildcard '?' and the FuzzyTerm distance and "
    "prefix length count code points of the decoded term (WM.Search.utf8Decode), as whoosh does on text; the "
    "vocabulary contains 2- and 3-byte characters",
    "NumericRange/DateRange are modelled on values (their decomposition into tier terms is C13's claim)",
    "regular expressions: the matching term set is computed by Python's re on the corpus lexicon",
]
TRUSTED = [
    "term bytes of NUMERIC/DATETIME/BOOLEAN fields are taken from the field type's to_bytes()/index() (C13 verifies "
    "the codec); layout (which document sits where, which are deleted) is read back from the real index",
]
MANIFEST = {
    "level_text": "Lean theorems over the list-level denotational model of Query.matcher(): for every query tree, "
                  "every binary tree shape over the clauses, each Or strategy and every search context the compiled "
                  "per-segment list has exactly the live satisfying documents (matcher_den), segments concatenate "
                  "with offsets to the specified answer (segments), all access paths agree (paths_agree), the Query.docs "
                  "overrides evaluate a query with the same answer (docs_overrides), the query NumericRange compiles "
                  "to on an integer field answers exactly the documents with a value in the interval "
                  "(numeric_range_compiled, with C13), and the cursor tree Query.matcher builds denotes the compiled "
                  "list (cursor_den, with C11); the model "
                  "is tied to whoosh on every run by stepping real matchers per segment (next only against the list model; "
                  "a generated next/skip_to/replace program against the cursor model) and by running the public "
                  "API (9 access paths) against the Lean specification.",
    "level_note": "Hypotheses: positive boosts/leaf scores, valid tree shapes (see PARTIAL). List level; the Lean "
                  "bridge to the cursor model of C11 (cursor_den, cursor_answers) covers term/Every leaves, multi-term "
                  "expansions, boolean constructors and the scored array union. The numeric tier decomposition is "
                  "C13's property.",
    "technique": "machine-checked proof in Lean 4 over an executable model + differential correspondence check "
                 "against the implementation + end-to-end run of the public API against the Lean specification",
}
EXPLANATION = ("expected sets come from WM.Search.answer/hits evaluated by the compiled Lean driver; observed from "
               "search(limit=None|1|3|10), terms=True, scored=False, sortedby, docs_for_query, Query.docs, and "
               "Query.matcher(top searcher) moved with skip_to (every landing point = first answer >= target)")


def absorb(ctx, results, component):
    for r in results:
        ctx.evaluations += r["ncases"]
        for k in r["keys"]:
            ctx.case(k, nontrivial=True, n=0)
        for k, v in r["stats"].items():
            ctx.stat(k, v)
        for f in r["failures"]:
            case = {"seed": r["seed"], "q": f["q"], "path": f["path"], "layout": f.get("layout"),
                    "opts": r.get("opts"), "explicit": r.get("explicit")}
            if f.get("corr") and f["sig"].startswith("matcher:wrong"):
                ctx.divergence(component, case, f["exp"], f["obs"])
            else:
                ctx.violation(f["sig"], case, f["exp"], f["obs"],
                              "minimised query %s on path %s" % (json.dumps(f["q"]), f["path"]))


def floor_check(ctx):
    """a generator that stops producing non-trivial cases is broken infrastructure, not a pass"""
    from vcheck import InfraError
    if ctx.evaluations and len(ctx._keys) < 0.2 * ctx.evaluations:
        raise InfraError("only %d of %d cases were non-trivial" % (len(ctx._keys), ctx.evaluations))


def corpus_jobs(pid, scratch):
    """explicit, hand-minimised cases of corpus/<pid>/*.json (replayed first on every run)"""
    root = os.path.join(os.path.dirname(os.path.dirname(os.path.dirname(os.path.abspath(__file__)))), "corpus", pid)
    jobs = []
    for path in sorted(glob.glob(os.path.join(root, "*.json"))):
        rec = json.load(open(path))
        if "seed" in rec:   # a generated case, pinned by its sub-seed, with a minimised query
            opts = dict(rec.get("opts", {}), scratch=scratch, queries=rec["queries"])
            jobs.append((rec["seed"], opts))
        else:
            opts = dict(rec.get("opts", {}), scratch=scratch, explicit_case=rec["case"])
            jobs.append(("corpus:" + os.path.basename(path), opts))
    return jobs


def interleave(*streams):
    """round-robin merge, so that a deadline cuts every stream proportionally"""
    out, its = [], [iter(x) for x in streams]
    while its:
        for it in list(its):
            try:
                out.append(next(it))
            except StopIteration:
                its.remove(it)
    return out


def run_jobs(ctx, jobs, deadline, fn=None, batch=32):
    """Run the jobs in worker processes until they are done or `deadline` seconds of the check have
    elapsed (the machine is shared: the case budget is what an idle machine does in well under the
    tier's time limit; a loaded one stops earlier instead of overrunning).  One pool for all jobs (no
    barrier between batches); a job that would start after the deadline is not run (counted) - so the
    check ends at most one job's duration after the deadline.  Jobs are dispatched in list order."""
    import time
    fn = fn or G.work
    t_end = ctx.t0 + deadline
    first = set(str(j[0]) for j in jobs[:16])

    def guarded(job):
        if str(job[0]) not in first and time.time() > t_end:
            return None
        return fn(job)
    out = ctx.pmap(guarded, jobs, chunksize=1)
    done = [j for j, r in zip(jobs, out) if r is not None]
    results = [r for r in out if r is not None]
    if len(done) < len(jobs):
        ctx.stat("jobs-not-run-deadline", len(jobs) - len(done))
        ctx.note("deadline %ds reached: %d of %d generated cases run" % (deadline, len(done), len(jobs)))
    return done, results


def run(ctx):
    n = ctx.budget(520, 4200)
    seeds = ["%s:%d:%d" % (ctx.pid, ctx.seed, i) for i in range(n)]
    with ctx.scratch() as scratch:
        opts = {"nq": 8, "scratch": scratch, "scores": False, "corr": True, "hyp": True, "plant": 0.3}
        main = [(sd, opts) for sd in seeds]
        # larger corpora: more blocks per posting list, long histories; and single segments beyond
        # 2048 documents, where ArrayUnionMatcher works in several parts
        big = dict(opts, ndocs=300, nq=6, max_shrinks=3)
        huge = dict(opts, ndocs=2300, nseg=1, nq=3, max_shrinks=2, maxdepth=3, vocab_n=40, sparse_or=2, plant=0.0)
        bigs = [("%s:%d:big%d" % (ctx.pid, ctx.seed, i), big) for i in range(ctx.budget(6, 60))]
        huges = [("%s:%d:huge%d" % (ctx.pid, ctx.seed, i), huge) for i in range(ctx.budget(2, 10))]
        # several unmerged segments whose lexicons differ (large vocabulary, few documents per segment), with
        # lexicon expansions that have no literal prefix and AndNot over sparse/dense sides: what is computed
        # per segment (expansions, caches keyed by the index generation) and what crosses segments
        # (MultiMatcher under Query.docs / Query.matcher on the top searcher)
        ms = [("%s:%d:ms%d" % (ctx.pid, ctx.seed, i),
               dict(opts, nq=5, ndocs=(12, 20, 30)[i % 3], nseg=(3, 4, 5, 2)[i % 4], nomerge=True, noprefix=2,
                    vocab_n=(24, 36)[i % 2], plant=0.0, refresh=(i % 3 == 1)))
              for i in range(ctx.budget(24, 240))]
        # (the slow 2300-document cases are dispatched first and run beside the small ones)
        jobs = huges + corpus_jobs(ID, scratch) + interleave(ms, main, bigs)
        done, results = run_jobs(ctx, jobs, 30 if ctx.tier == "quick" else 480)
    absorb(ctx, results, "Compile.compile")
    floor_check(ctx)
    ctx.sample({"seed": results[-1]["seed"], "stats": results[-1]["stats"]})


def replay(ctx, rec):
    """re-run one stored case (seed or explicit corpus, minimised query, one path)"""
    case = rec["case"]
    with ctx.scratch() as scratch:
        opts = dict(case.get("opts") or {}, scratch=scratch, corr=False)
        if case.get("explicit"):
            opts["explicit_case"] = case["explicit"]
        if case.get("q") is not None:
            opts["queries"] = [case["q"]]
        path = case.get("path", "")
        if not path.startswith(("matcher", "stats", "build", "construct")):
            opts["paths"] = [path]
        else:
            opts["corr"] = True
        r = G.work((case["seed"], opts))
    for f in r["failures"]:
        print("expected %s\nobserved %s\nsignature %s path %s" % (f["exp"], f["obs"], f["sig"], f["path"]))
    return bool(r["failures"])
