"""C12 — quality bounds are true upper bounds on scores."""
import random

from gen import matcher as G
from props import c11 as C11

ID = "C12"
LEVEL = "proof"
LEAN_IMPORTS = ["WM.Props.C12"]
THEOREMS = ["WM.C12.supports", "WM.C12.block", "WM.C12.max", "WM.C12.leaf_bound", "WM.C12.skip_keeps",
            "WM.C12.skip_keeps_mem", "WM.C12.walk_keeps", "WM.C12.replace_keeps_partial", "WM.C12.replace_keeps_boost_counterexample",
            "WM.C12.bm25_mono", "WM.C12.tfidf_mono", "WM.C12.freq_mono", "WM.C12.coord_bound", "WM.C12.coord_threshold", "WM.C12.bm25_leaf_bound"]
PARTIAL = {"WM.C12.replace_keeps_partial": "replace(q) is proved to keep every entry above q for trees whose boosts lie in "
                                           "(0, 1]; for boosts > 1 WrappingMatcher.replace hands the threshold to the "
                                           "child unscaled and the statement is false (replace_keeps_boost_counterexample, "
                                           "known finding; tests/test_quality.py pins the behaviour)",
           "WM.C12.bm25_mono": "narrower than 'all weighting models and parameters': BM25F is proved monotone (hence bm25_leaf_bound) "
                               "for idf >= 0, avgfl > 0, 0 <= B <= 1, K1 >= 0 - BM25F(B=..., K1=...) accepts any numbers without "
                               "validation; TF_IDF for idf >= 0; weights and scores are assumed non-negative (W0/WQ); over Rat the "
                               "quotient 0/0 is 0 where Python raises ZeroDivisionError (tf = 0 with K1 = 0, unreachable for real "
                               "postings); Reverse, PL2, DFree are decided by the end-to-end walks only",
           "WM.C12.max": "quality providers covered: every class of the C11 model incl. MultiMatcher (max over the remaining "
                         "segments) and ArrayUnionMatcher (max of the buffered part and the boosted sum of the active sub-matchers; "
                         "positive scores and boost assumed). CoordMatcher: only its formulas are proved (coord_bound, "
                         "coord_threshold), the class is walked end-to-end; PreloadedUnionMatcher: differential programs only"}
RULE = ("matcher trees (depth <= 3; DisjunctionMaxMatcher built with tiebreak 0 and > 0) over ListMatchers and real "
        "W3LeafMatchers (blocklimit 1..4); query stream: matchers built by Query.matcher(searcher) from random "
        "Term/Or(scale)/And/Not/DisjunctionMax(tiebreak)/AndMaybe/AndNot/Require/ConstantScore trees with clause boosts "
        "under Frequency/TF_IDF/BM25F/PL2/Multi, walked against exhaustive stepping, then search(limit=k) against the k "
        "best scores; walk stream: schedules of next()/skip_to_quality(q) against the Lean runW (visited + remaining); walks of <= 14 "
        "next/skip_to/skip_to_quality/replace calls with thresholds taken from the scores present (0, negative, "
        "equal to a score, between scores, above the maximum); after every call block_quality >= score, max_quality >= "
        "every remaining score, no entry above the largest threshold lost/invented/rescored; non-trivial = a quality "
        "call actually moved or reshaped a composite matcher; distinct = distinct (tree, weighting, calls)")
ASSUMPTIONS = ["exact streams: dyadic weights/boosts, Frequency weighting (float arithmetic exact)",
               "weighting streams (TF_IDF, BM25F, PL2, Reverse, Multi): oracle = exhaustive stepping of the same real "
               "tree, relative tolerance 1e-9, thresholds kept 0.1% away from attainable scores"]
TRUSTED = ["real-analysis monotonicity of the log-based models is not proved: PL2/DFree are decided by the end-to-end run"]

KINDS = list(G.BIN) + list(G.UN) + ["multi"]
WEIGHTINGS = [("tfidf",), ("bm25", 0.75, 1.2), ("bm25", 0.0, 2.0), ("bm25", 1.0, 0.5), ("pl2", 1.0), ("pl2", 7.0),
              ("reverse", ("bm25", 0.75, 1.2)), ("reverse", ("freq",)), ("multi", ("bm25", 0.75, 1.2), ("tfidf",))]

SIG_BOOST = "WrappingMatcher.replace:boost>1:threshold-not-divided-by-boost"
SIG_F32 = "W3LeafMatcher.block_quality<score:block-max-weight-not-float32-rounded"


def _prepare(args):
    seed, mode, depth = args
    t, spec = C11.make_case(seed, mode, KINDS, depth)
    rix = G.RealIndex(spec) if spec else None
    try:
        return G.tree_sexp(t, rix)
    finally:
        if rix:
            rix.close()


def _run_exact(args):
    seed, mode, depth, den_text = args
    if den_text.startswith("!"):
        return None
    t, spec = C11.make_case(seed, mode, KINDS, depth)
    rix = G.RealIndex(spec) if spec else None
    try:
        den = [(i, float(s)) for i, s in G.parse_den(den_text)]
        rng = random.Random(seed ^ 0xC12)
        try:
            m = G.build_real(t, rix)
            res = G.e2e_quality(rng, m, den)
        except G.Hang:
            return ("does-not-terminate", {}, [], t[0], None, [])
        except Exception as e:  # noqa
            return ("raises " + G.err_name(e), {}, [], t[0], None, [])
        if res is None:
            return ("ok", None, None, t[0], None, [])
        kind, detail, ops = res
        # classify, first half: does the failure disappear when WrappingMatcher.replace scales the threshold?
        # (second half in exact_stream: the pinned code, i.e. the Lean model, must fail on the same walk too -
        # otherwise a regression in some other replace() below a boost > 1 would hide behind the finding)
        cls = None
        if G.max_boost(t) > 1 and any(o[0] == "replace" and o[1] for o in ops):
            with G.patched_wrapping_replace():
                try:
                    again = G.e2e_quality(rng, G.build_real(t, rix), den, fixed_ops=ops)
                except Exception:  # noqa
                    again = ("error", {}, [])
            if again is None:
                cls = SIG_BOOST
        return (kind, detail, [G.op_sexp(o) for o in ops], t[0], cls, ops)
    finally:
        if rix:
            rix.close()


def model_fails_too(ctx, tree_text, den_text, ops):
    """run the failing walk on the Lean model (= the pinned code): True if it fails there as well"""
    den = [(i, float(s)) for i, s in G.parse_den(den_text)]
    try:
        res = G.e2e_quality(random.Random(0), G.ModelMatcher(ctx.driver.ask1, tree_text, plan=ops), den, fixed_ops=ops)
    except G.ModelError:
        return True
    return res is not None


def exact_stream(ctx, name, mode, n, depth):
    rng = ctx.rng("e2e:" + name)
    seeds = [rng.getrandbits(48) for _ in range(n)]
    texts = ctx.pmap(_prepare, [(s, mode, depth) for s in seeds], chunksize=max(1, n // 64))
    dens = ctx.driver.ask(["c12 den " + t for t in texts])
    results = ctx.pmap(_run_exact, [(s, mode, depth, d) for s, d in zip(seeds, dens)], chunksize=max(1, n // 64))
    for s, text, d, res in zip(seeds, texts, dens, results):
        if res is None:
            continue
        kind, detail, ops, root, cls, raw = res
        ctx.case(("e2e", text, tuple(ops or ())), nontrivial=text.count("(") > 3 and d != "()")
        ctx.stat("e2e:%s:cases" % name)
        if kind != "ok":
            if cls == SIG_BOOST and not model_fails_too(ctx, text, d, raw):
                cls = None
                ctx.stat("boost>1:not-confirmed-by-model")
            sig = cls or ("C12:%s:%s" % (kind, root))
            ctx.violation(sig, {"stream": name, "seed": s, "mode": mode, "depth": depth, "tree": text, "ops": ops},
                          d, detail, "quality operation contradicts the list model: " + kind)


# ------------------------------------------------------------------------------------------------
# every shipped weighting on real posting lists: the oracle is the exhaustive stepping of the same tree

def _run_weighting(args):
    seed, depth = args
    rng = random.Random(seed)
    w = rng.choice(WEIGHTINGS)
    spec = G.gen_index_spec(rng, 4, weighting=w, deleted=(rng.random() < 0.2))
    rix = G.RealIndex(spec)
    try:
        t = G.gen_tree(rng, depth, [k for k in KINDS if k not in ("inverse", "multi")], lambda r: ("term", r.randrange(len(spec.lists))),
                       boosts=(0.5, 1.0, 1.0, 0.25))
        try:
            with G.watchdog():
                den = G.drain(G.build_real(t, rix))
            res = G.e2e_quality(rng, G.build_real(t, rix), den, tol=1e-9)
        except G.Hang:
            return (w, "does-not-terminate", {}, [], t, spec)
        except Exception as e:  # noqa
            return (w, "raises " + G.err_name(e), {}, [], t, spec)
        if res is None:
            return (w, "ok", None, None, t, None)
        return (w, res[0], res[1], [G.op_sexp(o) for o in res[2]], t, spec)
    finally:
        rix.close()


def weighting_stream(ctx, n, depth):
    rng = ctx.rng("e2e:weightings")
    seeds = [rng.getrandbits(48) for _ in range(n)]
    for s, (w, kind, detail, ops, t, spec) in zip(seeds, ctx.pmap(_run_weighting, [(s, depth) for s in seeds],
                                                                   chunksize=max(1, n // 64))):
        ctx.case(("w", s), nontrivial=G.tree_size(t) > 1)
        ctx.stat("weighting:" + w[0])
        if kind != "ok":
            ctx.violation("C12:%s:%s:%s" % (w[0], kind, t[0]),
                          {"stream": "weightings", "seed": s, "depth": depth, "weighting": w, "tree": repr(t),
                           "lists": spec.lists if spec else None, "blocklimit": spec.blocklimit if spec else None, "ops": ops},
                          None, detail, "quality bound/skip wrong under weighting %r: %s" % (w, kind))


# ------------------------------------------------------------------------------------------------
# the quality walk (Lean `runW`, theorem walk_keeps): schedules of next()/skip_to_quality(q) issued while the
# matcher is active - the loop of ScoredCollector.matches.  Correspondence: visited entries and the remaining list
# of the real tree against the model's; and the theorem's claim itself against the Lean list (Layer S).

def _den_text(entries):
    return "(" + " ".join("(%d %s)" % (i, G.num(sc)) for i, sc in entries) + ")"


def _walk_case(args):
    seed, mode, depth = args
    t, spec = C11.make_case(seed, mode, KINDS, depth)
    rix = G.RealIndex(spec) if spec else None
    try:
        text = G.tree_sexp(t, rix)
        base = dict(seed=seed, mode=mode, depth=depth, tree=text, root=t[0], size=G.tree_size(t),
                    positive=G.min_boost(t) > 0, ops=[], Q=None, moved=False)
        rng = random.Random(seed ^ 0x3A1C)
        scores = C11._leaf_weights(t) + ([float(f) for _, fs in spec.lists for f in fs] if spec else [])
        try:
            m = G.build_real(t, rix)
        except Exception as e:  # noqa
            return dict(base, impl=G.err_name(e))
        ops, visited, Q = [], [], None
        try:
            with G.watchdog():
                for _ in range(rng.choice([3, 6, 10, 14])):
                    if not m.is_active():
                        break
                    if rng.random() < 0.45 and m.supports_block_quality():
                        q = G.thresholds(rng, m, scores)
                        before = m.id()
                        ops.append("(skipq %s)" % G.num(q))
                        m.skip_to_quality(q)
                        Q = q if Q is None else max(Q, q)
                        if not m.is_active() or m.id() != before:
                            base["moved"] = True
                    else:
                        ops.append("next")
                        visited.append((m.id(), m.score()))
                        m.next()
                rest = G.drain(m)
        except G.Hang:
            return dict(base, ops=ops, impl="!HANG")
        except Exception as e:  # noqa
            return dict(base, ops=ops, impl=G.err_name(e))
        return dict(base, ops=ops, Q=Q, impl=_den_text(visited) + " " + _den_text(rest), visited=visited, rest=rest)
    finally:
        if rix:
            rix.close()


def walk_stream(ctx, name, mode, n, depth):
    rng = ctx.rng("walk:" + name)
    cases = ctx.pmap(_walk_case, [(rng.getrandbits(48), mode, depth) for _ in range(n)], chunksize=max(1, n // 64))
    replies = ctx.driver.ask(["c12 walk %s (%s)" % (c["tree"], " ".join(c["ops"])) for c in cases])
    dens = ctx.driver.ask(["c12 den " + c["tree"] for c in cases])
    for c, rep, d in zip(cases, replies, dens):
        ctx.case(("walk", c["tree"], tuple(c["ops"])), nontrivial=c["size"] > 1 and c["moved"])
        ctx.stat("walk:%s:cases" % name)
        if c["moved"]:
            ctx.stat("walk:skip_to_quality-moved")
        case = {"stream": "walk", "seed": c["seed"], "mode": c["mode"], "depth": c["depth"], "tree": c["tree"], "ops": c["ops"]}
        if rep != c["impl"]:
            ctx.divergence("quality-walk:" + name, case, rep, c["impl"])
        if c["Q"] is None and "visited" in c and not d.startswith("!"):
            c["Q"] = float("-inf")
        if c["positive"] and c.get("visited") is not None and not d.startswith("!"):
            # walk_keeps on the real objects: every entry of the Lean list above Q was visited or is still there,
            # and nothing above Q was invented
            den = [(i, float(x)) for i, x in G.parse_den(d)]
            seen = set(c["visited"]) | set(c["rest"])
            lost = [e for e in den if e[1] > c["Q"] and e not in seen]
            extra = [e for e in c["visited"] + c["rest"] if e[1] > c["Q"] and e not in set(den)]
            if lost or extra:
                ctx.violation("C12:walk:%s:%s" % ("lost" if lost else "invented", c["root"]), case, d,
                              {"Q": c["Q"], "lost": lost[:3], "invented": extra[:3], "visited": c["visited"], "remaining": c["rest"]},
                              "a next()/skip_to_quality(q) walk lost or invented an entry scoring above the largest threshold")


# ------------------------------------------------------------------------------------------------
# the matcher trees that *query construction* produces (Query.matcher(searcher)): the options of the query classes
# reach the matcher classes only here (DisjunctionMax tiebreak through make_weighted_tree's kwargs, Or scale, clause
# boosts, n-ary Or/And/DisMax through the huffman tree, ConstantScoreQuery, Not inside And).  Oracle: exhaustive
# stepping of a fresh matcher of the same query; then the consequence the property names: a top-k search returns
# the k best scores of that list.

QUERY_WEIGHTINGS = [("freq",), ("freq",), ("tfidf",), ("bm25", 0.75, 1.2), ("bm25", 0.0, 2.0), ("bm25", 1.0, 0.5), ("pl2", 1.0),
                    ("multi", ("bm25", 0.75, 1.2), ("tfidf",))]
QUERY_TIEBREAKS = (0.0, 0.5, 0.25, 1.0, 0.125)


def gen_query(rng, depth, nterms, under_coord=False):
    """a query tree: ("t", j, boost) | ("or", subs, scale) | ("and", subs) | ("dismax", subs, tiebreak, boost) |
    ("andmaybe"|"andnot"|"require", a, b) | ("const", score, q) | ("andwithnot", subs, neg)"""
    if depth <= 0 or rng.random() < 0.2:
        return ("t", rng.randrange(nterms), rng.choice([1.0, 1.0, 1.0, 0.5, 0.25]))
    kinds = ["or", "or", "and", "dismax", "dismax", "dismax", "andmaybe", "andnot", "require", "const", "andwithnot"]
    if under_coord:
        # (CoordMatcher over a DisjunctionMax child: recorded finding SIG_COORD_DISMAX)
        kinds = ["or", "and", "andmaybe"]
    k = rng.choice(kinds)

    def sub(uc=under_coord):
        return gen_query(rng, depth - 1, nterms, uc)
    if k == "or":
        scale = rng.choice([None, None, None, 0.9, 0.5]) if not under_coord else None
        uc = under_coord or scale is not None
        return ("or", [sub(uc) for _ in range(rng.choice([2, 2, 3, 4]))], scale)
    if k == "and":
        return ("and", [sub() for _ in range(rng.choice([2, 2, 3]))])
    if k == "dismax":
        return ("dismax", [sub() for _ in range(rng.choice([2, 2, 2, 3, 4]))], rng.choice(QUERY_TIEBREAKS),
                rng.choice([1.0, 1.0, 0.5]))
    if k == "const":
        return ("const", rng.choice([1.0, 2.0, 0.5]), sub())
    if k == "andwithnot":
        return ("andwithnot", [sub() for _ in range(rng.choice([1, 2]))], sub())
    return (k, sub(), sub())


def build_query(t):
    from whoosh import query as Q
    k = t[0]
    if k == "t":
        return Q.Term("f", u"t%d" % t[1], boost=t[2])
    if k == "or":
        return Q.Or([build_query(x) for x in t[1]], scale=t[2])
    if k == "and":
        return Q.And([build_query(x) for x in t[1]])
    if k == "dismax":
        return Q.DisjunctionMax([build_query(x) for x in t[1]], boost=t[3], tiebreak=t[2])
    if k == "andmaybe":
        return Q.AndMaybe(build_query(t[1]), build_query(t[2]))
    if k == "andnot":
        return Q.AndNot(build_query(t[1]), build_query(t[2]))
    if k == "require":
        return Q.Require(build_query(t[1]), build_query(t[2]))
    if k == "const":
        return Q.ConstantScoreQuery(build_query(t[2]), score=t[1])
    if k == "andwithnot":
        return Q.And([build_query(x) for x in t[1]] + [Q.Not(build_query(t[2]))])
    raise ValueError(k)


def query_kinds(t, acc=None):
    acc = set() if acc is None else acc
    acc.add(t[0] + ("~" if t[0] == "dismax" and t[2] else "") + ("^" if t[0] == "or" and t[2] is not None else ""))
    for x in t[1:]:
        if isinstance(x, tuple):
            query_kinds(x, acc)
        elif isinstance(x, list):
            for y in x:
                query_kinds(y, acc)
    return acc


def _run_query(seed):
    rng = random.Random(seed)
    w = rng.choice(QUERY_WEIGHTINGS)
    spec = G.gen_index_spec(rng, 5, weighting=w, deleted=(rng.random() < 0.15))
    t = gen_query(rng, rng.choice([1, 2, 2, 3]), len(spec.lists))
    kinds = sorted(query_kinds(t))
    rix = G.RealIndex(spec)
    ops = []
    try:
        s = rix.searcher
        q = build_query(t)
        try:
            with G.watchdog():
                den = G.drain(q.matcher(s, s.context()))
            res = G.e2e_quality(rng, q.matcher(s, s.context()), den, tol=1e-9)
            if res is not None:
                return (w, res[0], res[1], [G.op_sexp(o) for o in res[2]], t, kinds, spec)
            # the consequence: top-k by search() = the k best scores of the exhaustive list
            if den:
                k = rng.choice([1, 1, 2, 3, 5])
                best = sorted((sc for _, sc in den), reverse=True)[:k]
                with G.watchdog():
                    got = [h.score for h in s.search(q, limit=k)]
                if len(got) != len(best) or any(not G.approx_eq(a, b, 1e-9) for a, b in zip(got, best)):
                    return (w, "search(limit=k)-scores-differ-from-the-k-best-of-stepping", {"k": k, "expected": best, "got": got},
                            [], t, kinds, spec)
        except G.Hang:
            return (w, "does-not-terminate", {}, [], t, kinds, spec)
        except Exception as e:  # noqa
            return (w, "raises " + G.err_name(e), {}, [], t, kinds, spec)
        return (w, "ok", None, None, t, kinds, None)
    finally:
        rix.close()


def query_stream(ctx, n):
    rng = ctx.rng("e2e:query")
    seeds = [rng.getrandbits(48) for _ in range(n)]
    for s, (w, kind, detail, ops, t, kinds, spec) in zip(seeds, ctx.pmap(_run_query, seeds, chunksize=max(1, n // 64))):
        ctx.case(("query", s), nontrivial=t[0] != "t")
        ctx.stat("query:weighting:" + w[0])
        for k in kinds:
            ctx.stat("query:node:" + k)
        if kind != "ok":
            ctx.violation("C12:query:%s:%s:%s" % (w[0], kind, t[0]),
                          {"stream": "query", "seed": s, "weighting": w, "query": repr(t),
                           "lists": spec.lists if spec else None, "blocklimit": spec.blocklimit if spec else None, "ops": ops},
                          None, detail, "matcher built by Query.matcher(): quality bound/skip/replace/top-k wrong under %r: %s" % (w, kind))


# ------------------------------------------------------------------------------------------------
# CoordMatcher (Or(..., scale=s)): not in the Lean model; its score is the child's score pushed through the
# coordination formula, its bounds are that formula at "all terms match".  Oracle: exhaustive stepping.

SIG_COORD = "CoordMatcher:threshold-not-converted-and-terms-recounted-after-replace"
# (no DisjunctionMax below a CoordMatcher in the random stream: see coord_dismax_demo)
COORD_KINDS = ["union", "union", "union", "andmaybe", "inter"]


def coord_repaired():
    """does the tree under test carry the repairs of CoordMatcher (threshold conversion)?"""
    from whoosh.matching import CoordMatcher
    return "skip_to_quality" in CoordMatcher.__dict__


def _coord_build(t, rix, sc, counter):
    from whoosh import matching as M
    from whoosh.scoring import WeightScorer
    k = t[0]
    if k == "null":
        return M.NullMatcher()
    if k == "list":
        counter[0] += 1
        ws = [w * sc for w in t[2]]
        return M.ListMatcher(list(t[1]), ws, scorer=WeightScorer(max(ws) if ws else 0.0), term=("f", "l%d" % counter[0]))
    if k == "term":
        return rix.leaf(t[1])
    cls = {"union": M.UnionMatcher, "dismax": M.DisjunctionMaxMatcher, "inter": M.IntersectionMatcher,
           "andmaybe": M.AndMaybeMatcher}[k]
    return cls(_coord_build(t[1], rix, sc, counter), _coord_build(t[2], rix, sc, counter))


def _run_coord(seed):
    from whoosh import matching as M
    rng = random.Random(seed)
    rix = None
    try:
        if rng.random() < 0.5:
            # small dyadic list weights: the coordination bonus lifts a document above its raw score
            def leaf(r):
                g = G.gen_list(r)
                return ("list", g[1], g[2], 1)
            sc = rng.choice([1.0, 0.125, 0.03125])
            w = ("list", sc)
        else:
            w = rng.choice([("freq",), ("tfidf",), ("bm25", 0.75, 1.2)])
            spec = G.gen_index_spec(rng, 4, weighting=w)
            rix = G.RealIndex(spec)
            sc = 1.0

            def leaf(r):
                return ("term", r.randrange(len(spec.lists)))
        t = G.gen_tree(rng, 2, COORD_KINDS, leaf)
        scale = rng.choice([0.9, 0.5, 0.2, 2.0])

        def mk():
            return M.CoordMatcher(_coord_build(t, rix, sc, [0]), scale=scale)
        try:
            if t[0] == "null":
                return (w, "ok", None, None, t, scale)
            with G.watchdog():
                den = G.drain(mk())
            res = G.e2e_quality(rng, mk(), den, tol=1e-9)
        except G.Hang:
            return (w, "does-not-terminate", {}, [], t, scale)
        except Exception as e:  # noqa
            return (w, "raises " + G.err_name(e), {}, [], t, scale)
        if res is None:
            return (w, "ok", None, None, t, scale)
        return (w, res[0], res[1], [G.op_sexp(o) for o in res[2]], t, scale)
    finally:
        if rix is not None:
            rix.close()


SIG_COORD_DISMAX = "CoordMatcher:DisjunctionMax-child:score-depends-on-pruning"


def coord_dismax_demo(ctx):
    """CoordMatcher counts the sub-matchers standing on the document; DisjunctionMaxMatcher.skip_to_quality/replace
    move a side whose own quality is below the threshold off the document (harmless for the maximum), so a
    document *above* the threshold is rescored.  Fixed input; recorded finding."""
    from whoosh import matching as M
    from whoosh.scoring import WeightScorer

    def mk():
        a = M.ListMatcher([1, 5], [1.0, 1.0], scorer=WeightScorer(1.0), term=("f", "a"))
        b = M.ListMatcher([1, 7], [4.0, 4.0], scorer=WeightScorer(4.0), term=("f", "b"))
        return M.CoordMatcher(M.DisjunctionMaxMatcher(a, b), scale=0.5)
    fresh = mk().score()
    m = mk()
    m.skip_to_quality(1.5)
    r = mk().replace(1.5)
    got = {"fresh": fresh, "after skip_to_quality(1.5)": m.score() if m.is_active() else None,
           "after replace(1.5)": r.score() if r.is_active() else None}
    ctx.case(("coord-dismax",), nontrivial=True)
    if got["after skip_to_quality(1.5)"] != fresh or got["after replace(1.5)"] != fresh:
        ctx.violation(SIG_COORD_DISMAX, {"stream": "coord-dismax"}, "score of document 1 independent of the path", got,
                      "CoordMatcher over DisjunctionMaxMatcher: a document above the threshold is rescored by pruning")


def coord_stream(ctx, n):
    rng = ctx.rng("e2e:coord")
    seeds = [rng.getrandbits(48) for _ in range(n)]
    repaired = coord_repaired()
    for s, (w, kind, detail, ops, t, scale) in zip(seeds, ctx.pmap(_run_coord, seeds, chunksize=max(1, n // 64))):
        ctx.case(("coord", s), nontrivial=G.tree_size(t) > 1)
        ctx.stat("coord:" + w[0])
        if kind != "ok":
            # on a tree without the repairs every failure of this stream is the recorded finding
            sig = ("C12:coord:%s:%s" % (kind, t[0])) if repaired else SIG_COORD
            ctx.violation(sig, {"stream": "coord", "seed": s, "weighting": w, "tree": repr(t), "scale": scale, "ops": ops},
                          None, detail, "CoordMatcher: quality bound/skip/replace contradicts exhaustive stepping: " + kind)


# ------------------------------------------------------------------------------------------------
# quality reads of an exhausted MultiMatcher below a DisjunctionMaxMatcher that is still active

SIG_MULTI_EXHAUSTED = "MultiMatcher.max_quality/block_quality:exhausted:ValueError/IndexError"


def multi_exhausted_demo(ctx):
    from whoosh import matching as M
    from whoosh.scoring import WeightScorer
    mm = M.MultiMatcher([M.ListMatcher([1], [1.0], scorer=WeightScorer(1.0))], [0], WeightScorer(1.0))
    dm = M.DisjunctionMaxMatcher(mm, M.ListMatcher([1, 5], [2.0, 3.0], scorer=WeightScorer(3.0)))
    dm.next()
    ctx.case(("multi-exhausted",), nontrivial=True)
    got = {"is_active": dm.is_active(), "id": dm.id()}
    for name in ("max_quality", "block_quality"):
        got[name] = G.guarded(getattr(dm, name), conv=lambda x: x)
    if got["max_quality"] != 3.0 or got["block_quality"] != 3.0:
        ctx.violation(SIG_MULTI_EXHAUSTED, {"stream": "multi-exhausted"}, {"max_quality": 3.0, "block_quality": 3.0}, got,
                      "DisjunctionMaxMatcher on document 5 with an exhausted MultiMatcher side: quality reads raise")


# ------------------------------------------------------------------------------------------------
# weights that are not float32 numbers (field_boost = 0.1): the block header keeps the double

def float32_stream(ctx):
    from whoosh import fields, scoring
    from whoosh.filedb.filestore import RamStorage
    from whoosh.codec.whoosh3 import W3Codec
    G.private_tmp()
    for boost in (0.1, 0.3, 0.7):
        schema = fields.Schema(f=fields.KEYWORD(scorable=True, field_boost=boost))
        ix = RamStorage().create_index(schema)
        w = ix.writer(codec=W3Codec(blocklimit=2))
        for d in range(6):
            w.add_document(f=u"aa bb" if d % 2 else u"aa")
        w.commit()
        with ix.searcher(weighting=scoring.Frequency()) as s:
            m = s.postings("f", u"aa")
            while m.is_active():
                ctx.case(("f32", boost, m.id()), nontrivial=True)
                if m.block_quality() < m.score():
                    ctx.violation(SIG_F32, {"stream": "float32", "field_boost": boost, "doc": m.id()},
                                  "block_quality >= score", {"score": m.score(), "block_quality": m.block_quality()},
                                  "float32 posting weight exceeds the double kept in the block header")
                    break
                m.next()


def run(ctx):
    C11.corpus_replay(ctx, "C12")
    n = ctx.budget(2000, 24000)
    C11.correspondence(ctx, "quality-list", "list", n, KINDS, 3, 30, qbias=3)
    C11.correspondence(ctx, "quality-w3", "w3", n // 3, KINDS, 3, 30, qbias=3)
    C11.correspondence(ctx, "quality-mixed", "mixed", n // 3, KINDS, 3, 30, qbias=3)
    C11.correspondence(ctx, "quality-multi", "mixed", n // 4, ["multi", "multi", "multi", "union", "boost", "andmaybe"], 2, 30,
                       qbias=3)
    exact_stream(ctx, "list", "list", n, 3)
    exact_stream(ctx, "w3", "w3", n // 2, 3)
    exact_stream(ctx, "mixed", "mixed", n // 2, 3)
    C11.combo_correspondence(ctx, n // 4)
    C11.extra_stream(ctx, "C12", n // 4, quality=True)
    C11.combo_e2e(ctx, "C12", n // 4, quality=True)
    weighting_stream(ctx, n // 2, 2)
    coord_stream(ctx, n // 2)
    query_stream(ctx, n // 2)
    walk_stream(ctx, "list", "list", n // 2, 3)
    walk_stream(ctx, "w3", "w3", n // 4, 3)
    walk_stream(ctx, "mixed", "mixed", n // 4, 3)
    coord_dismax_demo(ctx)
    multi_exhausted_demo(ctx)
    float32_stream(ctx)
    G.cleanup_tmp()


def replay(ctx, rec):
    case = rec.get("case", {})
    res = C11.replay_common(ctx, rec, True)
    if res == "other":
        stream = case.get("stream")
        if stream == "weightings":
            w, kind, detail, ops, t, spec = _run_weighting((case["seed"], case["depth"]))
            res = None if kind == "ok" else (kind, detail)
        elif stream == "coord":
            w, kind, detail, ops, t, scale = _run_coord(case["seed"])
            res = None if kind == "ok" else (kind, detail)
        elif stream == "walk":
            c = _walk_case((case["seed"], case["mode"], case["depth"]))
            rep = ctx.driver.ask1("c12 walk %s (%s)" % (c["tree"], " ".join(c["ops"])))
            res = None if rep == c["impl"] else ("walk differs from the model", {"model": rep, "impl": c["impl"]})
        elif stream == "query":
            r = _run_query(case["seed"])
            res = None if r[1] == "ok" else (r[1], r[2], r[3])
        elif stream == "multi-exhausted":
            before = len(ctx.violations)
            multi_exhausted_demo(ctx)
            res = ctx.violations[before:] or None
        elif stream == "coord-dismax":
            before = len(ctx.violations)
            coord_dismax_demo(ctx)
            res = ctx.violations[before:] or None
        elif stream == "float32":
            before = len(ctx.violations)
            float32_stream(ctx)
            res = ctx.violations[before:] or None
        elif "mode" in case and "seed" in case:
            text = _prepare((case["seed"], case["mode"], case["depth"]))
            r = _run_exact((case["seed"], case["mode"], case["depth"], ctx.driver.ask1("c12 den " + text)))
            res = None if (r is None or r[0] == "ok") else (r[0], r[1], r[2])
        else:
            res = None
    print("expected:", rec.get("expected"))
    print("observed now:", res)
    return res is not None


MANIFEST = {
    "level_text": "Lean 4 theorems, unbounded (every tree shape of the C11 model, MultiMatcher and ArrayUnionMatcher included, every state and "
                  "threshold incl. 0, negative, above the maximum): block_quality() >= current score, for a posting list >= every "
                  "entry of the block (leaf_bound, any monotone scorer); max_quality() >= every remaining score; "
                  "skip_to_quality(q) and replace(q) leave the part of the result list above q unchanged and invent nothing "
                  "(skip_keeps, replace_keeps_partial); BM25F, TF_IDF and Frequency are monotone over Rat (bm25_mono, tfidf_mono, "
                  "freq_mono). Tied to the code by quality-heavy differential programs (which continue semantically after a "
                  "reshaping replace(q): both sides must keep the same entries above the largest threshold) and an end-to-end "
                  "walk of the real classes under every shipped weighting (Frequency exact against the Lean lists; TF_IDF, "
                  "BM25F, PL2, Reverse, Multi against exhaustive stepping of the same tree), of ArrayUnion/MultiMatcher over "
                  "modelled sub-matchers and of CoordMatcher (Or(..., scale)) against exhaustive stepping; the coordination formula "
                  "and the threshold conversion of the repaired CoordMatcher are proved over Rat (coord_bound, coord_threshold). "
                  "walk_keeps composes the single-step theorems into the loop of ScoredCollector.matches: for every schedule of "
                  "next()/skip_to_quality(q <= Q) every entry scoring above Q is visited or still remaining, nothing above Q is "
                  "invented (Lean runW, compared with the real classes call by call in the walk stream). The matchers that query "
                  "construction builds (Query.matcher(searcher) with the query classes' options: DisjunctionMax tiebreak, Or "
                  "scale, clause boosts, n-ary huffman trees) are walked end-to-end against exhaustive stepping and a top-k search.",
    "level_note": "Partial: replace(q) is proved for boosts in (0,1]; for boosts > 1 it is false of the code (proved "
                  "counterexample, known finding; a failing walk is filed under it only if the corrected wrapper passes it AND "
                  "the Lean model of the pinned code fails on it too). Scores are assumed non-negative (Reverse weighting is "
                  "outside the theorems and no longer claims quality). PL2/DFree are not modelled (log-based; decided by the "
                  "end-to-end run). ArrayUnionMatcher: positive scores and boost assumed; PreloadedUnion: executable model and "
                  "differential programs, no theorems; CoordMatcher: end-to-end only. Float rounding is not modelled (Rat). Trusted: Lean kernel, compiled "
                  "driver, the hand-written model (sampled correspondence), block statistics as read back from the real W3 reader.",
    "technique": "machine-checked proof in Lean 4 over an executable model + differential correspondence check against the implementation",
}
