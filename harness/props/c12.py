"""C12 — quality bounds are true upper bounds on scores."""
import random

from gen import matcher as G
from props import c11 as C11

ID = "C12"
LEVEL = "proof"
LEAN_IMPORTS = ["WM.Props.C12"]
THEOREMS = ["WM.C12.supports", "WM.C12.block", "WM.C12.max", "WM.C12.leaf_bound", "WM.C12.skip_keeps",
            "WM.C12.skip_keeps_mem", "WM.C12.replace_keeps_partial", "WM.C12.replace_keeps_boost_counterexample",
            "WM.C12.bm25_mono", "WM.C12.tfidf_mono", "WM.C12.freq_mono"]
PARTIAL = {"WM.C12.replace_keeps_partial": "replace(q) is proved to keep every entry above q for trees whose boosts lie in "
                                           "(0, 1]; for boosts > 1 WrappingMatcher.replace hands the threshold to the "
                                           "child unscaled and the statement is false (replace_keeps_boost_counterexample, "
                                           "known finding; tests/test_quality.py pins the behaviour)"}
RULE = ("matcher trees (depth <= 3) over ListMatchers and real W3LeafMatchers (blocklimit 1..4); walks of <= 14 "
        "next/skip_to/skip_to_quality/replace calls with thresholds taken from the scores present (0, negative, "
        "equal to a score, between scores, above the maximum); after every call block_quality >= score, max_quality >= "
        "every remaining score, no entry above the largest threshold lost/invented/rescored; non-trivial = a quality "
        "call actually moved or reshaped a composite matcher; distinct = distinct (tree, weighting, calls)")
ASSUMPTIONS = ["exact streams: dyadic weights/boosts, Frequency weighting (float arithmetic exact)",
               "weighting streams (TF_IDF, BM25F, PL2, Reverse, Multi): oracle = exhaustive stepping of the same real "
               "tree, relative tolerance 1e-9, thresholds kept 0.1% away from attainable scores"]
TRUSTED = ["real-analysis monotonicity of the log-based models is not proved: PL2/DFree are decided by the end-to-end run"]

KINDS = list(G.BIN) + list(G.UN)
WEIGHTINGS = [("tfidf",), ("bm25", 0.75, 1.2), ("bm25", 0.0, 2.0), ("bm25", 1.0, 0.5), ("pl2", 1.0), ("pl2", 7.0),
              ("reverse", ("bm25", 0.75, 1.2)), ("reverse", ("freq",)), ("multi", ("bm25", 0.75, 1.2), ("tfidf",))]

SIG_BOOST = "WrappingMatcher.replace:boost>1:threshold-not-divided-by-boost"
SIG_F32 = "W3LeafMatcher.block_quality<score:block-max-weight-not-float32-rounded"


def _prepare(args):
    seed, mode, depth = args
    t, spec = C11.make_case(seed, mode, KINDS, depth)
    rix = G.RealIndex(spec) if spec else None
    try:
        return G.tree_sexp(t, rix)
    finally:
        if rix:
            rix.close()


def _run_exact(args):
    seed, mode, depth, den_text = args
    if den_text.startswith("!"):
        return None
    t, spec = C11.make_case(seed, mode, KINDS, depth)
    rix = G.RealIndex(spec) if spec else None
    try:
        den = [(i, float(s)) for i, s in G.parse_den(den_text)]
        rng = random.Random(seed ^ 0xC12)
        try:
            m = G.build_real(t, rix)
            res = G.e2e_quality(rng, m, den)
        except G.Hang:
            return ("does-not-terminate", {}, [], t[0], None)
        except Exception as e:  # noqa
            return ("raises " + G.err_name(e), {}, [], t[0], None)
        if res is None:
            return ("ok", None, None, t[0], None)
        kind, detail, ops = res
        # classify: does the failure disappear when WrappingMatcher.replace scales the threshold?
        cls = None
        if G.max_boost(t) > 1 and any(o[0] == "replace" and o[1] for o in ops):
            with G.patched_wrapping_replace():
                try:
                    again = G.e2e_quality(rng, G.build_real(t, rix), den, fixed_ops=ops)
                except Exception:  # noqa
                    again = ("error", {}, [])
            if again is None:
                cls = SIG_BOOST
        return (kind, detail, [G.op_sexp(o) for o in ops], t[0], cls)
    finally:
        if rix:
            rix.close()


def exact_stream(ctx, name, mode, n, depth):
    rng = ctx.rng("e2e:" + name)
    seeds = [rng.getrandbits(48) for _ in range(n)]
    texts = ctx.pmap(_prepare, [(s, mode, depth) for s in seeds], chunksize=max(1, n // 64))
    dens = ctx.driver.ask(["c12 den " + t for t in texts])
    results = ctx.pmap(_run_exact, [(s, mode, depth, d) for s, d in zip(seeds, dens)], chunksize=max(1, n // 64))
    for s, text, d, res in zip(seeds, texts, dens, results):
        if res is None:
            continue
        kind, detail, ops, root, cls = res
        ctx.case(("e2e", text, tuple(ops or ())), nontrivial=text.count("(") > 3 and d != "()")
        ctx.stat("e2e:%s:cases" % name)
        if kind != "ok":
            sig = cls or ("C12:%s:%s" % (kind, root))
            ctx.violation(sig, {"stream": name, "seed": s, "mode": mode, "depth": depth, "tree": text, "ops": ops},
                          d, detail, "quality operation contradicts the list model: " + kind)


# ------------------------------------------------------------------------------------------------
# every shipped weighting on real posting lists: the oracle is the exhaustive stepping of the same tree

def _run_weighting(args):
    seed, depth = args
    rng = random.Random(seed)
    w = rng.choice(WEIGHTINGS)
    spec = G.gen_index_spec(rng, 4, weighting=w, deleted=(rng.random() < 0.2))
    rix = G.RealIndex(spec)
    try:
        t = G.gen_tree(rng, depth, [k for k in KINDS if k != "inverse"], lambda r: ("term", r.randrange(len(spec.lists))),
                       boosts=(0.5, 1.0, 1.0, 0.25))
        try:
            with G.watchdog():
                den = G.drain(G.build_real(t, rix))
            res = G.e2e_quality(rng, G.build_real(t, rix), den, tol=1e-9)
        except G.Hang:
            return (w, "does-not-terminate", {}, [], t, spec)
        except Exception as e:  # noqa
            return (w, "raises " + G.err_name(e), {}, [], t, spec)
        if res is None:
            return (w, "ok", None, None, t, None)
        return (w, res[0], res[1], [G.op_sexp(o) for o in res[2]], t, spec)
    finally:
        rix.close()


def weighting_stream(ctx, n, depth):
    rng = ctx.rng("e2e:weightings")
    seeds = [rng.getrandbits(48) for _ in range(n)]
    for s, (w, kind, detail, ops, t, spec) in zip(seeds, ctx.pmap(_run_weighting, [(s, depth) for s in seeds],
                                                                   chunksize=max(1, n // 64))):
        ctx.case(("w", s), nontrivial=G.tree_size(t) > 1)
        ctx.stat("weighting:" + w[0])
        if kind != "ok":
            ctx.violation("C12:%s:%s:%s" % (w[0], kind, t[0]),
                          {"stream": "weightings", "seed": s, "depth": depth, "weighting": w, "tree": repr(t),
                           "lists": spec.lists if spec else None, "blocklimit": spec.blocklimit if spec else None, "ops": ops},
                          None, detail, "quality bound/skip wrong under weighting %r: %s" % (w, kind))


# ------------------------------------------------------------------------------------------------
# weights that are not float32 numbers (field_boost = 0.1): the block header keeps the double

def float32_stream(ctx):
    from whoosh import fields, scoring
    from whoosh.filedb.filestore import RamStorage
    from whoosh.codec.whoosh3 import W3Codec
    G.private_tmp()
    for boost in (0.1, 0.3, 0.7):
        schema = fields.Schema(f=fields.KEYWORD(scorable=True, field_boost=boost))
        ix = RamStorage().create_index(schema)
        w = ix.writer(codec=W3Codec(blocklimit=2))
        for d in range(6):
            w.add_document(f=u"aa bb" if d % 2 else u"aa")
        w.commit()
        with ix.searcher(weighting=scoring.Frequency()) as s:
            m = s.postings("f", u"aa")
            while m.is_active():
                ctx.case(("f32", boost, m.id()), nontrivial=True)
                if m.block_quality() < m.score():
                    ctx.violation(SIG_F32, {"stream": "float32", "field_boost": boost, "doc": m.id()},
                                  "block_quality >= score", {"score": m.score(), "block_quality": m.block_quality()},
                                  "float32 posting weight exceeds the double kept in the block header")
                    break
                m.next()


def run(ctx):
    C11.corpus_replay(ctx, "C12")
    n = ctx.budget(2400, 24000)
    C11.correspondence(ctx, "quality-list", "list", n, KINDS, 3, 30, qbias=3)
    C11.correspondence(ctx, "quality-w3", "w3", n // 3, KINDS, 3, 30, qbias=3)
    C11.correspondence(ctx, "quality-mixed", "mixed", n // 3, KINDS, 3, 30, qbias=3)
    exact_stream(ctx, "list", "list", n, 3)
    exact_stream(ctx, "w3", "w3", n // 2, 3)
    exact_stream(ctx, "mixed", "mixed", n // 2, 3)
    C11.extra_stream(ctx, "C12", n // 4, quality=True)
    weighting_stream(ctx, n // 2, 2)
    float32_stream(ctx)
    G.cleanup_tmp()


def replay(ctx, rec):
    case = rec.get("case", {})
    res = C11.replay_common(ctx, rec, True)
    if res == "other":
        stream = case.get("stream")
        if stream == "weightings":
            w, kind, detail, ops, t, spec = _run_weighting((case["seed"], case["depth"]))
            res = None if kind == "ok" else (kind, detail)
        elif stream == "float32":
            before = len(ctx.violations)
            float32_stream(ctx)
            res = ctx.violations[before:] or None
        elif "mode" in case and "seed" in case:
            text = _prepare((case["seed"], case["mode"], case["depth"]))
            r = _run_exact((case["seed"], case["mode"], case["depth"], ctx.driver.ask1("c12 den " + text)))
            res = None if (r is None or r[0] == "ok") else (r[0], r[1], r[2])
        else:
            res = None
    print("expected:", rec.get("expected"))
    print("observed now:", res)
    return res is not None


MANIFEST = {
    "level_text": "Lean 4 theorems, unbounded (every tree shape of the C11 model, every state and threshold incl. 0, negative, "
                  "above the maximum): block_quality() >= current score, for a posting list >= every entry of the block "
                  "(leaf_bound, any monotone scorer); max_quality() >= every remaining score; skip_to_quality(q) and "
                  "replace(q) leave the part of the result list above q unchanged and invent nothing (skip_keeps, "
                  "replace_keeps_partial); BM25F, TF_IDF and Frequency are monotone over Rat (bm25_mono, tfidf_mono, freq_mono). "
                  "Tied to the code by quality-heavy differential programs and an end-to-end walk of the real classes under "
                  "every shipped weighting (Frequency exact against the Lean lists; TF_IDF, BM25F, PL2, Reverse, Multi against "
                  "exhaustive stepping of the same tree).",
    "level_note": "Partial: replace(q) is proved for boosts in (0,1]; for boosts > 1 it is false of the code (proved "
                  "counterexample, known finding). Scores are assumed non-negative (Reverse weighting is outside the theorems "
                  "and no longer claims quality). PL2/DFree are not modelled (log-based; decided by the end-to-end run; DFree "
                  "cannot even be constructed on the pinned tree). Float rounding is not modelled (Rat); the float32 block "
                  "max weight defect of the codec is a known finding. Trusted: Lean kernel, compiled driver, the hand-written "
                  "model (sampled correspondence), block statistics as read back from the real W3 reader.",
    "technique": "machine-checked proof in Lean 4 over an executable model + differential correspondence check against the implementation",
}
